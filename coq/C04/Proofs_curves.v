(* C04/Proofs_curves.v — the edges AppendEdges offers at a curveto command
   beyond rrcurveto/rcurveline: hhcurveto, vvcurveto, hvcurveto, vhcurveto,
   hflex, hflex1. *)
From Coq Require Import List NArith ZArith Bool Arith Lia.
From C05 Require Import Model Proofs.
From C04 Require Import Model Proofs_num Proofs_exec Proofs_lines.
Import ListNotations.
Local Open Scope Z_scope.

Lemma zero_ev e : is_zero e = true -> ev e = 0.
Proof. unfold is_zero. apply Z.eqb_eq. Qed.

(* ---------------- hhcurveto (offs = true) / vvcurveto (offs = false) ---------------- *)

Definition hh_lead (offs : bool) (c : ecmd) : enum :=
  match c with ECurve a0 a1 _ _ _ _ => sel offs a0 a1 | _ => (0, []) end.
Definition hh_last (offs : bool) (c : ecmd) : enum :=
  match c with ECurve _ _ _ _ a4 a5 => sel offs a4 a5 | _ => (0, []) end.
Definition hh_body (offs : bool) (c : ecmd) : list enum :=
  match c with ECurve a0 a1 a2 a3 a4 a5 => [sel offs a1 a0; a2; a3; sel offs a5 a4] | _ => [] end.

Definition hh_tail_ok (offs : bool) (c : ecmd) : bool :=
  is_curve c && is_zero (hh_last offs c) && is_zero (hh_lead offs c).

Definition hh_lay (offs : bool) (pre : list ecmd) : list enum :=
  match pre with
  | [] => []
  | c :: t => (if is_zero (hh_lead offs c) then [] else [hh_lead offs c]) ++ hh_body offs c
              ++ flat_map (hh_body offs) t
  end.

Definition hh_valid (offs : bool) (pre : list ecmd) : bool :=
  match pre with
  | [] => true
  | c :: t => is_curve c && is_zero (hh_last offs c) && forallb (hh_tail_ok offs) t
  end.

Lemma hh_tail_adv : forall t offs st,
  forallb (hh_tail_ok offs) t = true ->
  pst_of ((if offs then hhcurves else vvcurves) st 0 (vals (flat_map (hh_body offs) t))) = adv (pst_of st) t.
Proof.
  induction t as [|c t IH]; intros offs st H; [destruct offs; reflexivity|].
  cbn [forallb] in H. apply andb_true_iff in H. destruct H as [Hc Ht].
  unfold hh_tail_ok in Hc. apply andb_true_iff in Hc. destruct Hc as [Hc Hz1].
  apply andb_true_iff in Hc. destruct Hc as [Hc Hz2].
  destruct c; try discriminate. cbn [hh_last hh_lead] in *.
  cbn [flat_map hh_body app].
  specialize (IH offs).
  destruct offs; cbn [sel] in *; cbn [vals map hhcurves vvcurves app];
    match goal with |- context [map ev ?l] => change (map ev l) with (vals l) end;
    rewrite IH by assumption; rewrite pst_of_curve; cbn [adv fold_left app_draw];
    rewrite (zero_ev _ Hz1), (zero_ev _ Hz2); reflexivity.
Qed.

Lemma hh_body_length offs t : forallb is_curve t = true ->
  length (flat_map (hh_body offs) t) = (4 * length t)%nat.
Proof.
  induction t as [|c t IH]; [reflexivity|]. cbn [forallb]. intros H. apply andb_true_iff in H.
  destruct H as [Hc Ht]. destruct c; try discriminate. cbn [flat_map hh_body app length].
  rewrite IH by assumption. lia.
Qed.

Lemma hh_tail_curves offs t : forallb (hh_tail_ok offs) t = true -> forallb is_curve t = true.
Proof.
  induction t as [|c t IH]; [reflexivity|]. cbn [forallb]. intros H. apply andb_true_iff in H.
  destruct H as [Hc Ht]. unfold hh_tail_ok in Hc. apply andb_true_iff in Hc. destruct Hc as [Hc _].
  apply andb_true_iff in Hc. destruct Hc as [Hc _]. rewrite Hc, IH by assumption. reflexivity.
Qed.

Lemma hh_body_wf offs t : run_wf t -> Forall wf_enum (flat_map (hh_body offs) t).
Proof.
  induction t as [|c t IH]; intros H; [constructor|]. inversion H; subst.
  cbn [flat_map]. apply Forall_app. split; [|apply IH; assumption].
  destruct c as [| |a0 a1 a2 a3 a4 a5|]; cbn [hh_body cmd_enums] in *; try constructor.
  - destruct offs; cbn [sel];
      repeat match goal with H : Forall _ (_ :: _) |- _ => inversion H; clear H; subst end; assumption.
  - repeat match goal with H : Forall _ (_ :: _) |- _ => inversion H; clear H; subst end.
    repeat (constructor; [assumption|]).
    constructor; [destruct offs; cbn [sel]; assumption|constructor].
Qed.

Lemma mod4_mul k : ((4 * k) mod 4 = 0)%nat.
Proof. rewrite Nat.mul_comm. apply Nat.mod_mul. lia. Qed.
Lemma mod4_mul1 k : ((4 * k + 1) mod 4 = 1)%nat.
Proof. rewrite Nat.add_comm, Nat.mul_comm, Nat.mod_add by lia. reflexivity. Qed.

Lemma hh_edge_ok cs0 offs k :
  run_wf cs0 -> (1 <= k <= length cs0)%nat -> hh_valid offs (firstn k cs0) = true ->
  (length (hh_lay offs (firstn k cs0)) <= t2_max_stack)%nat ->
  edge_ok cs0 (mkEdge (hh_lay offs (firstn k cs0)) (if offs then OHhcurveto else OVvcurveto) k).
Proof.
  intros Hwf Hk Hv Hfit. unfold edge_ok. cbn [e_to e_args e_op].
  assert (Hwp : run_wf (firstn k cs0)).
  { rewrite <- (firstn_skipn k cs0) in Hwf. apply run_wf_app in Hwf. tauto. }
  destruct (firstn k cs0) as [|c t] eqn:Ef.
  { exfalso. apply (f_equal (@length _)) in Ef. rewrite firstn_length in Ef. cbn in Ef. lia. }
  cbn [hh_valid] in Hv. apply andb_true_iff in Hv. destruct Hv as [Hv Ht].
  apply andb_true_iff in Hv. destruct Hv as [Hc Hz].
  destruct c as [| |a0 a1 a2 a3 a4 a5|]; try discriminate.
  pose proof (hh_tail_curves _ _ Ht) as Htc.
  pose proof (hh_body_length offs t Htc) as Hbl.
  inversion Hwp as [|? ? Hwc Hwt]; subst.
  assert (Hwl : wf_enum (hh_lead offs (ECurve a0 a1 a2 a3 a4 a5))).
  { cbn [hh_lead cmd_enums] in *.
    repeat match goal with H : Forall _ (_ :: _) |- _ => inversion H; clear H; subst end.
    destruct offs; assumption. }
  assert (Hwb : Forall wf_enum (hh_body offs (ECurve a0 a1 a2 a3 a4 a5) ++ flat_map (hh_body offs) t)).
  { change (Forall wf_enum (flat_map (hh_body offs) (ECurve a0 a1 a2 a3 a4 a5 :: t))).
    apply hh_body_wf. exact Hwp. }
  split; [exact Hk|]. split.
  { unfold hh_lay. apply Forall_app. split; [|exact Hwb].
    destruct (is_zero (hh_lead offs (ECurve a0 a1 a2 a3 a4 a5)));
      [constructor|constructor; [exact Hwl|constructor]]. }
  split; [exact Hfit|].
  intros st p Hat Hm. destruct Hat as (Hp & Hs & Hpend).
  cbn [hh_last hh_lead hh_body] in *.
  unfold hh_lay in *. cbn [hh_lead hh_body] in *.
  destruct (is_zero (sel offs a0 a1)) eqn:Zl.
  - (* no leading operand: 4(k') operands *)
    cbn [app] in *.
    assert (Hn : length (args (tick st)) = (4 * S (length t))%nat).
    { unfold args. cbn [stk tick]. rewrite Hs, !rev_length. unfold vals. rewrite map_length.
      cbn [length]. rewrite Hbl. lia. }
    destruct offs; cbn [do_op sel] in *; rewrite Hn;
      (apply drawing_spec with (s := stk st);
       [repeat split; assumption
       |apply andb_true_iff; split; [apply Nat.leb_le; lia|rewrite mod4_mul; reflexivity]
       |exact Hm| |]); rewrite mod4_mul; cbn [Nat.eqb]; rewrite Hs, rev_involutive;
      cbn [vals map hhcurves vvcurves];
      match goal with |- context [map ev ?l] => change (map ev l) with (vals l) end.
    + rewrite (hh_tail_adv t true) by assumption. rewrite pst_of_curve, pst_of_tick, Hp.
      cbn [adv fold_left app_draw]. rewrite (zero_ev _ Zl), (zero_ev _ Hz). reflexivity.
    + pose proof (keep_hhcurves (length (vals (flat_map (hh_body true) t))) (vals (flat_map (hh_body true) t)) 0
                    (curve (tick st) (ev a0) 0 (ev a2) (ev a3) (ev a4) 0) (le_n _)) as K.
      unfold keep in K. destruct K as (_&_&_&_&_&K&_). rewrite K. exact Hpend.
    + rewrite (hh_tail_adv t false) by assumption. rewrite pst_of_curve, pst_of_tick, Hp.
      cbn [adv fold_left app_draw]. rewrite (zero_ev _ Zl), (zero_ev _ Hz). reflexivity.
    + pose proof (keep_vvcurves (length (vals (flat_map (hh_body false) t))) (vals (flat_map (hh_body false) t)) 0
                    (curve (tick st) 0 (ev a1) (ev a2) (ev a3) 0 (ev a5)) (le_n _)) as K.
      unfold keep in K. destruct K as (_&_&_&_&_&K&_). rewrite K. exact Hpend.
  - (* leading operand *)
    cbn [app] in *.
    assert (Hn : length (args (tick st)) = (4 * S (length t) + 1)%nat).
    { unfold args. cbn [stk tick]. rewrite Hs, !rev_length. unfold vals. rewrite map_length.
      cbn [length]. rewrite Hbl. lia. }
    destruct offs; cbn [do_op sel] in *; rewrite Hn;
      (apply drawing_spec with (s := stk st);
       [repeat split; assumption
       |apply andb_true_iff; split; [apply Nat.leb_le; lia|rewrite mod4_mul1; reflexivity]
       |exact Hm| |]); rewrite mod4_mul1; cbn [Nat.eqb]; rewrite Hs, rev_involutive;
      cbn [vals map hd tl hhcurves vvcurves];
      match goal with |- context [map ev ?l] => change (map ev l) with (vals l) end.
    + rewrite (hh_tail_adv t true) by assumption. rewrite pst_of_curve, pst_of_tick, Hp.
      cbn [adv fold_left app_draw]. rewrite (zero_ev _ Hz). reflexivity.
    + pose proof (keep_hhcurves (length (vals (flat_map (hh_body true) t))) (vals (flat_map (hh_body true) t)) 0
                    (curve (tick st) (ev a0) (ev a1) (ev a2) (ev a3) (ev a4) 0) (le_n _)) as K.
      unfold keep in K. destruct K as (_&_&_&_&_&K&_). rewrite K. exact Hpend.
    + rewrite (hh_tail_adv t false) by assumption. rewrite pst_of_curve, pst_of_tick, Hp.
      cbn [adv fold_left app_draw]. rewrite (zero_ev _ Hz). reflexivity.
    + pose proof (keep_vvcurves (length (vals (flat_map (hh_body false) t))) (vals (flat_map (hh_body false) t)) 0
                    (curve (tick st) (ev a0) (ev a1) (ev a2) (ev a3) 0 (ev a5)) (le_n _)) as K.
      unfold keep in K. destruct K as (_&_&_&_&_&K&_). rewrite K. exact Hpend.
Qed.

Definition hh_inv (offs : bool) (cs0 pre cs : list ecmd) (code : list enum) (pos : nat) : Prop :=
  cs0 = pre ++ cs /\ code = hh_lay offs pre /\ pos = length pre /\ hh_valid offs pre = true.

Lemma hh_lay_snoc offs pre c :
  pre <> [] -> hh_lay offs (pre ++ [c]) = hh_lay offs pre ++ hh_body offs c.
Proof.
  destruct pre as [|c0 t0]; [congruence|]. intros _. cbn [app hh_lay].
  rewrite flat_map_app. cbn [flat_map]. rewrite app_nil_r, <- !app_assoc. reflexivity.
Qed.

Lemma hh_valid_snoc offs pre c :
  pre <> [] -> hh_valid offs pre = true -> hh_tail_ok offs c = true -> hh_valid offs (pre ++ [c]) = true.
Proof.
  destruct pre as [|c0 t0]; [congruence|]. intros _ Hv Hc. cbn [app hh_valid] in *.
  apply andb_true_iff in Hv. destruct Hv as [Hv Ht]. rewrite Hv. cbn [andb].
  rewrite forallb_app, Ht. cbn [forallb]. rewrite Hc. reflexivity.
Qed.

Lemma hh_loop_ok cs0 offs : run_wf cs0 -> forall cs pre code pos,
  hh_inv offs cs0 pre cs code pos ->
  Forall (edge_ok cs0) (hh_loop offs (if offs then OHhcurveto else OVvcurveto) cs code pos).
Proof.
  intros Hwf. induction cs as [|c t IH]; intros pre code pos Hinv; [constructor|].
  destruct c as [a b|dx dy|a0 a1 a2 a3 a4 a5|k bs]; try constructor.
  cbn [hh_loop]. destruct (fits code 4) eqn:F4; [|constructor].
  destruct (negb (is_zero (sel offs a4 a5))) eqn:Zlast; [constructor|].
  apply negb_false_iff in Zlast.
  destruct Hinv as (H0 & Hc & Hp & Hv).
  set (c := ECurve a0 a1 a2 a3 a4 a5) in *.
  (* the edge over pre ++ [c], once the invariant is re-established *)
  assert (Hedge : forall code', hh_inv offs cs0 (pre ++ [c]) t code' (S pos) ->
            (length code' <= t2_max_stack)%nat ->
            edge_ok cs0 (mkEdge code' (if offs then OHhcurveto else OVvcurveto) (S pos))).
  { intros code' (H0' & Hc' & Hp' & Hv') Hl.
    assert (Hf : firstn (S pos) cs0 = pre ++ [c]) by (rewrite Hp', H0'; apply firstn_pre).
    rewrite Hc', <- Hf. apply hh_edge_ok; auto.
    - rewrite H0', app_length, <- Hp'. lia.
    - rewrite Hf. exact Hv'.
    - rewrite Hf, <- Hc'. exact Hl. }
  destruct (negb (is_zero (sel offs a0 a1))) eqn:Zlead.
  - (* a leading operand: only for the first curve *)
    apply negb_true_iff in Zlead.
    destruct ((pos =? 0)%nat && fits code 5) eqn:C; [|constructor].
    apply andb_true_iff in C. destruct C as [C0 F5]. apply Nat.eqb_eq in C0.
    assert (pre = []) by (destruct pre; [reflexivity|cbn in Hp; lia]). subst pre. cbn in Hc. subst code.
    assert (Hinv' : hh_inv offs cs0 ([] ++ [c]) t (([] ++ [sel offs a0 a1]) ++ [sel offs a1 a0; a2; a3; sel offs a5 a4]) (S pos)).
    { unfold hh_inv. repeat split.
      - exact H0.
      - cbn [app hh_lay c hh_lead hh_body flat_map]. rewrite Zlead. cbn [app]. reflexivity.
      - cbn. lia.
      - cbn [app hh_valid c hh_last is_curve forallb andb]. rewrite Zlast. reflexivity. }
    constructor.
    + apply Hedge; [exact Hinv'|]. cbn. unfold t2_max_stack. lia.
    + eapply IH. exact Hinv'.
  - apply negb_false_iff in Zlead.
    assert (Hinv' : hh_inv offs cs0 (pre ++ [c]) t (code ++ [sel offs a1 a0; a2; a3; sel offs a5 a4]) (S pos)).
    { unfold hh_inv. repeat split.
      - rewrite <- app_assoc. exact H0.
      - destruct pre as [|c0 t0].
        + cbn in Hc. subst code. cbn [app hh_lay c hh_lead hh_body flat_map]. rewrite Zlead.
          cbn [app]. reflexivity.
        + rewrite hh_lay_snoc by discriminate. rewrite Hc. reflexivity.
      - rewrite app_length. cbn. lia.
      - destruct pre as [|c0 t0].
        + cbn [app hh_valid c hh_last is_curve forallb andb]. rewrite Zlast. reflexivity.
        + apply hh_valid_snoc; [discriminate|exact Hv|].
          unfold hh_tail_ok. cbn [c is_curve hh_last hh_lead]. rewrite Zlast, Zlead. reflexivity. }
    constructor.
    + apply Hedge; [exact Hinv'|]. apply fits_le in F4. rewrite app_length. cbn [length]. lia.
    + eapply IH. exact Hinv'.
Qed.

(* ---------------- hvcurveto (orig = false) / vhcurveto (orig = true) ---------------- *)

Definition hv_start (offs : bool) (c : ecmd) : enum :=
  match c with ECurve a0 a1 _ _ _ _ => sel offs a1 a0 | _ => (0, []) end.
Definition hv_lastd (offs : bool) (c : ecmd) : enum :=
  match c with ECurve _ _ _ _ a4 a5 => sel offs a4 a5 | _ => (0, []) end.
Definition hv_body (offs : bool) (c : ecmd) : list enum :=
  match c with ECurve a0 a1 a2 a3 a4 a5 => [sel offs a0 a1; a2; a3; sel offs a5 a4] | _ => [] end.
Definition hv_one (offs : bool) (c : ecmd) : list enum :=
  hv_body offs c ++ (if is_zero (hv_lastd offs c) then [] else [hv_lastd offs c]).

Fixpoint hv_lay (offs : bool) (pre : list ecmd) : list enum :=
  match pre with
  | [] => []
  | c :: t => hv_one offs c ++ hv_lay (negb offs) t
  end.

(* every curve starts flat in its direction and ends flat in the other one *)
Fixpoint hv_mid (offs : bool) (pre : list ecmd) : bool :=
  match pre with
  | [] => true
  | c :: t => is_curve c && is_zero (hv_start offs c) && is_zero (hv_lastd offs c) && hv_mid (negb offs) t
  end.

(* ... except that the last curve may end anywhere *)
Fixpoint hv_valid (offs : bool) (pre : list ecmd) : bool :=
  match pre with
  | [] => true
  | [c] => is_curve c && is_zero (hv_start offs c)
  | c :: t => is_curve c && is_zero (hv_start offs c) && is_zero (hv_lastd offs c) && hv_valid (negb offs) t
  end.

Fixpoint flipn (n : nat) (b : bool) : bool := match n with O => b | S m => flipn m (negb b) end.

Lemma flipn_negb n b : flipn n (negb b) = negb (flipn n b).
Proof. revert b. induction n; intros b; cbn [flipn]; [reflexivity|]. rewrite IHn. reflexivity. Qed.

Lemma hv_lay_app : forall a offs b, hv_lay offs (a ++ b) = hv_lay offs a ++ hv_lay (flipn (length a) offs) b.
Proof.
  induction a as [|c a IH]; intros offs b; [reflexivity|].
  cbn [app hv_lay length flipn]. rewrite IH, <- app_assoc. reflexivity.
Qed.

Lemma hv_valid_snoc : forall pre offs c,
  hv_mid offs pre = true -> is_curve c = true -> is_zero (hv_start (flipn (length pre) offs) c) = true ->
  hv_valid offs (pre ++ [c]) = true.
Proof.
  induction pre as [|c0 t0 IH]; intros offs c Hm Hc Hz.
  - cbn in *. rewrite Hc, Hz. reflexivity.
  - cbn [hv_mid] in Hm. apply andb_true_iff in Hm. destruct Hm as [Hm Ht].
    specialize (IH (negb offs) c Ht Hc Hz).
    cbn [app]. destruct t0 as [|c1 t1]; cbn [app hv_valid] in *; rewrite Hm; cbn [andb]; exact IH.
Qed.

Lemma hv_mid_snoc : forall pre offs c,
  hv_mid offs pre = true -> hv_mid (flipn (length pre) offs) [c] = true -> hv_mid offs (pre ++ [c]) = true.
Proof.
  induction pre as [|c0 t0 IH]; intros offs c Hm Hc; [exact Hc|].
  cbn [hv_mid] in Hm. apply andb_true_iff in Hm. destruct Hm as [Hm Ht].
  cbn [app hv_mid]. rewrite Hm. cbn [andb]. apply IH; assumption.
Qed.

Lemma hv_mid_valid : forall pre offs, hv_mid offs pre = true -> hv_valid offs pre = true.
Proof.
  induction pre as [|c t IH]; intros offs H; [reflexivity|].
  cbn [hv_mid] in H. apply andb_true_iff in H. destruct H as [H Ht].
  destruct t as [|c1 t1].
  - cbn [hv_valid]. apply andb_true_iff in H. tauto.
  - cbn [hv_valid]. rewrite H. cbn [andb]. apply IH. exact Ht.
Qed.

Lemma hv_one_length offs c : is_curve c = true ->
  length (hv_one offs c) = (if is_zero (hv_lastd offs c) then 4 else 5)%nat.
Proof. destruct c; try discriminate. intros _. unfold hv_one. cbn [hv_body]. destruct (is_zero _); reflexivity. Qed.

Lemma hv_lay_length : forall pre offs, hv_valid offs pre = true ->
  exists e, (e <= 1)%nat /\ length (hv_lay offs pre) = (4 * length pre + e)%nat.
Proof.
  induction pre as [|c t IH]; intros offs H; [exists 0%nat; cbn; lia|].
  destruct t as [|c1 t1].
  - cbn [hv_valid] in H. apply andb_true_iff in H. destruct H as [Hc _].
    cbn [hv_lay]. rewrite app_nil_r, hv_one_length by assumption.
    destruct (is_zero _); [exists 0%nat|exists 1%nat]; cbn; lia.
  - cbn [hv_valid] in H. apply andb_true_iff in H. destruct H as [H Ht].
    apply andb_true_iff in H. destruct H as [H Hz]. apply andb_true_iff in H. destruct H as [Hc _].
    destruct (IH (negb offs) Ht) as (e & He & Hl).
    exists e. split; [exact He|].
    change (hv_lay offs (c :: c1 :: t1)) with (hv_one offs c ++ hv_lay (negb offs) (c1 :: t1)).
    rewrite app_length, Hl, hv_one_length by assumption.
    rewrite Hz. cbn [length]. lia.
Qed.

Lemma hv_lay_wf : forall pre offs, run_wf pre -> Forall wf_enum (hv_lay offs pre).
Proof.
  induction pre as [|c t IH]; intros offs H; [constructor|]. inversion H; subst.
  cbn [hv_lay]. apply Forall_app. split; [|apply IH; assumption].
  unfold hv_one. destruct c as [| |a0 a1 a2 a3 a4 a5|]; cbn [hv_body hv_lastd cmd_enums] in *;
    [constructor|constructor| |constructor].
  repeat match goal with H : Forall _ (_ :: _) |- _ => inversion H; clear H; subst end.
  apply Forall_app. split.
  - destruct offs; cbn [sel]; repeat (constructor; [assumption|]); constructor.
  - destruct offs; cbn [sel];
      match goal with |- context [is_zero ?x] => destruct (is_zero x) end;
      repeat constructor; assumption.
Qed.

Lemma altcurves_adv : forall pre offs st,
  hv_valid offs pre = true ->
  pst_of (altcurves (negb offs) st (vals (hv_lay offs pre))) = adv (pst_of st) pre.
Proof.
  induction pre as [|c t IH]; intros offs st H; [reflexivity|].
  destruct t as [|c1 t1].
  - (* the last curve *)
    cbn [hv_valid] in H. apply andb_true_iff in H. destruct H as [Hc Hz].
    destruct c as [| |a0 a1 a2 a3 a4 a5|]; try discriminate.
    cbn [hv_lay hv_one hv_body hv_lastd hv_start] in *. rewrite app_nil_r.
    unfold hv_one. cbn [hv_body hv_lastd].
    destruct (is_zero (sel offs a4 a5)) eqn:Za;
      destruct offs; cbn [sel negb app vals map altcurves] in *; rewrite pst_of_curve;
      cbn [adv fold_left app_draw]; rewrite ?(zero_ev _ Hz), ?(zero_ev _ Za); reflexivity.
  - cbn [hv_valid] in H. apply andb_true_iff in H. destruct H as [H Ht].
    apply andb_true_iff in H. destruct H as [H Za]. apply andb_true_iff in H. destruct H as [Hc Hz].
    destruct c as [| |a0 a1 a2 a3 a4 a5|]; try discriminate.
    specialize (IH (negb offs)).
    assert (Hc1 : is_curve c1 = true).
    { destruct t1; cbn [hv_valid] in Ht; repeat (apply andb_true_iff in Ht; destruct Ht as [Ht ?]); assumption. }
    destruct c1 as [| |b0 b1 b2 b3 b4 b5|]; try discriminate.
    cbn [hv_lastd hv_start] in *.
    change (hv_lay offs (ECurve a0 a1 a2 a3 a4 a5 :: ECurve b0 b1 b2 b3 b4 b5 :: t1))
      with (hv_one offs (ECurve a0 a1 a2 a3 a4 a5) ++ hv_lay (negb offs) (ECurve b0 b1 b2 b3 b4 b5 :: t1)).
    unfold hv_one at 1. cbn [hv_body hv_lastd]. rewrite Za, app_nil_r.
    remember (hv_lay (negb offs) (ECurve b0 b1 b2 b3 b4 b5 :: t1)) as L eqn:EL.
    assert (HL : exists x1 x2 L', L = x1 :: x2 :: L').
    { rewrite EL. cbn [hv_lay hv_one hv_body app]. eauto. }
    destruct HL as (x1 & x2 & L' & ->).
    cbn [app vals map]. rewrite altcurves_step.
    change (ev x1 :: ev x2 :: map ev L') with (vals (x1 :: x2 :: L')).
    destruct offs; cbn [sel negb] in *.
    + rewrite IH by assumption. rewrite pst_of_curve. cbn [adv fold_left app_draw].
      rewrite (zero_ev _ Hz), (zero_ev _ Za). reflexivity.
    + rewrite IH by assumption. rewrite pst_of_curve. cbn [adv fold_left app_draw].
      rewrite (zero_ev _ Hz), (zero_ev _ Za). reflexivity.
Qed.

Lemma altcurves_pend h st a : pend (altcurves h st a) = pend st.
Proof. pose proof (keep_altcurves (length a) a h st (le_n _)) as K. unfold keep in K. tauto. Qed.

Lemma hv_edge_ok cs0 orig k :
  run_wf cs0 -> (1 <= k <= length cs0)%nat -> hv_valid orig (firstn k cs0) = true ->
  (length (hv_lay orig (firstn k cs0)) <= t2_max_stack)%nat ->
  edge_ok cs0 (mkEdge (hv_lay orig (firstn k cs0)) (if orig then OVhcurveto else OHvcurveto) k).
Proof.
  intros Hwf Hk Hv Hfit. unfold edge_ok. cbn [e_to e_args e_op].
  assert (Hwp : run_wf (firstn k cs0)).
  { rewrite <- (firstn_skipn k cs0) in Hwf. apply run_wf_app in Hwf. tauto. }
  destruct (hv_lay_length _ _ Hv) as (e & He & Hlen).
  rewrite firstn_length in Hlen. replace (Nat.min k (length cs0)) with k in Hlen by lia.
  split; [exact Hk|]. split; [apply hv_lay_wf; exact Hwp|]. split; [exact Hfit|].
  intros st p Hat Hm. destruct Hat as (Hp & Hs & Hpend).
  assert (Hn : length (args (tick st)) = (4 * k + e)%nat).
  { unfold args. cbn [stk tick]. rewrite Hs, !rev_length. unfold vals. rewrite map_length. exact Hlen. }
  assert (Hcnt : ((4 <=? 4 * k + e)%nat && ((4 * k + e) mod 4 <? 2)%nat) = true).
  { apply andb_true_iff. split; [apply Nat.leb_le; lia|].
    destruct e as [|[|]]; [rewrite Nat.add_0_r, mod4_mul|rewrite mod4_mul1|lia]; reflexivity. }
  destruct orig; cbn [do_op]; rewrite Hn.
  - apply drawing_spec with (s := stk st); [repeat split; assumption|exact Hcnt|exact Hm| |];
      rewrite Hs, rev_involutive.
    + change false with (negb true). rewrite altcurves_adv by assumption. rewrite pst_of_tick, Hp. reflexivity.
    + rewrite altcurves_pend. exact Hpend.
  - apply drawing_spec with (s := stk st); [repeat split; assumption|exact Hcnt|exact Hm| |];
      rewrite Hs, rev_involutive.
    + change true with (negb false). rewrite altcurves_adv by assumption. rewrite pst_of_tick, Hp. reflexivity.
    + rewrite altcurves_pend. exact Hpend.
Qed.

Definition hv_inv (orig offs : bool) (cs0 pre cs : list ecmd) (code : list enum) (pos : nat) : Prop :=
  cs0 = pre ++ cs /\ code = hv_lay orig pre /\ pos = length pre /\ hv_mid orig pre = true /\
  offs = flipn (length pre) orig.

Lemma hv_loop_ok cs0 orig : run_wf cs0 -> forall cs pre offs code pos,
  hv_inv orig offs cs0 pre cs code pos ->
  Forall (edge_ok cs0) (hv_loop orig offs (if orig then OVhcurveto else OHvcurveto) cs code pos).
Proof.
  intros Hwf. induction cs as [|c t IH]; intros pre offs code pos Hinv; [constructor|].
  destruct c as [a b|dx dy|a0 a1 a2 a3 a4 a5|k bs]; try constructor.
  cbn [hv_loop].
  destruct (negb (is_zero (sel offs a1 a0))) eqn:Zs; [constructor|]. apply negb_false_iff in Zs.
  destruct (negb (Bool.eqb offs orig) && negb (is_zero (sel offs a4 a5))) eqn:C1; [constructor|].
  destruct (negb (fits code 4) || negb (is_zero (sel offs a4 a5)) && negb (fits code 5)) eqn:C2; [constructor|].
  apply orb_false_iff in C2. destruct C2 as [F4 F5]. apply negb_false_iff in F4.
  destruct Hinv as (H0 & Hc & Hp & Hm & Ho).
  set (c := ECurve a0 a1 a2 a3 a4 a5) in *.
  set (code' := if is_zero (sel offs a4 a5)
                then code ++ [sel offs a0 a1; a2; a3; sel offs a5 a4]
                else (code ++ [sel offs a0 a1; a2; a3; sel offs a5 a4]) ++ [sel offs a4 a5]).
  assert (Hcode : code' = hv_lay orig (pre ++ [c])).
  { rewrite hv_lay_app, <- Ho, <- Hc. cbn [hv_lay]. rewrite app_nil_r. unfold hv_one, code'.
    cbn [c hv_body hv_lastd]. destruct (is_zero (sel offs a4 a5)); [rewrite app_nil_r|rewrite app_assoc]; reflexivity. }
  assert (Hlen : (length code' <= t2_max_stack)%nat).
  { unfold code'. apply fits_le in F4. destruct (is_zero (sel offs a4 a5)) eqn:Za.
    - rewrite app_length. cbn [length]. lia.
    - cbn [negb andb] in F5. apply negb_false_iff in F5. apply fits_le in F5.
      rewrite !app_length. cbn [length]. lia. }
  assert (Hf : firstn (S pos) cs0 = pre ++ [c]).
  { rewrite Hp, H0. change (c :: t) with ([c] ++ t). rewrite app_assoc.
    apply firstn_app_exact. rewrite app_length. cbn. lia. }
  assert (Hedge : edge_ok cs0 (mkEdge code' (if orig then OVhcurveto else OHvcurveto) (S pos))).
  { rewrite Hcode, <- Hf. apply hv_edge_ok; auto.
    - rewrite H0, app_length, <- Hp. cbn [length]. lia.
    - rewrite Hf. apply hv_valid_snoc; [exact Hm|reflexivity|]. rewrite <- Ho. exact Zs.
    - rewrite Hf, <- Hcode. exact Hlen. }
  (* the loop continues only after an aligned curve *)
  assert (Hnext : is_zero (sel offs a4 a5) = true ->
            hv_inv orig (negb offs) cs0 (pre ++ [c]) t code' (S pos)).
  { intros Za. unfold hv_inv. repeat split.
    - rewrite <- app_assoc. exact H0.
    - exact Hcode.
    - rewrite app_length. cbn. lia.
    - apply hv_mid_snoc; [exact Hm|]. rewrite <- Ho. cbn [hv_mid c is_curve hv_start hv_lastd].
      rewrite Zs, Za. reflexivity.
    - rewrite app_length. cbn [length]. rewrite Nat.add_1_r. cbn [flipn].
      rewrite flipn_negb, <- Ho. reflexivity. }
  fold code'.
  change (if is_zero (sel offs a4 a5)
          then code ++ [sel offs a0 a1; a2; a3; sel offs a5 a4]
          else (code ++ [sel offs a0 a1; a2; a3; sel offs a5 a4]) ++ [sel offs a4 a5]) with code'.
  destruct (Bool.eqb (negb offs) orig) eqn:E.
  - (* no edge after an even number of curves; the curve was aligned *)
    assert (Za : is_zero (sel offs a4 a5) = true).
    { destruct (is_zero (sel offs a4 a5)); [reflexivity|].
      destruct offs, orig; cbn in E, C1; discriminate. }
    eapply IH. apply Hnext. exact Za.
  - constructor; [exact Hedge|].
    destruct (is_zero (sel offs a4 a5)) eqn:Za; [|constructor].
    eapply IH. apply Hnext. reflexivity.
Qed.

(* ---------------- hflex / hflex1 ---------------- *)

Lemma flex_edges_ok cs0 : run_wf cs0 -> Forall (edge_ok cs0) (flex_edges cs0).
Proof.
  intros Hwf. unfold flex_edges.
  destruct cs0 as [|c1 t]; [constructor|].
  destruct c1 as [| |a0 a1 a2 a3 a4 a5|]; try constructor.
  destruct t as [|c2 rest]; [constructor|].
  destruct c2 as [| |b0 b1 b2 b3 b4 b5|]; try constructor.
  destruct (is_zero a5 && is_zero b1) eqn:Z; [|constructor].
  apply andb_true_iff in Z. destruct Z as [Za5 Zb1].
  inversion Hwf as [|? ? Hw1 Hw']; subst. inversion Hw' as [|? ? Hw2 _]; subst.
  cbn [cmd_enums] in Hw1, Hw2.
  repeat match goal with H : Forall _ (_ :: _) |- _ => inversion H; clear H; subst end.
  destruct (is_zero a1 && is_zero b5 && (ev a3 + ev b3 =? 0)) eqn:Zh.
  - (* hflex *)
    apply andb_true_iff in Zh. destruct Zh as [Zh Zd]. apply andb_true_iff in Zh. destruct Zh as [Za1 Zb5].
    apply Z.eqb_eq in Zd.
    constructor; [|constructor]. unfold edge_ok. cbn [e_to e_args e_op length].
    split; [lia|]. split; [repeat (constructor; [assumption|]); constructor|].
    split; [unfold t2_max_stack; lia|].
    intros st p (Hp & Hs & Hpend) Hm. cbn [do_op].
    assert (Hn : length (args (tick st)) = 7%nat).
    { unfold args. cbn [stk tick]. rewrite Hs. reflexivity. }
    rewrite Hn.
    apply drawing_spec with (s := stk st); [repeat split; assumption|reflexivity|exact Hm| |];
      rewrite Hs; cbn [vals map rev app].
    + rewrite !pst_of_curve, pst_of_tick, Hp. cbn [firstn adv fold_left app_draw].
      rewrite (zero_ev _ Za1), (zero_ev _ Za5), (zero_ev _ Zb1), (zero_ev _ Zb5).
      replace (- ev a3) with (ev b3) by lia. reflexivity.
    + exact Hpend.
  - destruct (ev a3 + ev b3 + ev a1 + ev b5 =? 0) eqn:Zd; [|constructor].
    apply Z.eqb_eq in Zd.
    constructor; [|constructor]. unfold edge_ok. cbn [e_to e_args e_op length].
    split; [lia|]. split; [repeat (constructor; [assumption|]); constructor|].
    split; [unfold t2_max_stack; lia|].
    intros st p (Hp & Hs & Hpend) Hm. cbn [do_op].
    assert (Hn : length (args (tick st)) = 9%nat).
    { unfold args. cbn [stk tick]. rewrite Hs. reflexivity. }
    rewrite Hn.
    apply drawing_spec with (s := stk st); [repeat split; assumption|reflexivity|exact Hm| |];
      rewrite Hs; cbn [vals map rev app].
    + rewrite !pst_of_curve, pst_of_tick, Hp. cbn [firstn adv fold_left app_draw].
      rewrite (zero_ev _ Za5), (zero_ev _ Zb1).
      replace (- (ev a1 + ev a3 + ev b3)) with (ev b5) by lia. reflexivity.
    + exact Hpend.
Qed.
