(* C04/Proofs_curves.v — the edges AppendEdges offers at a curveto command
   beyond rrcurveto/rcurveline: hhcurveto, vvcurveto, hvcurveto, vhcurveto,
   hflex, hflex1. *)
From Coq Require Import List NArith ZArith Bool Arith Lia.
From C05 Require Import Model Proofs.
From C04 Require Import Model Proofs_num Proofs_exec Proofs_lines.
Import ListNotations.
Local Open Scope Z_scope.

Lemma zero_ev e : is_zero e = true -> ev e = 0.
Proof. unfold is_zero. apply Z.eqb_eq. Qed.

(* ---------------- hhcurveto (offs = true) / vvcurveto (offs = false) ---------------- *)

Definition hh_lead (offs : bool) (c : ecmd) : enum :=
  match c with ECurve a0 a1 _ _ _ _ => sel offs a0 a1 | _ => (0, []) end.
Definition hh_last (offs : bool) (c : ecmd) : enum :=
  match c with ECurve _ _ _ _ a4 a5 => sel offs a4 a5 | _ => (0, []) end.
Definition hh_body (offs : bool) (c : ecmd) : list enum :=
  match c with ECurve a0 a1 a2 a3 a4 a5 => [sel offs a1 a0; a2; a3; sel offs a5 a4] | _ => [] end.

Definition hh_tail_ok (offs : bool) (c : ecmd) : bool :=
  is_curve c && is_zero (hh_last offs c) && is_zero (hh_lead offs c).

Definition hh_lay (offs : bool) (pre : list ecmd) : list enum :=
  match pre with
  | [] => []
  | c :: t => (if is_zero (hh_lead offs c) then [] else [hh_lead offs c]) ++ hh_body offs c
              ++ flat_map (hh_body offs) t
  end.

Definition hh_valid (offs : bool) (pre : list ecmd) : bool :=
  match pre with
  | [] => true
  | c :: t => is_curve c && is_zero (hh_last offs c) && forallb (hh_tail_ok offs) t
  end.

Lemma hh_tail_adv : forall t offs st,
  forallb (hh_tail_ok offs) t = true ->
  pst_of ((if offs then hhcurves else vvcurves) st 0 (vals (flat_map (hh_body offs) t))) = adv (pst_of st) t.
Proof.
  induction t as [|c t IH]; intros offs st H; [destruct offs; reflexivity|].
  cbn [forallb] in H. apply andb_true_iff in H. destruct H as [Hc Ht].
  unfold hh_tail_ok in Hc. apply andb_true_iff in Hc. destruct Hc as [Hc Hz1].
  apply andb_true_iff in Hc. destruct Hc as [Hc Hz2].
  destruct c; try discriminate. cbn [hh_last hh_lead] in *.
  cbn [flat_map hh_body app].
  specialize (IH offs).
  destruct offs; cbn [sel] in *; cbn [vals map hhcurves vvcurves app];
    match goal with |- context [map ev ?l] => change (map ev l) with (vals l) end;
    rewrite IH by assumption; rewrite pst_of_curve; cbn [adv fold_left app_draw];
    rewrite (zero_ev _ Hz1), (zero_ev _ Hz2); reflexivity.
Qed.

Lemma hh_body_length offs t : forallb is_curve t = true ->
  length (flat_map (hh_body offs) t) = (4 * length t)%nat.
Proof.
  induction t as [|c t IH]; [reflexivity|]. cbn [forallb]. intros H. apply andb_true_iff in H.
  destruct H as [Hc Ht]. destruct c; try discriminate. cbn [flat_map hh_body app length].
  rewrite IH by assumption. lia.
Qed.

Lemma hh_tail_curves offs t : forallb (hh_tail_ok offs) t = true -> forallb is_curve t = true.
Proof.
  induction t as [|c t IH]; [reflexivity|]. cbn [forallb]. intros H. apply andb_true_iff in H.
  destruct H as [Hc Ht]. unfold hh_tail_ok in Hc. apply andb_true_iff in Hc. destruct Hc as [Hc _].
  apply andb_true_iff in Hc. destruct Hc as [Hc _]. rewrite Hc, IH by assumption. reflexivity.
Qed.

Lemma hh_body_wf offs t : run_wf t -> Forall wf_enum (flat_map (hh_body offs) t).
Proof.
  induction t as [|c t IH]; intros H; [constructor|]. inversion H; subst.
  cbn [flat_map]. apply Forall_app. split; [|apply IH; assumption].
  destruct c; cbn [hh_body cmd_enums] in *; try constructor.
  repeat match goal with H : Forall _ (_ :: _) |- _ => inversion H; clear H; subst end.
  destruct offs; cbn [sel]; repeat constructor; assumption.
Qed.

Lemma mod4_mul k : ((4 * k) mod 4 = 0)%nat.
Proof. rewrite Nat.mul_comm. apply Nat.mod_mul. lia. Qed.
Lemma mod4_mul1 k : ((4 * k + 1) mod 4 = 1)%nat.
Proof. rewrite Nat.add_comm, Nat.mul_comm, Nat.mod_add by lia. reflexivity. Qed.

Lemma hh_edge_ok cs0 offs k :
  run_wf cs0 -> (1 <= k <= length cs0)%nat -> hh_valid offs (firstn k cs0) = true ->
  (length (hh_lay offs (firstn k cs0)) <= t2_max_stack)%nat ->
  edge_ok cs0 (mkEdge (hh_lay offs (firstn k cs0)) (if offs then OHhcurveto else OVvcurveto) k).
Proof.
  intros Hwf Hk Hv Hfit. unfold edge_ok. cbn [e_to e_args e_op].
  assert (Hwp : run_wf (firstn k cs0)).
  { rewrite <- (firstn_skipn k cs0) in Hwf. apply run_wf_app in Hwf. tauto. }
  destruct (firstn k cs0) as [|c t] eqn:Ef.
  { exfalso. apply (f_equal (@length _)) in Ef. rewrite firstn_length in Ef. cbn in Ef. lia. }
  cbn [hh_valid] in Hv. apply andb_true_iff in Hv. destruct Hv as [Hv Ht].
  apply andb_true_iff in Hv. destruct Hv as [Hc Hz].
  destruct c as [| |a0 a1 a2 a3 a4 a5|]; try discriminate.
  pose proof (hh_tail_curves _ _ Ht) as Htc.
  pose proof (hh_body_length offs t Htc) as Hbl.
  inversion Hwp as [|? ? Hwc Hwt]; subst.
  assert (Hwl : wf_enum (hh_lead offs (ECurve a0 a1 a2 a3 a4 a5))).
  { cbn [hh_lead cmd_enums] in *.
    repeat match goal with H : Forall _ (_ :: _) |- _ => inversion H; clear H; subst end.
    destruct offs; assumption. }
  assert (Hwb : Forall wf_enum (hh_body offs (ECurve a0 a1 a2 a3 a4 a5) ++ flat_map (hh_body offs) t)).
  { change (Forall wf_enum (flat_map (hh_body offs) (ECurve a0 a1 a2 a3 a4 a5 :: t))).
    apply hh_body_wf. exact Hwp. }
  split; [exact Hk|]. split.
  { unfold hh_lay. apply Forall_app. split; [|exact Hwb].
    destruct (is_zero _); [constructor|constructor; [exact Hwl|constructor]]. }
  split; [exact Hfit|].
  intros st p Hat Hm. destruct Hat as (Hp & Hs & Hpend).
  cbn [hh_last hh_lead hh_body] in *.
  unfold hh_lay in *. cbn [hh_lead hh_body] in *.
  destruct (is_zero (sel offs a0 a1)) eqn:Zl.
  - (* no leading operand: 4(k') operands *)
    cbn [app] in *.
    assert (Hn : length (args (tick st)) = (4 * S (length t))%nat).
    { unfold args. cbn [stk tick]. rewrite Hs, !rev_length. unfold vals. rewrite map_length.
      cbn [length]. rewrite Hbl. lia. }
    destruct offs; cbn [do_op sel] in *; rewrite Hn;
      (apply drawing_spec with (s := stk st);
       [repeat split; assumption
       |apply andb_true_iff; split; [apply Nat.leb_le; lia|rewrite mod4_mul; reflexivity]
       |exact Hm| |]); rewrite mod4_mul; cbn [Nat.eqb]; rewrite Hs, rev_involutive;
      cbn [vals map hhcurves vvcurves];
      match goal with |- context [map ev ?l] => change (map ev l) with (vals l) end.
    + rewrite (hh_tail_adv t true) by assumption. rewrite pst_of_curve, pst_of_tick, Hp.
      cbn [adv fold_left app_draw]. rewrite (zero_ev _ Zl), (zero_ev _ Hz). reflexivity.
    + pose proof (keep_hhcurves (length (vals (flat_map (hh_body true) t))) (vals (flat_map (hh_body true) t)) 0
                    (curve (tick st) (ev a0) 0 (ev a2) (ev a3) (ev a4) 0) (le_n _)) as K.
      unfold keep in K. destruct K as (_&_&_&_&_&K&_). rewrite K. exact Hpend.
    + rewrite (hh_tail_adv t false) by assumption. rewrite pst_of_curve, pst_of_tick, Hp.
      cbn [adv fold_left app_draw]. rewrite (zero_ev _ Zl), (zero_ev _ Hz). reflexivity.
    + pose proof (keep_vvcurves (length (vals (flat_map (hh_body false) t))) (vals (flat_map (hh_body false) t)) 0
                    (curve (tick st) 0 (ev a1) (ev a2) (ev a3) 0 (ev a5)) (le_n _)) as K.
      unfold keep in K. destruct K as (_&_&_&_&_&K&_). rewrite K. exact Hpend.
  - (* leading operand *)
    cbn [app] in *.
    assert (Hn : length (args (tick st)) = (4 * S (length t) + 1)%nat).
    { unfold args. cbn [stk tick]. rewrite Hs, !rev_length. unfold vals. rewrite map_length.
      cbn [length]. rewrite Hbl. lia. }
    destruct offs; cbn [do_op sel] in *; rewrite Hn;
      (apply drawing_spec with (s := stk st);
       [repeat split; assumption
       |apply andb_true_iff; split; [apply Nat.leb_le; lia|rewrite mod4_mul1; reflexivity]
       |exact Hm| |]); rewrite mod4_mul1; cbn [Nat.eqb]; rewrite Hs, rev_involutive;
      cbn [vals map hd tl hhcurves vvcurves];
      match goal with |- context [map ev ?l] => change (map ev l) with (vals l) end.
    + rewrite (hh_tail_adv t true) by assumption. rewrite pst_of_curve, pst_of_tick, Hp.
      cbn [adv fold_left app_draw]. rewrite (zero_ev _ Hz). reflexivity.
    + pose proof (keep_hhcurves (length (vals (flat_map (hh_body true) t))) (vals (flat_map (hh_body true) t)) 0
                    (curve (tick st) (ev a0) (ev a1) (ev a2) (ev a3) (ev a4) 0) (le_n _)) as K.
      unfold keep in K. destruct K as (_&_&_&_&_&K&_). rewrite K. exact Hpend.
    + rewrite (hh_tail_adv t false) by assumption. rewrite pst_of_curve, pst_of_tick, Hp.
      cbn [adv fold_left app_draw]. rewrite (zero_ev _ Hz). reflexivity.
    + pose proof (keep_vvcurves (length (vals (flat_map (hh_body false) t))) (vals (flat_map (hh_body false) t)) 0
                    (curve (tick st) (ev a0) (ev a1) (ev a2) (ev a3) 0 (ev a5)) (le_n _)) as K.
      unfold keep in K. destruct K as (_&_&_&_&_&K&_). rewrite K. exact Hpend.
Qed.
