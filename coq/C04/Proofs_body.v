(* C04/Proofs_body.v — moves, masks, runs and endchar: every charstring body
   encodePaths can emit executes to the command list; encodeArgs is exact. *)
From Coq Require Import List NArith ZArith Bool Arith Lia.
From C05 Require Import Model Proofs.
From C04 Require Import Model Proofs_num Proofs_exec Proofs_lines Proofs_curves Proofs_main.
Import ListNotations.
Local Open Scope Z_scope.

(* ------------------------------------------------------------------ *)
(* what a command does to the glyph under construction                 *)

Definition p_move (p : pst) (w : option Z) (dx dy : Z) : pst :=
  let x := p_px p + dx in let y := p_py p + dy in
  mkP true w false (p_hs p) (p_vs p) (p_cmds p ++ [CMove x y]) x y true.

Definition p_mask (p : pst) (w : option Z) (vs' : list Z) (k : bool) (bs : list N) : pst :=
  mkP true w false (p_hs p) vs' (p_cmds p ++ [if k then CCntr bs else CHint bs]) (p_px p) (p_py p) (p_moved p).

Definition app_ecmd (p : pst) (c : ecmd) : pst :=
  match c with
  | EMove dx dy => p_move p (p_width p) (ev dx) (ev dy)
  | EMask k bs => p_mask p (p_width p) (p_vs p) k bs
  | _ => app_draw p c
  end.

Definition sem (p : pst) (cs : list ecmd) : pst := fold_left app_ecmd cs p.

Lemma sem_app p a b : sem p (a ++ b) = sem (sem p a) b.
Proof. unfold sem. apply fold_left_app. Qed.

Lemma sem_draws : forall run p, forallb is_draw_cmd run = true -> sem p run = adv p run.
Proof.
  induction run as [|c t IH]; intros p H; [reflexivity|]. cbn [forallb] in H.
  apply andb_true_iff in H. destruct H as [Hc Ht]. unfold sem, adv in *. cbn [fold_left].
  rewrite IH by assumption. destruct c; try discriminate; reflexivity.
Qed.

Definition nstems (p : pst) : nat := ((length (p_hs p) + length (p_vs p)) / 2)%nat.

(* well-formed command list: drawing only after a moveto, masks of the right
   length and only when stems exist; [m] = a moveto has been seen *)
Fixpoint body_wf (ns : nat) (m : bool) (cs : list ecmd) : bool :=
  match cs with
  | [] => true
  | EMove _ _ :: t => body_wf ns true t
  | EMask _ bs :: t => (1 <=? ns)%nat && (length bs =? (ns + 7) / 8)%nat && body_wf ns m t
  | _ :: t => m && body_wf ns m t
  end.

Lemma take_run_spec : forall cs run rest, take_run cs = (run, rest) ->
  cs = run ++ rest /\ forallb is_draw_cmd run = true.
Proof.
  induction cs as [|c t IH]; intros run rest H; cbn [take_run] in H.
  - inversion H; subst. split; reflexivity.
  - destruct (is_draw_cmd c) eqn:D.
    + destruct (take_run t) as [r rs] eqn:E. inversion H; subst.
      destruct (IH r rest eq_refl) as [H1 H2]. split; [cbn; rewrite H1; reflexivity|].
      cbn [forallb]. rewrite D, H2. reflexivity.
    + inversion H; subst. split; reflexivity.
Qed.

Lemma body_wf_run : forall run ns m rest,
  forallb is_draw_cmd run = true -> run <> [] -> body_wf ns m (run ++ rest) = true ->
  m = true /\ body_wf ns m rest = true.
Proof.
  induction run as [|c t IH]; intros ns m rest Hd Hne H; [congruence|].
  cbn [forallb] in Hd. apply andb_true_iff in Hd. destruct Hd as [Hc Ht].
  destruct c; try discriminate; cbn [app body_wf] in H; apply andb_true_iff in H; destruct H as [Hm Hr];
    (split; [exact Hm|]); (destruct t as [|c' t']; [exact Hr|]);
    apply (IH ns m rest Ht ltac:(discriminate) Hr).
Qed.

Lemma sem_nstems : forall cs p, p_hs (sem p cs) = p_hs p /\ p_vs (sem p cs) = p_vs p.
Proof.
  induction cs as [|c t IH]; intros p; [split; reflexivity|].
  unfold sem in *. cbn [fold_left]. destruct (IH (app_ecmd p c)) as [H1 H2]. rewrite H1, H2.
  destruct c; split; reflexivity.
Qed.

Section BODY.
  Variable subrs gsubrs : subrtab.
  Variable call : state -> list N -> res.
  Notation go := (go subrs gsubrs call).

  (* --- moveto: the three forms, with an optional pending width operand --- *)
  Lemma move_exec st p dx dy rest (w : list Z) :
    wf_enum dx -> wf_enum dy ->
    at_stk st p w -> (w = [] \/ (exists x, w = [x] /\ p_wset p = false)) ->
    exists st', go st (move_bytes dx dy ++ rest) = go st' rest /\
      at_stk st' (p_move p (match w with [x] => Some x | _ => p_width p end) (ev dx) (ev dy)) [].
  Proof.
    intros Hwx Hwy Hat Hw.
    assert (Hlw : (length w <= 1)%nat) by (destruct Hw as [->|(x & -> & _)]; cbn; lia).
    (* the operands pushed and the operator, per form *)
    assert (Hgen : forall (a : list enum) (o : oper) (f : list Z -> option (Z * Z)) (nargs : nat),
              Forall wf_enum a -> length a = nargs -> (nargs <= 2)%nat ->
              (forall st1, do_op o st1 = do_moveto st1 nargs f) ->
              f (vals a) = Some (ev dx, ev dy) ->
              exists st', go st (args_bytes a ++ op_bytes o ++ rest) = go st' rest /\
                at_stk st' (p_move p (match w with [x] => Some x | _ => p_width p end) (ev dx) (ev dy)) []).
    { intros a o f nargs Ha Hl Hn2 Hop Hf.
      destruct (go_push_args subrs gsubrs call a st p w (op_bytes o ++ rest) Hat Ha) as (st1 & Hg1 & Hat1).
      { unfold t2_max_stack. lia. }
      destruct Hat1 as (Hp1 & Hs1 & Hpend1).
      assert (Hargs : args (tick st1) = rev w ++ vals a).
      { unfold args. cbn [stk tick]. rewrite Hs1, rev_app_distr, rev_involutive. reflexivity. }
      assert (Hd : exists st', do_op o (tick st1) = PCont st' /\
                at_stk st' (p_move p (match w with [x] => Some x | _ => p_width p end) (ev dx) (ev dy)) []).
      { rewrite Hop. unfold do_moveto. rewrite Hargs.
        assert (Hvl : length (vals a) = nargs) by (unfold vals; rewrite map_length; exact Hl).
        destruct Hw as [->|(x & -> & Hws)].
        - cbn [rev app length]. rewrite Hvl, Nat.eqb_refl. cbn [orb negb].
          replace (nargs =? S nargs)%nat with false by (symmetry; apply Nat.eqb_neq; lia).
          unfold take_width. rewrite Hf.
          eexists. split; [reflexivity|].
          repeat split; cbn [pst_of clear move with_hints with_path with_stk with_width tick
                             wset width hopen hs vs cmds px py moved stk pend]; auto.
          unfold pst_of in Hp1. inversion Hp1; subst. reflexivity.
        - cbn [rev app length]. rewrite Hvl.
          replace (S nargs =? nargs)%nat with false by (symmetry; apply Nat.eqb_neq; lia).
          rewrite Nat.eqb_refl. cbn [orb negb].
          unfold take_width.
          replace (wset (tick st1)) with false by (unfold pst_of in Hp1; inversion Hp1; subst; symmetry; exact Hws).
          rewrite Hf. eexists. split; [reflexivity|].
          repeat split; cbn [pst_of clear move with_hints with_path with_stk with_width tick
                             wset width hopen hs vs cmds px py moved stk pend]; auto.
          unfold pst_of in Hp1. inversion Hp1; subst. reflexivity. }
      destruct Hd as (st' & Hd & Hat').
      exists st'. split; [|exact Hat'].
      rewrite Hg1. apply go_oper with (p := p) (s := rev (vals a) ++ w); [repeat split; assumption|exact Hd]. }
    unfold move_bytes.
    destruct (is_zero dx) eqn:Zx; [|destruct (is_zero dy) eqn:Zy].
    - (* vmoveto *)
      destruct (Hgen [dy] OVmoveto (fun a => match a with [d] => Some (0, d) | _ => None end) 1%nat) as (st' & Hg & Hat');
        [repeat constructor; assumption|reflexivity|lia|reflexivity| |].
      + cbn. rewrite (zero_ev _ Zx). reflexivity.
      + exists st'. split; [|exact Hat']. unfold args_bytes in Hg. cbn [map concat] in Hg.
        rewrite app_nil_r in Hg. rewrite <- app_assoc. exact Hg.
    - (* hmoveto *)
      destruct (Hgen [dx] OHmoveto (fun a => match a with [d] => Some (d, 0) | _ => None end) 1%nat) as (st' & Hg & Hat');
        [repeat constructor; assumption|reflexivity|lia|reflexivity| |].
      + cbn. rewrite (zero_ev _ Zy). reflexivity.
      + exists st'. split; [|exact Hat']. unfold args_bytes in Hg. cbn [map concat] in Hg.
        rewrite app_nil_r in Hg. rewrite <- app_assoc. exact Hg.
    - (* rmoveto *)
      destruct (Hgen [dx; dy] ORmoveto (fun a => match a with [a1; a2] => Some (a1, a2) | _ => None end) 2%nat) as (st' & Hg & Hat');
        [repeat constructor; assumption|reflexivity|lia|reflexivity|reflexivity|].
      exists st'. split; [|exact Hat']. unfold args_bytes in Hg. cbn [map concat] in Hg.
      rewrite app_nil_r, <- app_assoc in Hg. rewrite <- !app_assoc. exact Hg.
  Qed.

  (* --- hintmask / cntrmask, with pending width and implicit-vstem operands --- *)
  Lemma mask_exec st p (k : bool) bs rest (wl dv : list Z) :
    at_stk st p (rev (wl ++ dv)) ->
    (wl = [] \/ (exists x, wl = [x] /\ p_wset p = false)) ->
    Nat.even (length dv) = true -> (dv <> [] -> p_hopen p = true) ->
    (length (wl ++ dv) <= t2_max_stack)%nat ->
    let vs' := p_vs p ++ stem_edges 0 dv in
    (2 <= length (p_hs p) + length vs')%nat ->
    length bs = (((length (p_hs p) + length vs') / 2 + 7) / 8)%nat ->
    exists st', go st (op_bytes (if k then OCntrmask else OHintmask) ++ bs ++ rest) = go st' rest /\
      at_stk st' (p_mask p (match wl with [x] => Some x | _ => p_width p end) vs' k bs) [].
  Proof.
    intros Hat Hw Hev Hho Hfit vs' Hns Hbl. destruct Hat as (Hp & Hs & Hpend).
    unfold pst_of in Hp. destruct p as [pw pwd pho phs pvs pcm ppx ppy pmv]. inversion Hp; subst; clear Hp.
    cbn [p_wset p_hopen p_hs p_vs p_width] in *.
    assert (Hbs : bs <> []).
    { intros ->. cbn [length] in Hbl. symmetry in Hbl. apply Nat.div_small_iff in Hbl; [|lia].
      assert (1 <= (length (hs st) + length vs') / 2)%nat by (apply Nat.div_le_lower_bound; lia). lia. }
    assert (Hargs : args (tick st) = wl ++ dv).
    { unfold args. cbn [stk tick]. rewrite Hs, rev_involutive. reflexivity. }
    (* the operator *)
    assert (Hd : exists st1, do_op (if k then OCntrmask else OHintmask) (tick st) = PCont st1 /\
              stk st1 = [] /\ pend st1 = length bs /\ pkind st1 = k /\ pacc st1 = [] /\
              wset st1 = true /\ width st1 = (match wl with [x] => Some x | _ => width st end) /\
              hopen st1 = false /\ hs st1 = hs st /\ vs st1 = vs' /\ cmds st1 = cmds st /\
              px st1 = px st /\ py st1 = py st /\ moved st1 = moved st).
    { assert (Hdo : do_op (if k then OCntrmask else OHintmask) (tick st) = do_mask k (tick st))
        by (destruct k; reflexivity).
      rewrite Hdo. unfold do_mask. rewrite Hargs.
      assert (Hc1 : (2 <=? length (wl ++ dv))%nat && negb (hopen (tick st)) = false).
      { destruct dv as [|d dv'].
        - destruct Hw as [->|(x & -> & _)]; reflexivity.
        - cbn [hopen tick]. rewrite Hho by discriminate. apply andb_false_r. }
      rewrite Hc1. unfold take_width.
      destruct Hw as [->|(x & -> & Hws)].
      + cbn [app]. replace (Nat.odd (length dv)) with false by (rewrite <- Nat.negb_even, Hev; reflexivity).
        cbn [hs vs with_hints with_width tick].
        replace (length (hs st) + length (vs st ++ stem_edges 0 dv) <? 2)%nat with false
          by (symmetry; apply Nat.ltb_ge; exact Hns).
        eexists. split; [reflexivity|].
        unfold mask_len. cbn [clear with_pend with_hints with_width with_stk tick stk pend pkind pacc wset width
                              hopen hs vs cmds px py moved].
        repeat split; auto.
      + cbn [app length]. replace (Nat.odd (S (length dv))) with true
          by (rewrite Nat.odd_succ, Hev; reflexivity).
        cbn [wset tick]. rewrite Hws.
        cbn [hs vs with_hints with_width tick].
        replace (length (hs st) + length (vs st ++ stem_edges 0 dv) <? 2)%nat with false
          by (symmetry; apply Nat.ltb_ge; exact Hns).
        eexists. split; [reflexivity|].
        unfold mask_len. cbn [clear with_pend with_hints with_width with_stk tick stk pend pkind pacc wset width
                              hopen hs vs cmds px py moved].
        repeat split; auto. }
    destruct Hd as (st1 & Hd & H1 & H2 & H3 & H4 & H5 & H6 & H7 & H8 & H9 & H10 & H11 & H12 & H13).
    eexists. split.
    - rewrite (go_oper subrs gsubrs call st (pst_of st) (rev (wl ++ dv)) _ (bs ++ rest) st1);
        [|repeat split; [exact Hs|exact Hpend]|exact Hd].
      apply (go_mask_bytes subrs gsubrs call bs st1 rest k H2 Hbs H3).
    - split; [|split; [exact H1|reflexivity]].
      unfold pst_of, p_mask.
      cbn [with_pend with_path wset width hopen hs vs cmds px py moved stk pend
           p_hs p_vs p_cmds p_px p_py p_moved].
      rewrite H4, H5, H6, H7, H8, H9, H10, H11, H12, H13. cbn [app]. reflexivity.
  Qed.

  (* --- endchar, with an optional pending width operand --- *)
  Lemma endchar_exec st p (w : list Z) :
    at_stk st p w -> (w = [] \/ (exists x, w = [x] /\ p_wset p = false)) ->
    exists st', go st (op_bytes OEndchar) = RDone st' /\
      cmds st' = p_cmds p /\ hs st' = p_hs p /\ vs st' = p_vs p /\
      width st' = (match w with [x] => Some x | _ => p_width p end).
  Proof.
    intros (Hp & Hs & Hpend) Hw.
    unfold pst_of in Hp. destruct p as [pw pwd pho phs pvs pcm ppx ppy pmv].
    injection Hp as <- <- <- <- <- <- <- <- <-.
    cbn [p_wset p_width p_cmds p_hs p_vs] in *.
    assert (Hargs : args (tick st) = rev w) by (unfold args; cbn [stk tick]; rewrite Hs; reflexivity).
    assert (Hd : exists st', do_op OEndchar (tick st) = PDone st' /\
              cmds st' = cmds st /\ hs st' = hs st /\ vs st' = vs st /\
              width st' = (match w with [x] => Some x | _ => width st end)).
    { cbn [do_op]. rewrite Hargs. destruct Hw as [->|(x & -> & Hws)].
      - cbn. eexists. split; [reflexivity|]. repeat split.
      - cbn [rev app length Nat.eqb]. unfold take_width. cbn [wset tick]. rewrite Hws.
        eexists. split; [reflexivity|]. repeat split. }
    destruct Hd as (st' & Hd & Hr).
    exists st'. split; [|exact Hr].
    rewrite <- (app_nil_r (op_bytes OEndchar)).
    apply go_oper_done with (p := pst_of st) (s := w); [repeat split; assumption|exact Hd].
  Qed.

  Lemma adv_stems : forall cs p, p_hs (adv p cs) = p_hs p /\ p_vs (adv p cs) = p_vs p /\ p_width (adv p cs) = p_width p.
  Proof.
    induction cs as [|c t IH]; intros p; [repeat split|].
    unfold adv in *. cbn [fold_left]. destruct (IH (app_draw p c)) as (H1 & H2 & H3).
    rewrite H1, H2, H3. destruct c; repeat split.
  Qed.

  (* every body encodePaths can emit, started on an empty stack *)
  Lemma body_exec ecs body :
    paths_code ecs body -> run_wf ecs ->
    forall st p, at_stk st p [] -> body_wf (nstems p) (p_moved p) ecs = true ->
    exists st', go st body = RDone st' /\
      cmds st' = p_cmds (sem p ecs) /\ hs st' = p_hs p /\ vs st' = p_vs p /\ width st' = p_width p.
  Proof.
    intros H. induction H as [|dx dy t code Hp IH|k bs t code Hp IH|cs run rest c1 c2 Htr Hne Hsub Hp IH];
      intros Hwf st p Hat Hb.
    - destruct (endchar_exec st p [] Hat (or_introl eq_refl)) as (st' & Hg & H1 & H2 & H3 & H4).
      exists st'. repeat split; assumption.
    - inversion Hwf as [|? ? Hw1 Hw2]; subst. cbn [cmd_enums] in Hw1.
      inversion Hw1 as [|? ? Hwx Hw1']; subst. inversion Hw1' as [|? ? Hwy _]; subst.
      destruct (move_exec st p dx dy code [] Hwx Hwy Hat (or_introl eq_refl)) as (st1 & Hg1 & Hat1).
      cbn [body_wf] in Hb.
      destruct (IH Hw2 st1 _ Hat1 Hb) as (st' & Hg & H1 & H2 & H3 & H4).
      exists st'. split; [rewrite Hg1; exact Hg|]. repeat split; assumption.
    - inversion Hwf as [|? ? _ Hw2]; subst.
      cbn [body_wf] in Hb. apply andb_true_iff in Hb. destruct Hb as [Hb Hb2].
      apply andb_true_iff in Hb. destruct Hb as [Hns Hlen].
      apply Nat.leb_le in Hns. apply Nat.eqb_eq in Hlen. unfold nstems in *.
      destruct (mask_exec st p k bs code [] []) as (st1 & Hg1 & Hat1).
      + exact Hat.
      + left; reflexivity.
      + reflexivity.
      + congruence.
      + cbn. unfold t2_max_stack. lia.
      + cbn [stem_edges]. rewrite app_nil_r.
        destruct (Nat.lt_ge_cases (length (p_hs p) + length (p_vs p)) 2) as [Hlt|Hge]; [|exact Hge].
        rewrite (Nat.div_small _ 2 Hlt) in Hns. lia.
      + cbn [stem_edges]. rewrite app_nil_r. exact Hlen.
      + cbn [stem_edges] in Hat1. rewrite app_nil_r in Hat1.
        destruct (IH Hw2 st1 _ Hat1 Hb2) as (st' & Hg & H1 & H2 & H3 & H4).
        exists st'. split; [rewrite Hg1; exact Hg|]. repeat split; assumption.
    - destruct (take_run_spec _ _ _ Htr) as [Hcs Hd]. subst cs.
      apply run_wf_app in Hwf. destruct Hwf as [Hwr Hwrest].
      destruct (body_wf_run run _ _ rest Hd Hne Hb) as [Hm Hb2].
      assert (Hsub' : exists st1, go st (c1 ++ c2) = go st1 c2 /\ at_stk st1 (adv p (skipn 0 run)) []).
      { apply (subpath_exec subrs gsubrs call run Hwr 0%nat c1 Hsub); [lia|exact Hat|exact Hm]. }
      destruct Hsub' as (st1 & Hg1 & Hat1). cbn [skipn] in Hat1.
      destruct (adv_stems run p) as (Eh & Ev & Ew).
      assert (Hb3 : body_wf (nstems (adv p run)) (p_moved (adv p run)) rest = true).
      { unfold nstems. rewrite Eh, Ev, adv_moved. exact Hb2. }
      destruct (IH Hwrest st1 _ Hat1 Hb3) as (st' & Hg & H1 & H2 & H3 & H4).
      exists st'. split; [rewrite Hg1; exact Hg|].
      rewrite sem_app, (sem_draws run p Hd). rewrite Eh in H2. rewrite Ev in H3. rewrite Ew in H4.
      repeat split; assumption.
  Qed.
End BODY.

(* ------------------------------------------------------------------ *)
(* encodeArgs is exact                                                 *)

(* the same well-formedness, on the glyph's own command list *)
Fixpoint cmds_wf (ns : nat) (m : bool) (cs : list cmd) : bool :=
  match cs with
  | [] => true
  | CMove _ _ :: t => cmds_wf ns true t
  | CHint bs :: t | CCntr bs :: t => (1 <=? ns)%nat && (length bs =? (ns + 7) / 8)%nat && cmds_wf ns m t
  | _ :: t => m && cmds_wf ns m t
  end.

Lemma obind_some {A B} (x : option A) (f : A -> option B) y :
  obind x f = Some y -> exists a, x = Some a /\ f a = Some y.
Proof. destruct x; cbn; [eauto|discriminate]. Qed.

Lemma enc_args_sound : forall cs px py ecs,
  enc_args px py cs = Some ecs ->
  run_wf ecs /\
  (forall ns m, body_wf ns m ecs = cmds_wf ns m cs) /\
  (forall p, p_px p = px -> p_py p = py -> p_cmds (sem p ecs) = p_cmds p ++ cs).
Proof.
  induction cs as [|c t IH]; intros px py ecs H.
  - cbn in H. inversion H; subst. repeat split; [constructor|]. intros. cbn. rewrite app_nil_r. reflexivity.
  - destruct c as [x y|x y|x1 y1 x2 y2 x3 y3|bs|bs]; cbn [enc_args] in H.
    + apply obind_some in H. destruct H as (dx & Hdx & H).
      apply obind_some in H. destruct H as (dy & Hdy & H).
      apply obind_some in H. destruct H as (r & Hr & H). inversion H; subst.
      apply enc_number_some in Hdx. destruct Hdx as (Ex & Wx & _).
      apply enc_number_some in Hdy. destruct Hdy as (Ey & Wy & _).
      destruct (IH _ _ _ Hr) as (Hw & Hb & Hs).
      repeat split.
      * constructor; [repeat constructor; assumption|exact Hw].
      * intros. cbn [body_wf cmds_wf]. apply Hb.
      * intros p Hpx Hpy. unfold sem. cbn [fold_left app_ecmd].
        change (fold_left app_ecmd r ?q) with (sem q r).
        rewrite Hs by (cbn [p_move p_px p_py]; lia).
        cbn [p_move p_cmds]. rewrite <- app_assoc. cbn [app]. repeat f_equal; lia.
    + apply obind_some in H. destruct H as (dx & Hdx & H).
      apply obind_some in H. destruct H as (dy & Hdy & H).
      apply obind_some in H. destruct H as (r & Hr & H). inversion H; subst.
      apply enc_number_some in Hdx. destruct Hdx as (Ex & Wx & _).
      apply enc_number_some in Hdy. destruct Hdy as (Ey & Wy & _).
      destruct (IH _ _ _ Hr) as (Hw & Hb & Hs).
      repeat split.
      * constructor; [repeat constructor; assumption|exact Hw].
      * intros. cbn [body_wf cmds_wf]. rewrite Hb. reflexivity.
      * intros p Hpx Hpy. unfold sem. cbn [fold_left app_ecmd app_draw].
        change (fold_left app_ecmd r ?q) with (sem q r).
        rewrite Hs by (cbn [p_line p_px p_py]; lia).
        cbn [p_line p_cmds]. rewrite <- app_assoc. cbn [app]. repeat f_equal; lia.
    + apply obind_some in H. destruct H as (dax & Hdax & H).
      apply obind_some in H. destruct H as (day & Hday & H).
      apply obind_some in H. destruct H as (dbx & Hdbx & H).
      apply obind_some in H. destruct H as (dby & Hdby & H).
      apply obind_some in H. destruct H as (dcx & Hdcx & H).
      apply obind_some in H. destruct H as (dcy & Hdcy & H).
      apply obind_some in H. destruct H as (r & Hr & H). inversion H; subst.
      apply enc_number_some in Hdax. destruct Hdax as (E1 & W1 & _).
      apply enc_number_some in Hday. destruct Hday as (E2 & W2 & _).
      apply enc_number_some in Hdbx. destruct Hdbx as (E3 & W3 & _).
      apply enc_number_some in Hdby. destruct Hdby as (E4 & W4 & _).
      apply enc_number_some in Hdcx. destruct Hdcx as (E5 & W5 & _).
      apply enc_number_some in Hdcy. destruct Hdcy as (E6 & W6 & _).
      destruct (IH _ _ _ Hr) as (Hw & Hb & Hs).
      repeat split.
      * constructor; [repeat constructor; assumption|exact Hw].
      * intros. cbn [body_wf cmds_wf]. rewrite Hb. reflexivity.
      * intros p Hpx Hpy. unfold sem. cbn [fold_left app_ecmd app_draw].
        change (fold_left app_ecmd r ?q) with (sem q r).
        rewrite Hs by (cbn [p_curve p_px p_py]; lia).
        cbn [p_curve p_cmds]. rewrite <- app_assoc. cbn [app]. repeat f_equal; lia.
    + apply obind_some in H. destruct H as (r & Hr & H). inversion H; subst.
      destruct (IH _ _ _ Hr) as (Hw & Hb & Hs).
      repeat split.
      * constructor; [constructor|exact Hw].
      * intros. cbn [body_wf cmds_wf]. rewrite Hb. reflexivity.
      * intros p Hpx Hpy. unfold sem. cbn [fold_left app_ecmd].
        change (fold_left app_ecmd r ?q) with (sem q r).
        rewrite Hs by (cbn [p_mask p_px p_py]; assumption).
        cbn [p_mask p_cmds]. rewrite <- app_assoc. reflexivity.
    + apply obind_some in H. destruct H as (r & Hr & H). inversion H; subst.
      destruct (IH _ _ _ Hr) as (Hw & Hb & Hs).
      repeat split.
      * constructor; [constructor|exact Hw].
      * intros. cbn [body_wf cmds_wf]. rewrite Hb. reflexivity.
      * intros p Hpx Hpy. unfold sem. cbn [fold_left app_ecmd].
        change (fold_left app_ecmd r ?q) with (sem q r).
        rewrite Hs by (cbn [p_mask p_px p_py]; assumption).
        cbn [p_mask p_cmds]. rewrite <- app_assoc. reflexivity.
Qed.
