(* C04/Proofs_main.v — every edge AppendEdges offers is sound, hence every
   path through the edges draws exactly the run of commands; a path always
   exists; moves, masks and endchar around the runs. *)
From Coq Require Import List NArith ZArith Bool Arith Lia.
From Common Require Bytes.
From C05 Require Import Model Proofs.
From C04 Require Import Model Proofs_num Proofs_exec Proofs_lines Proofs_curves.
Import ListNotations.
Local Open Scope Z_scope.

(* ------------------------------------------------------------------ *)
(* all edges are sound                                                 *)

Lemma run_wf_skipn run from : run_wf run -> run_wf (skipn from run).
Proof. intros H. rewrite <- (firstn_skipn from run) in H. apply run_wf_app in H. tauto. Qed.

Lemma edges_ok run from es :
  run_wf run -> M_t2edges run from = Some es ->
  Forall (fun e => exists e0, e = shift from e0 /\ edge_ok (skipn from run) e0) es.
Proof.
  intros Hwf0 H. pose proof (run_wf_skipn run from Hwf0) as Hwf.
  unfold M_t2edges in H. set (cs := skipn from run) in *.
  assert (Hmap : forall l, Forall (edge_ok cs) l ->
            Forall (fun e => exists e0, e = shift from e0 /\ edge_ok cs e0) (map (shift from) l)).
  { intros l Hl. apply Forall_forall. intros e He. apply in_map_iff in He. destruct He as (e0 & <- & Hin).
    exists e0. split; [reflexivity|]. rewrite Forall_forall in Hl. apply Hl. exact Hin. }
  destruct cs as [|c t] eqn:Ecs.
  { inversion H; subst. constructor. }
  destruct c as [a b|dx dy|a0 a1 a2 a3 a4 a5|k bs]; try discriminate.
  - (* lineto *)
    pose proof (rl_loop_ok (ELine dx dy :: t) Hwf (ELine dx dy :: t) [] [] 0%nat
                  (conj eq_refl (conj eq_refl (conj eq_refl eq_refl)))) as [Hes Hfin].
    pose proof (rl_loop_advance (ELine dx dy :: t) [] 0%nat dx dy t eq_refl eq_refl) as Hadv.
    destruct (rl_loop (ELine dx dy :: t) [] 0) as [es1 [[rest code] pos]] eqn:E.
    cbn [fst snd] in *. injection H as <-. apply Hmap.
    apply Forall_app. split; [exact Hes|]. apply Forall_app. split.
    + destruct Hfin as (pre' & (H0 & Hc & Hp & Hl) & _).
      destruct rest as [|r rest']; [constructor|].
      destruct r as [| |b0 b1 b2 b3 b4 b5|]; try constructor.
      destruct (fits code 6) eqn:F; [|constructor]. constructor; [|constructor].
      rewrite Hc, Hp. apply rlinecurve_edge_ok with (rest := rest'); auto.
      * lia.
      * apply fits_le in F. rewrite Hc, lay_rl_length in F by assumption. lia.
    + apply Forall_app. split.
      * exact (alt_edge_ok (ELine dx dy :: t) false Hwf).
      * exact (alt_edge_ok (ELine dx dy :: t) true Hwf).
  - (* curveto *)
    pose proof (rr_loop_ok (ECurve a0 a1 a2 a3 a4 a5 :: t) Hwf (ECurve a0 a1 a2 a3 a4 a5 :: t) [] [] 0%nat
                  (conj eq_refl (conj eq_refl (conj eq_refl eq_refl)))) as [Hes Hfin].
    pose proof (rr_loop_advance (ECurve a0 a1 a2 a3 a4 a5 :: t) [] 0%nat a0 a1 a2 a3 a4 a5 t eq_refl eq_refl) as Hadv.
    destruct (rr_loop (ECurve a0 a1 a2 a3 a4 a5 :: t) [] 0) as [es1 [[rest code] pos]] eqn:E.
    cbn [fst snd] in Hes, Hfin, Hadv.
    set (L1 := hh_loop false OVvcurveto (ECurve a0 a1 a2 a3 a4 a5 :: t) [] 0) in *.
    set (L2 := hh_loop true OHhcurveto (ECurve a0 a1 a2 a3 a4 a5 :: t) [] 0) in *.
    set (L3 := hv_loop false false OHvcurveto (ECurve a0 a1 a2 a3 a4 a5 :: t) [] 0) in *.
    set (L4 := hv_loop true true OVhcurveto (ECurve a0 a1 a2 a3 a4 a5 :: t) [] 0) in *.
    set (L5 := flex_edges (ECurve a0 a1 a2 a3 a4 a5 :: t)) in *.
    injection H as <-. apply Hmap.
    apply Forall_app. split; [exact Hes|]. apply Forall_app. split.
    + destruct Hfin as (pre' & (H0 & Hc & Hp & Hl) & _).
      destruct rest as [|r rest']; [constructor|].
      destruct r as [|ldx ldy| |]; try constructor.
      destruct (fits code 2) eqn:F; [|constructor]. constructor; [|constructor].
      rewrite Hc, Hp. apply rcurveline_edge_ok with (rest := rest'); auto.
      * lia.
      * apply fits_le in F. rewrite Hc, lay_rr_length in F by assumption. lia.
    + apply Forall_app. split.
      { unfold L1. apply (hh_loop_ok _ false Hwf _ []). repeat split. }
      apply Forall_app. split.
      { unfold L2. apply (hh_loop_ok _ true Hwf _ []). repeat split. }
      apply Forall_app. split.
      { unfold L3. apply (hv_loop_ok _ false Hwf _ [] false). repeat split. }
      apply Forall_app. split.
      { unfold L4. apply (hv_loop_ok _ true Hwf _ [] true). repeat split. }
      unfold L5. apply flex_edges_ok. exact Hwf.
Qed.

(* ------------------------------------------------------------------ *)
(* executing an edge, a path                                           *)

Lemma adv_moved : forall cs p, p_moved (adv p cs) = p_moved p.
Proof.
  induction cs as [|c t IH]; intros p; [reflexivity|].
  unfold adv in *. cbn [fold_left]. rewrite IH. destruct c; reflexivity.
Qed.

Section RUN.
  Variable subrs gsubrs : subrtab.
  Variable call : state -> list N -> res.
  Notation go := (go subrs gsubrs call).

  Lemma edge_exec cs e st p rest :
    edge_ok cs e -> at_stk st p [] -> p_moved p = true ->
    exists st', go st (edge_bytes e ++ rest) = go st' rest /\
                at_stk st' (adv p (firstn (e_to e) cs)) [].
  Proof.
    intros (Hto & Hwf & Hlen & Hop) Hat Hm. unfold edge_bytes. rewrite <- app_assoc.
    destruct (go_push_args subrs gsubrs call (e_args e) st p [] (op_bytes (e_op e) ++ rest) Hat Hwf)
      as (st1 & Hg1 & Hat1); [cbn; exact Hlen|].
    rewrite app_nil_r in Hat1.
    destruct (Hop st1 p Hat1 Hm) as (st' & Hd & Hat').
    exists st'. split; [|exact Hat'].
    rewrite Hg1. apply go_oper with (p := p) (s := rev (vals (e_args e))); assumption.
  Qed.

  Lemma edge_bytes_shift from e : edge_bytes (shift from e) = edge_bytes e.
  Proof. reflexivity. Qed.

  (* every path through the edges, from any node to the end of the run *)
  Lemma subpath_exec run : run_wf run -> forall from code,
    subpath_code run from code -> (from <= length run)%nat ->
    forall st p rest, at_stk st p [] -> p_moved p = true ->
    exists st', go st (code ++ rest) = go st' rest /\ at_stk st' (adv p (skipn from run)) [].
  Proof.
    intros Hwf from code H. induction H as [|from es e code Hes Hin Hsub IH]; intros Hle st p rest Hat Hm.
    - exists st. split; [reflexivity|]. rewrite skipn_all. exact Hat.
    - pose proof (edges_ok run from es Hwf Hes) as Hok. rewrite Forall_forall in Hok.
      destruct (Hok e Hin) as (e0 & -> & He0).
      rewrite edge_bytes_shift, <- app_assoc.
      destruct (edge_exec _ e0 st p (code ++ rest) He0 Hat Hm) as (st1 & Hg1 & Hat1).
      destruct He0 as (Hto & _). rewrite skipn_length in Hto.
      cbn [shift e_to] in *.
      destruct (IH ltac:(lia) st1 _ rest Hat1 ltac:(rewrite adv_moved; exact Hm)) as (st2 & Hg2 & Hat2).
      exists st2. split; [rewrite Hg1; exact Hg2|].
      rewrite <- adv_app in Hat2.
      replace (firstn (e_to e0) (skipn from run) ++ skipn (from + e_to e0) run) with (skipn from run) in Hat2;
        [exact Hat2|].
      rewrite <- (firstn_skipn (e_to e0) (skipn from run)) at 1. f_equal.
      rewrite Bytes.skipn_skipn'. reflexivity.
  Qed.
End RUN.

(* ------------------------------------------------------------------ *)
(* progress: an edge leaves every node, so a path always exists        *)

Lemma rl_loop_eq dx dy t code pos :
  rl_loop (ELine dx dy :: t) code pos =
  if fits code 2 then
    let code' := code ++ [dx; dy] in
    let cont := match t with
                | ELine dx' dy' :: _ => negb (is_zero dx') && negb (is_zero dy') && fits code' 2
                | _ => false
                end in
    let '(es, fin) := rl_loop t code' (S pos) in
    ((if cont then [] else [mkEdge code' ORlineto (S pos)]) ++ es, fin)
  else ([], (ELine dx dy :: t, code, pos)).
Proof. reflexivity. Qed.

Lemma rl_loop_nonempty : forall t dx dy code pos,
  fits code 2 = true -> fst (rl_loop (ELine dx dy :: t) code pos) <> [].
Proof.
  induction t as [|c t IH]; intros dx dy code pos F; rewrite rl_loop_eq, F; cbv zeta.
  - cbn. discriminate.
  - destruct c as [| dx' dy'| |];
      try (destruct (rl_loop _ (code ++ [dx; dy]) (S pos)) as [es fin]; cbn; discriminate).
    destruct (negb (is_zero dx') && negb (is_zero dy') && fits (code ++ [dx; dy]) 2) eqn:C.
    + apply andb_true_iff in C. destruct C as [_ F'].
      specialize (IH dx' dy' (code ++ [dx; dy]) (S pos) F').
      destruct (rl_loop (ELine dx' dy' :: t) (code ++ [dx; dy]) (S pos)) as [es fin]. cbn [fst] in *.
      cbn [app]. exact IH.
    + destruct (rl_loop (ELine dx' dy' :: t) (code ++ [dx; dy]) (S pos)) as [es fin]. cbn. discriminate.
Qed.

Lemma rr_loop_eq a0 a1 a2 a3 a4 a5 t code pos :
  rr_loop (ECurve a0 a1 a2 a3 a4 a5 :: t) code pos =
  if fits code 6 then
    let code' := code ++ [a0; a1; a2; a3; a4; a5] in
    let cont := match t with
                | ECurve b0 b1 _ _ b4 b5 :: _ =>
                    negb (is_zero b0) && negb (is_zero b1) && negb (is_zero b4) && negb (is_zero b5)
                    && fits code' 6
                | _ => false
                end in
    let '(es, fin) := rr_loop t code' (S pos) in
    ((if cont then [] else [mkEdge code' ORrcurveto (S pos)]) ++ es, fin)
  else ([], (ECurve a0 a1 a2 a3 a4 a5 :: t, code, pos)).
Proof. reflexivity. Qed.

Lemma rr_loop_nonempty : forall t a0 a1 a2 a3 a4 a5 code pos,
  fits code 6 = true -> fst (rr_loop (ECurve a0 a1 a2 a3 a4 a5 :: t) code pos) <> [].
Proof.
  induction t as [|c t IH]; intros a0 a1 a2 a3 a4 a5 code pos F; rewrite rr_loop_eq, F; cbv zeta.
  - cbn. discriminate.
  - destruct c as [| |b0 b1 b2 b3 b4 b5|];
      try (destruct (rr_loop _ (code ++ [a0; a1; a2; a3; a4; a5]) (S pos)) as [es fin]; cbn; discriminate).
    destruct (negb (is_zero b0) && negb (is_zero b1) && negb (is_zero b4) && negb (is_zero b5)
              && fits (code ++ [a0; a1; a2; a3; a4; a5]) 6) eqn:C.
    + apply andb_true_iff in C. destruct C as [_ F'].
      specialize (IH b0 b1 b2 b3 b4 b5 (code ++ [a0; a1; a2; a3; a4; a5]) (S pos) F').
      destruct (rr_loop (ECurve b0 b1 b2 b3 b4 b5 :: t) (code ++ [a0; a1; a2; a3; a4; a5]) (S pos)) as [es fin].
      cbn [fst] in *. cbn [app]. exact IH.
    + destruct (rr_loop (ECurve b0 b1 b2 b3 b4 b5 :: t) (code ++ [a0; a1; a2; a3; a4; a5]) (S pos)) as [es fin].
      cbn. discriminate.
Qed.

Lemma edges_progress run from :
  run_wf run -> forallb is_draw_cmd run = true -> (from < length run)%nat ->
  exists es e, M_t2edges run from = Some es /\ In e es /\ (from < e_to e <= length run)%nat.
Proof.
  intros Hwf Hd Hlt.
  assert (Hne : exists es, M_t2edges run from = Some es /\ es <> []).
  { unfold M_t2edges. destruct (skipn from run) as [|c t] eqn:E.
    - apply (f_equal (@length _)) in E. rewrite skipn_length in E. cbn in E. lia.
    - assert (Hc : is_draw_cmd c = true).
      { rewrite forallb_forall in Hd. apply Hd. rewrite <- (firstn_skipn from run), E.
        apply in_or_app. right. left. reflexivity. }
      destruct c as [|dx dy|a0 a1 a2 a3 a4 a5|]; try discriminate.
      + pose proof (rl_loop_nonempty t dx dy [] 0%nat eq_refl) as Hn.
        destruct (rl_loop (ELine dx dy :: t) [] 0) as [es1 [[rest code] pos]]. cbn [fst] in Hn.
        eexists. split; [reflexivity|]. destruct es1; [congruence|]. cbn. discriminate.
      + pose proof (rr_loop_nonempty t a0 a1 a2 a3 a4 a5 [] 0%nat eq_refl) as Hn.
        destruct (rr_loop (ECurve a0 a1 a2 a3 a4 a5 :: t) [] 0) as [es1 [[rest code] pos]]. cbn [fst] in Hn.
        eexists. split; [reflexivity|]. destruct es1; [congruence|]. cbn. discriminate. }
  destruct Hne as (es & Hes & Hn). destruct es as [|e es']; [congruence|].
  exists (e :: es'), e. split; [exact Hes|]. split; [left; reflexivity|].
  pose proof (edges_ok run from _ Hwf Hes) as Hok. inversion Hok as [|? ? (e0 & -> & (Hto & _)) _]; subst.
  rewrite skipn_length in Hto. cbn [shift e_to]. lia.
Qed.

Lemma path_exists run :
  run_wf run -> forallb is_draw_cmd run = true ->
  forall n from, (length run - from <= n)%nat -> (from <= length run)%nat ->
  exists code, subpath_code run from code.
Proof.
  intros Hwf Hd. induction n; intros from Hn Hle.
  - assert (from = length run) by lia. subst. exists []. constructor.
  - destruct (Nat.eq_dec from (length run)) as [->|Hne]; [exists []; constructor|].
    destruct (edges_progress run from Hwf Hd ltac:(lia)) as (es & e & Hes & Hin & Hto).
    destruct (IHn (e_to e) ltac:(lia) ltac:(lia)) as (code & Hc).
    exists (edge_bytes e ++ code). eapply sp_edge; eassumption.
Qed.
