(* C04/Props.v — compiling glyphs to Type 2 charstrings preserves outline,
   hints and width.  M_t2enc (C04/Model.v) mirrors cff/t2encode.go; S_t2 (C05)
   is the semantics of what is emitted. *)
From Coq Require Import List NArith ZArith Bool Arith Lia.
From Gen Require Import Consts.
From C05 Require Import Model Proofs.
From C04 Require Import Model Proofs_num Proofs_exec Proofs_lines Proofs_curves Proofs_main Proofs_body
  Proofs_header Proofs_final Proofs_check.
Import ListNotations.
Local Open Scope Z_scope.

(* the encoder's stack limit is the one of the format *)
Theorem enc_limits_tie : cff_maxStack = enc_max_stack /\ enc_max_stack = t2_max_stack.
Proof. split; vm_compute; reflexivity. Qed.
Print Assumptions enc_limits_tie.

(* encodeNumber: for every x on the 16.16 grid with -32768 <= x < 32768 the
   reported value is x and the emitted bytes decode, under the specification,
   to exactly x (whatever follows them). *)
Theorem encode_number_exact :
  forall x : Z, in_range x = true ->
    exists code, enc_number x = Some (x, code) /\
                 forall rest, lex_num (code ++ rest) = NumOk x rest.
Proof. intros x H. destruct (enc_number_exact x H) as (code & H1 & H2). exists code. split; [exact H1|exact H2]. Qed.
Print Assumptions encode_number_exact.

(* Outside that range the Go code converts a float64 to int16/int32 out of
   range; the value it emits is a different number (replayed on the Go code:
   encodeNumber(32768) reports -32768) - the model has no result there, and
   no charstring is emitted in the model for a glyph with such a delta. *)
Theorem encode_number_range_refuted :
  exists x : Z, in_range x = false /\ enc_number x = None /\
    exists g : glyph, glyph_wf g = true /\
      (forall c, In c (g_cmds g) -> match c with
                                   | CMove x y | CLine x y => -32000 * SC <= x <= 32000 * SC /\ -32000 * SC <= y <= 32000 * SC
                                   | _ => True end) /\
      forall dflt nom code, ~ emits g dflt nom code.
Proof.
  exists (32768 * SC). split; [reflexivity|]. split; [reflexivity|].
  exists (mkGlyph [CMove (-20000 * SC) 0; CLine (20000 * SC) (10 * SC)] [] [] 0).
  split; [reflexivity|]. split.
  - intros c [<-|[<-|[]]]; unfold SC; lia.
  - intros dflt nom code (hdr & ecs & body & _ & Ha & _). vm_compute in Ha. discriminate.
Qed.
Print Assumptions encode_number_range_refuted.

(* A path always exists: from every command of a run of lineto/curveto
   commands some edge leads strictly forward, and so the whole run can be
   encoded. *)
Theorem t2_edges_progress :
  forall (run : list ecmd),
    run_wf run -> forallb is_draw_cmd run = true ->
    (forall from, (from < length run)%nat ->
       exists es e, M_t2edges run from = Some es /\ In e es /\ (from < e_to e <= length run)%nat) /\
    (forall from, (from <= length run)%nat -> exists code, subpath_code run from code).
Proof.
  intros run Hwf Hd. split.
  - intros from Hlt. apply edges_progress; assumption.
  - intros from Hle. apply (path_exists run Hwf Hd (length run - from) from); lia.
Qed.
Print Assumptions t2_edges_progress.

(* Every edge AppendEdges offers draws exactly the commands it skips. *)
Theorem t2_edges_sound :
  forall (run : list ecmd) (from : nat) (es : list edge),
    run_wf run -> M_t2edges run from = Some es ->
    Forall (fun e => exists e0, e = shift from e0 /\ edge_ok (skipn from run) e0) es.
Proof. exact edges_ok. Qed.
Print Assumptions t2_edges_sound.

(* The property.  For every glyph description on the 16.16 grid (drawing only
   after a moveto, masks of ceil(n/8) bytes when stems exist), every default
   and nominal width, and EVERY charstring encodeCharString can emit - any path
   through the edges may be chosen, so the shortest-path search need not be
   trusted - executing the charstring under the Type 2 specification gives
   back exactly the glyph: the same moves, lines, curves and masks, the same
   stems, the same width.  [emits] requires every operand (successive deltas,
   stem deltas, width - nominal) to lie in [-32768, 32768): see
   encode_number_range_refuted.  Equality is exact, so nothing accumulates
   along the path.  The interpreter is strict: T2Ok means every operator had a
   legal operand count, the stack never exceeded 48 entries, and the program
   ended with endchar (t2_emitted_limits below). *)
Theorem t2_any_path_correct :
  forall (g : glyph) (dflt nom : Z) (code : list N) (subrs gsubrs : subrtab),
    emits g dflt nom code -> glyph_wf g = true ->
    S_t2 dflt nom subrs gsubrs code = T2Ok g.
Proof. exact any_path_correct_lemma. Qed.
Print Assumptions t2_any_path_correct.

Theorem t2_emitted_limits :
  forall (g : glyph) (dflt nom : Z) (code : list N) (subrs gsubrs : subrtab),
    emits g dflt nom code -> glyph_wf g = true ->
    exists st, S_t2_state subrs gsubrs code = RDone st /\
      (length (stk st) <= hw st)%nat /\ (hw st <= cff_maxStack)%nat.
Proof.
  intros g dflt nom code subrs gsubrs He Hw.
  pose proof (any_path_correct_lemma g dflt nom code subrs gsubrs He Hw) as H.
  unfold S_t2 in H. unfold S_t2_state.
  pose proof (exec_good subrs gsubrs t2_fuel init_state code inv_init) as G.
  destruct (exec subrs gsubrs t2_fuel init_state code) as [st|st|st|e st|st|] eqn:E; cbn in H; try discriminate.
  exists st. split; [reflexivity|]. cbn [good] in G.
  destruct G as (G1 & G2 & _); [unfold t2_fuel, t2_max_depth; cbn; lia|].
  split; [exact G1|exact G2].
Qed.
Print Assumptions t2_emitted_limits.

(* Translation validation: a charstring the extracted checker accepts for a
   glyph is one the mirror can emit, hence (t2_any_path_correct) it decodes to
   exactly the glyph.  The check runs on every charstring the implementation
   emits during the correspondence run. *)
Theorem t2_checked_charstring_correct :
  forall (g : glyph) (dflt nom : Z) (code : list N) (subrs gsubrs : subrtab),
    check_charstring g dflt nom code = true -> glyph_wf g = true ->
    emits g dflt nom code /\ S_t2 dflt nom subrs gsubrs code = T2Ok g.
Proof.
  intros g dflt nom code subrs gsubrs Hc Hw. pose proof (check_charstring_sound _ _ _ _ Hc) as He.
  split; [exact He|]. apply any_path_correct_lemma; assumption.
Qed.
Print Assumptions t2_checked_charstring_correct.
