(* C04/Proofs_exec.v — executing emitted code under S_t2: operands are
   pushed, then the operator acts on them.  States are described by their
   semantic fields ([pst]); the instrumentation fields of C05's state (hw,
   dhw, nsteps) and the transient array are left unconstrained. *)
From Coq Require Import List NArith ZArith Bool Arith Lia.
From C05 Require Import Model Proofs.
From C04 Require Import Model Proofs_num.
Import ListNotations.
Local Open Scope Z_scope.

Record pst : Type := mkP {
  p_wset : bool; p_width : option Z; p_hopen : bool;
  p_hs : list Z; p_vs : list Z;
  p_cmds : list cmd; p_px : Z; p_py : Z; p_moved : bool
}.

Definition pst_of (st : state) : pst :=
  mkP (wset st) (width st) (hopen st) (hs st) (vs st) (cmds st) (px st) (py st) (moved st).

(* at an operand/operator boundary, with operands [s] (top first) on the stack *)
Definition at_stk (st : state) (p : pst) (s : list Z) : Prop :=
  pst_of st = p /\ stk st = s /\ pend st = O.

Lemma pst_of_tick st : pst_of (tick st) = pst_of st.
Proof. reflexivity. Qed.
Lemma pst_of_with_stk st s : pst_of (with_stk s st) = pst_of st.
Proof. reflexivity. Qed.

Lemma pst_of_keep st st' :
  keep st st' -> pst_of st' = mkP (wset st) (width st) (hopen st) (hs st) (vs st) (cmds st') (px st') (py st') (moved st).
Proof.
  unfold keep, pst_of. intros (_&_&_&_&_&_&->&->&_&->&->&->&->&_). reflexivity.
Qed.

Section EXEC.
  Variable subrs gsubrs : subrtab.
  Variable call : state -> list N -> res.
  Notation go := (go subrs gsubrs call).

  (* one operand *)
  Lemma go_push st p s e rest :
    at_stk st p s -> wf_enum e -> (length s < t2_max_stack)%nat ->
    exists st1, go st (ec e ++ rest) = go st1 rest /\ at_stk st1 p (ev e :: s).
  Proof.
    intros (Hp & Hs & Hpend) Hw Hl.
    exists (with_stk (ev e :: stk (tick st)) (tick st)). split.
    - rewrite go_step. specialize (Hw rest).
      destruct (ec e ++ rest) as [|b r] eqn:E; [cbn in Hw; discriminate|].
      rewrite Hpend, Hw. unfold pushk.
      replace (length (stk (tick st)) <? t2_max_stack)%nat with true; [reflexivity|].
      symmetry. apply Nat.ltb_lt. cbn [stk tick]. rewrite Hs. exact Hl.
    - repeat split; cbn [stk tick with_stk pend]; auto. rewrite Hs. reflexivity.
  Qed.

  Definition vals (a : list enum) : list Z := map ev a.

  (* a list of operands *)
  Lemma go_push_args : forall a st p s rest,
    at_stk st p s -> Forall wf_enum a -> (length s + length a <= t2_max_stack)%nat ->
    exists st1, go st (args_bytes a ++ rest) = go st1 rest /\ at_stk st1 p (rev (vals a) ++ s).
  Proof.
    induction a as [|e a IH]; intros st p s rest Hat Hw Hl.
    - exists st. split; [reflexivity|exact Hat].
    - inversion Hw; subst. cbn [length] in Hl.
      destruct (go_push st p s e (args_bytes a ++ rest) Hat H1) as (st1 & Hg & Hat1); [lia|].
      destruct (IH st1 p (ev e :: s) rest Hat1 H2) as (st2 & Hg2 & Hat2); [cbn [length]; lia|].
      exists st2. split.
      + unfold args_bytes in *. cbn [map concat]. rewrite <- app_assoc. rewrite Hg. exact Hg2.
      + cbn [vals map rev]. rewrite <- app_assoc. exact Hat2.
  Qed.

  Lemma lex_op_bytes o rest :
    lex_num (op_bytes o ++ rest) = NotNum /\ lex_op (op_bytes o ++ rest) = OpOk o rest.
  Proof. destruct o; split; reflexivity. Qed.

  (* an operator that continues *)
  Lemma go_oper st p s o rest st' :
    at_stk st p s -> do_op o (tick st) = PCont st' ->
    go st (op_bytes o ++ rest) = go st' rest.
  Proof.
    intros (Hp & Hs & Hpend) Hd. rewrite go_step.
    destruct (lex_op_bytes o rest) as [Hn Ho].
    destruct (op_bytes o ++ rest) as [|b r] eqn:E; [destruct o; discriminate|].
    rewrite Hpend, Hn, Ho. unfold run_op. rewrite Hd. reflexivity.
  Qed.

  Lemma go_oper_done st p s o rest st' :
    at_stk st p s -> do_op o (tick st) = PDone st' ->
    go st (op_bytes o ++ rest) = RDone st'.
  Proof.
    intros (Hp & Hs & Hpend) Hd. rewrite go_step.
    destruct (lex_op_bytes o rest) as [Hn Ho].
    destruct (op_bytes o ++ rest) as [|b r] eqn:E; [destruct o; discriminate|].
    rewrite Hpend, Hn, Ho. unfold run_op. rewrite Hd. reflexivity.
  Qed.

  (* mask data *)
  Lemma go_mask_bytes : forall bs st rest k,
    pend st = length bs -> bs <> [] -> pkind st = k ->
    go st (bs ++ rest) =
    go (with_pend O k []
          (with_path (cmds st ++ [if k then CCntr (pacc st ++ bs) else CHint (pacc st ++ bs)])
                     (px st) (py st) (moved st) st)) rest.
  Proof.
    induction bs as [|b bs IH]; intros st rest k Hp Hne Hk; [congruence|].
    cbn [app]. rewrite go_step. cbn [length] in Hp. rewrite Hp.
    destruct bs as [|b2 bs2].
    - cbn [length feed_mask app]. rewrite Hk. reflexivity.
    - rewrite (IH (feed_mask b (length (b2 :: bs2)) st) rest k).
      + cbn [feed_mask length]. sfields. rewrite <- app_assoc. reflexivity.
      + reflexivity.
      + discriminate.
      + cbn [feed_mask length]. sfields. exact Hk.
  Qed.
End EXEC.

(* ------------------------------------------------------------------ *)
(* semantics of encoded commands                                       *)

Definition p_line (p : pst) (dx dy : Z) : pst :=
  let x := p_px p + dx in let y := p_py p + dy in
  mkP (p_wset p) (p_width p) (p_hopen p) (p_hs p) (p_vs p) (p_cmds p ++ [CLine x y]) x y (p_moved p).

Definition p_curve (p : pst) (a b c d e f : Z) : pst :=
  let xa := p_px p + a in let ya := p_py p + b in
  let xb := xa + c in let yb := ya + d in
  let xc := xb + e in let yc := yb + f in
  mkP (p_wset p) (p_width p) (p_hopen p) (p_hs p) (p_vs p)
      (p_cmds p ++ [CCurve xa ya xb yb xc yc]) xc yc (p_moved p).

Definition app_draw (p : pst) (c : ecmd) : pst :=
  match c with
  | ELine dx dy => p_line p (ev dx) (ev dy)
  | ECurve a b c d e f => p_curve p (ev a) (ev b) (ev c) (ev d) (ev e) (ev f)
  | _ => p
  end.

Definition adv (p : pst) (cs : list ecmd) : pst := fold_left app_draw cs p.

Lemma adv_app p a b : adv p (a ++ b) = adv (adv p a) b.
Proof. unfold adv. apply fold_left_app. Qed.

Lemma pst_of_line st dx dy : pst_of (line st dx dy) = p_line (pst_of st) dx dy.
Proof. reflexivity. Qed.

Lemma pst_of_curve st a b c d e f : pst_of (curve st a b c d e f) = p_curve (pst_of st) a b c d e f.
Proof. reflexivity. Qed.

(* clearing the stack after a drawing operator *)
Lemma at_clear st p : pst_of st = p -> pend st = O -> at_stk (clear st) p [].
Proof. intros H1 H2. repeat split; auto. Qed.

(* a drawing operator whose helper [f] turns the operands into [cs] *)
Lemma drawing_spec st p s ok f cs :
  at_stk st p s -> ok = true -> p_moved p = true ->
  (pst_of (f (tick st) (rev s)) = adv p cs) -> pend (f (tick st) (rev s)) = O ->
  exists st', drawing (tick st) ok f = PCont st' /\ at_stk st' (adv p cs) [].
Proof.
  intros (Hp & Hs & Hpend) Hok Hm Hf Hpf.
  exists (clear (f (tick st) (args (tick st)))). unfold drawing. rewrite Hok. cbn [negb].
  unfold draw_ok. replace (moved (tick st)) with true by (rewrite <- Hm, <- Hp; reflexivity).
  cbn [negb]. unfold args. cbn [stk tick]. rewrite Hs. split; [reflexivity|].
  apply at_clear; assumption.
Qed.
