(* C04/Model.v — M_t2enc: mirror of cff/t2encode.go (encodeNumber, encodeInt,
   encodeArgs, encoder.AppendEdges, the header construction of
   encodeCharString, encodePaths) on the 16.16 grid, with the Type 2
   specification interpreter S_t2 of C05 as the semantics of what is emitted.

   Numbers are 16.16 fixed point scaled to Z (v*65536), as in C05.  A glyph
   command list uses C05's [cmd] type with absolute coordinates.

   Definitions only; proofs are in Proofs*.v. *)
From Coq Require Import List NArith ZArith Bool Arith.
From C05 Require Import Model.
Import ListNotations.
Local Open Scope Z_scope.

Definition enc_max_stack : nat := 48%nat.      (* t2encode.go: const maxStack *)

(* ------------------------------------------------------------------ *)
(* encodeInt / encodeNumber                                            *)

(* an encoded operand: the value the encoder reports, and its bytes *)
Definition enum : Type := (Z * list N)%type.
Definition ev (e : enum) : Z := fst e.
Definition ec (e : enum) : list N := snd e.
Definition is_zero (e : enum) : bool := ev e =? 0.

(* encodeInt(x funit.Int16) *)
Definition enc_int (x : Z) : list N :=
  if (-107 <=? x) && (x <=? 107) then [Z.to_N (x + 139)]
  else if (107 <? x) && (x <=? 1131) then
    let y := x - 108 in [Z.to_N (y / 256 + 247); Z.to_N (y mod 256)]
  else if (x <? -107) && (-1131 <=? x) then
    let y := -108 - x in [Z.to_N (y / 256 + 251); Z.to_N (y mod 256)]
  else [28%N; Z.to_N ((x / 256) mod 256); Z.to_N (x mod 256)].

(* encodeNumber(x float64) for x on the 16.16 grid.  Outside
   [-32768, 32768) the Go code converts a float64 to int16/int32 out of range
   (implementation-defined): None. *)
Definition enc_number (x : Z) : option enum :=
  if in_range x then
    if x mod SC =? 0 then Some (x, enc_int (x / SC))
    else
      let u := x mod 4294967296 in
      Some (x, [255%N; Z.to_N (u / 16777216); Z.to_N ((u / 65536) mod 256);
                Z.to_N ((u / 256) mod 256); Z.to_N (u mod 256)])
  else None.

(* ------------------------------------------------------------------ *)
(* encodeArgs                                                          *)

Inductive ecmd : Type :=
| EMove (dx dy : enum)
| ELine (dx dy : enum)
| ECurve (a0 a1 a2 a3 a4 a5 : enum)     (* dxa dya dxb dyb dxc dyc *)
| EMask (cntr : bool) (bs : list N).

Definition obind {A B} (x : option A) (f : A -> option B) : option B :=
  match x with Some a => f a | None => None end.
Notation "x <- e1 ;; e2" := (obind e1 (fun x => e2)) (at level 61, e1 at next level, right associativity).

(* posX/posY follow the values actually encoded *)
Fixpoint enc_args (px py : Z) (cs : list cmd) : option (list ecmd) :=
  match cs with
  | [] => Some []
  | CMove x y :: t =>
      dx <- enc_number (x - px);; dy <- enc_number (y - py);;
      r <- enc_args (px + ev dx) (py + ev dy) t;; Some (EMove dx dy :: r)
  | CLine x y :: t =>
      dx <- enc_number (x - px);; dy <- enc_number (y - py);;
      r <- enc_args (px + ev dx) (py + ev dy) t;; Some (ELine dx dy :: r)
  | CCurve x1 y1 x2 y2 x3 y3 :: t =>
      dax <- enc_number (x1 - px);; day <- enc_number (y1 - py);;
      dbx <- enc_number (x2 - ev dax - px);; dby <- enc_number (y2 - ev day - py);;
      dcx <- enc_number (x3 - ev dbx - ev dax - px);; dcy <- enc_number (y3 - ev dby - ev day - py);;
      r <- enc_args (px + (ev dax + ev dbx + ev dcx)) (py + (ev day + ev dby + ev dcy)) t;;
      Some (ECurve dax day dbx dby dcx dcy :: r)
  | CHint bs :: t => r <- enc_args px py t;; Some (EMask false bs :: r)
  | CCntr bs :: t => r <- enc_args px py t;; Some (EMask true bs :: r)
  end.

(* ------------------------------------------------------------------ *)
(* encoder.AppendEdges                                                 *)

Record edge : Type := mkEdge {
  e_args : list enum;     (* operands, in the order they are emitted *)
  e_op : oper;
  e_to : nat
}.

Definition op_bytes (o : oper) : list N :=
  match o with
  | OHstem => [1] | OVstem => [3] | OVmoveto => [4] | ORlineto => [5] | OHlineto => [6]
  | OVlineto => [7] | ORrcurveto => [8] | OCallsubr => [10] | OReturn => [11] | OEndchar => [14]
  | OHstemhm => [18] | OHintmask => [19] | OCntrmask => [20] | ORmoveto => [21] | OHmoveto => [22]
  | OVstemhm => [23] | ORcurveline => [24] | ORlinecurve => [25] | OVvcurveto => [26]
  | OHhcurveto => [27] | OCallgsubr => [29] | OVhcurveto => [30] | OHvcurveto => [31]
  | ODotsection => [12; 0] | OAnd => [12; 3] | OOr => [12; 4] | ONot => [12; 5] | OAbs => [12; 9]
  | OAdd => [12; 10] | OSub => [12; 11] | ODiv => [12; 12] | ONeg => [12; 14] | OEq => [12; 15]
  | ODrop => [12; 18] | OPut => [12; 20] | OGet => [12; 21] | OIfelse => [12; 22]
  | ORandom => [12; 23] | OMul => [12; 24] | OSqrt => [12; 26] | ODup => [12; 27]
  | OExch => [12; 28] | OIndex => [12; 29] | ORoll => [12; 30] | OHflex => [12; 34]
  | OFlex => [12; 35] | OHflex1 => [12; 36] | OFlex1 => [12; 37]
  end%N.

Definition args_bytes (a : list enum) : list N := concat (map ec a).
Definition edge_bytes (e : edge) : list N := args_bytes (e_args e) ++ op_bytes (e_op e).

Definition fits (code : list enum) (k : nat) : bool := (length code + k <=? enc_max_stack)%nat.

(* --- {dx dy}+ rlineto, and the state of the loop when it ends --- *)
Fixpoint rl_loop (cs : list ecmd) (code : list enum) (pos : nat)
  : list edge * (list ecmd * list enum * nat) :=
  match cs with
  | ELine dx dy :: t =>
      if fits code 2 then
        let code' := code ++ [dx; dy] in
        let cont := match t with
                    | ELine dx' dy' :: _ => negb (is_zero dx') && negb (is_zero dy') && fits code' 2
                    | _ => false
                    end in
        let '(es, fin) := rl_loop t code' (S pos) in
        ((if cont then [] else [mkEdge code' ORlineto (S pos)]) ++ es, fin)
      else ([], (cs, code, pos))
  | _ => ([], (cs, code, pos))
  end.

(* --- dx {dy dx}* hlineto / dy {dx dy}* vlineto: the maximal alternating run.
   chk = false: the next line must have dx = 0 and contributes dy. *)
Fixpoint alt_loop (chk : bool) (cs : list ecmd) (code : list enum) (pos : nat) : list enum * nat :=
  match cs with
  | ELine dx dy :: t =>
      if fits code 1 then
        if negb (is_zero (if chk then dy else dx)) then (code, pos)
        else alt_loop (negb chk) t (code ++ [if chk then dx else dy]) (S pos)
      else (code, pos)
  | _ => (code, pos)
  end.

Definition alt_edge (chk : bool) (o : oper) (cs : list ecmd) : list edge :=
  let '(code, pos) := alt_loop chk cs [] 0 in
  match code with [] => [] | _ => [mkEdge code o pos] end.

(* --- {dxa dya dxb dyb dxc dyc}+ rrcurveto --- *)
Fixpoint rr_loop (cs : list ecmd) (code : list enum) (pos : nat)
  : list edge * (list ecmd * list enum * nat) :=
  match cs with
  | ECurve a0 a1 a2 a3 a4 a5 :: t =>
      if fits code 6 then
        let code' := code ++ [a0; a1; a2; a3; a4; a5] in
        let cont := match t with
                    | ECurve b0 b1 _ _ b4 b5 :: _ =>
                        negb (is_zero b0) && negb (is_zero b1) && negb (is_zero b4) && negb (is_zero b5)
                        && fits code' 6
                    | _ => false
                    end in
        let '(es, fin) := rr_loop t code' (S pos) in
        ((if cont then [] else [mkEdge code' ORrcurveto (S pos)]) ++ es, fin)
      else ([], (cs, code, pos))
  | _ => ([], (cs, code, pos))
  end.

Definition sel {A} (offs : bool) (x y : A) : A := if offs then y else x.

(* --- dx1? {dya dxb dyb dyc}+ vvcurveto (offs = false),
       dy1? {dxa dxb dyb dxc}+ hhcurveto (offs = true) --- *)
Fixpoint hh_loop (offs : bool) (o : oper) (cs : list ecmd) (code : list enum) (pos : nat) : list edge :=
  match cs with
  | ECurve a0 a1 a2 a3 a4 a5 :: t =>
      if fits code 4 then
        if negb (is_zero (sel offs a4 a5)) then []
        else
          let lead := sel offs a0 a1 in
          let body := [sel offs a1 a0; a2; a3; sel offs a5 a4] in
          if negb (is_zero lead) then
            if (pos =? 0)%nat && fits code 5 then
              let code' := (code ++ [lead]) ++ body in
              mkEdge code' o (S pos) :: hh_loop offs o t code' (S pos)
            else []
          else
            let code' := code ++ body in
            mkEdge code' o (S pos) :: hh_loop offs o t code' (S pos)
      else []
  | _ => []
  end.

(* --- hvcurveto (orig = false) / vhcurveto (orig = true) --- *)
Fixpoint hv_loop (orig offs : bool) (o : oper) (cs : list ecmd) (code : list enum) (pos : nat) : list edge :=
  match cs with
  | ECurve a0 a1 a2 a3 a4 a5 :: t =>
      if negb (is_zero (sel offs a1 a0)) then []
      else
        let last := sel offs a4 a5 in
        let aligned := is_zero last in
        if negb (Bool.eqb offs orig) && negb aligned then []
        else if negb (fits code 4) || (negb aligned && negb (fits code 5)) then []
        else
          let code1 := code ++ [sel offs a0 a1; a2; a3; sel offs a5 a4] in
          let code' := if aligned then code1 else code1 ++ [last] in
          let offs' := negb offs in
          if Bool.eqb offs' orig then hv_loop orig offs' o t code' (S pos)
          else
            mkEdge code' o (S pos) ::
            (if aligned then hv_loop orig offs' o t code' (S pos) else [])
  | _ => []
  end.

(* --- hflex / hflex1 --- *)
Definition flex_edges (cs : list ecmd) : list edge :=
  match cs with
  | ECurve a0 a1 a2 a3 a4 a5 :: ECurve b0 b1 b2 b3 b4 b5 :: _ =>
      if is_zero a5 && is_zero b1 then
        let dy := ev a3 + ev b3 in
        if is_zero a1 && is_zero b5 && (dy =? 0) then
          [mkEdge [a0; a2; a3; a4; b0; b2; b4] OHflex 2]
        else if dy + ev a1 + ev b5 =? 0 then
          [mkEdge [a0; a1; a2; a3; a4; b0; b2; b3; b4] OHflex1 2]
        else []
      else []
  | _ => []
  end.

Definition shift (from : nat) (e : edge) : edge := mkEdge (e_args e) (e_op e) (from + e_to e).

(* AppendEdges(edges, from): None where the Go code panics *)
Definition M_t2edges (enc : list ecmd) (from : nat) : option (list edge) :=
  let cs := skipn from enc in
  match cs with
  | [] => Some []
  | ELine _ _ :: _ =>
      let '(es, (rest, code, pos)) := rl_loop cs [] 0 in
      let lc := match rest with
                | ECurve a0 a1 a2 a3 a4 a5 :: _ =>
                    if fits code 6 then [mkEdge (code ++ [a0; a1; a2; a3; a4; a5]) ORlinecurve (S pos)] else []
                | _ => []
                end in
      Some (map (shift from) (es ++ lc ++ alt_edge false OVlineto cs ++ alt_edge true OHlineto cs))
  | ECurve _ _ _ _ _ _ :: _ =>
      let '(es, (rest, code, pos)) := rr_loop cs [] 0 in
      let cl := match rest with
                | ELine dx dy :: _ =>
                    if fits code 2 then [mkEdge (code ++ [dx; dy]) ORcurveline (S pos)] else []
                | _ => []
                end in
      Some (map (shift from)
             (es ++ cl ++ hh_loop false OVvcurveto cs [] 0 ++ hh_loop true OHhcurveto cs [] 0
              ++ hv_loop false false OHvcurveto cs [] 0 ++ hv_loop true true OVhcurveto cs [] 0
              ++ flex_edges cs))
  | _ => None     (* panic("unexpected command type") *)
  end.

(* ------------------------------------------------------------------ *)
(* encodePaths: any path through the edges may be taken               *)

Definition move_bytes (dx dy : enum) : list N :=
  if is_zero dx then ec dy ++ op_bytes OVmoveto
  else if is_zero dy then ec dx ++ op_bytes OHmoveto
  else ec dx ++ ec dy ++ op_bytes ORmoveto.

Definition is_draw_cmd (c : ecmd) : bool :=
  match c with ELine _ _ | ECurve _ _ _ _ _ _ => true | _ => false end.

(* the maximal run of lineto/curveto commands at the head *)
Fixpoint take_run (cs : list ecmd) : list ecmd * list ecmd :=
  match cs with
  | c :: t => if is_draw_cmd c then let '(r, rest) := take_run t in (c :: r, rest) else ([], cs)
  | [] => ([], [])
  end.

(* code of one subpath: a sequence of edges from node [from] to the end *)
Inductive subpath_code (run : list ecmd) : nat -> list N -> Prop :=
| sp_done : subpath_code run (length run) []
| sp_edge : forall from es e code,
    M_t2edges run from = Some es -> In e es ->
    subpath_code run (e_to e) code ->
    subpath_code run from (edge_bytes e ++ code).

Inductive paths_code : list ecmd -> list N -> Prop :=
| pc_end : paths_code [] (op_bytes OEndchar)
| pc_move : forall dx dy t code,
    paths_code t code -> paths_code (EMove dx dy :: t) (move_bytes dx dy ++ code)
| pc_mask : forall cntr bs t code,
    paths_code t code ->
    paths_code (EMask cntr bs :: t) (op_bytes (if cntr then OCntrmask else OHintmask) ++ bs ++ code)
| pc_run : forall cs run rest c1 c2,
    take_run cs = (run, rest) -> run <> [] ->
    subpath_code run 0 c1 -> paths_code rest c2 ->
    paths_code cs (c1 ++ c2).

(* ------------------------------------------------------------------ *)
(* encodeCharString: width and stem header                             *)

Definition is_mask (c : cmd) : bool := match c with CHint _ | CCntr _ => true | _ => false end.

(* the operands of one stem chunk: differences of successive edges, starting from 0 *)
Fixpoint stem_deltas (prev : Z) (edges : list Z) : option (list enum) :=
  match edges with
  | [] => Some []
  | x :: t => d <- enc_number (x - prev);; r <- stem_deltas x t;; Some (d :: r)
  end.

(* chunks of at most (maxStack - extra)/2 pairs; [fuel] >= number of edges *)
Fixpoint stem_chunks (fuel : nat) (extra : nat) (stems : list Z) (op : oper) (omit_last : bool)
  : option (list N) :=
  match fuel with
  | O => match stems with [] => Some [] | _ => None end
  | S f =>
      match stems with
      | [] => Some []
      | _ =>
          let k := Nat.min ((enc_max_stack - extra) / 2) (length stems / 2) in
          let chunk := firstn (2 * k) stems in
          let rest := skipn (2 * k) stems in
          d <- stem_deltas 0 chunk;;
          r <- stem_chunks f 0 rest op omit_last;;
          let can_omit := omit_last && match rest with [] => true | _ => false end in
          Some (args_bytes d ++ (if can_omit then [] else op_bytes op) ++ r)
      end
  end.

Definition glyph_in : Type := glyph.   (* cmds, hstem, vstem, width (all scaled) *)

(* None: encodeCharString returns an error, or a number is outside the model *)
Definition enc_header (g : glyph) (dflt nom : Z) : option (list N) :=
  w <- (if g_width g =? dflt then Some [] else x <- enc_number (g_width g - nom);; Some (ec x));;
  let mask_used := existsb is_mask (g_cmds g) in
  if negb (Nat.even (length (g_hstem g))) || negb (Nat.even (length (g_vstem g))) then None
  else
    let extra := match w with [] => 0%nat | _ => 1%nat end in
    h <- stem_chunks (S (length (g_hstem g))) extra (g_hstem g)
           (if mask_used then OHstemhm else OHstem) false;;
    let extra' := match g_hstem g with [] => extra | _ => 0%nat end in
    let omit := match g_cmds g with c :: _ => is_mask c | [] => false end in
    v <- stem_chunks (S (length (g_vstem g))) extra' (g_vstem g)
           (if mask_used then OVstemhm else OVstem) omit;;
    Some (w ++ h ++ v).

(* every charstring encodeCharString may return (one per choice of paths) *)
Definition emits (g : glyph) (dflt nom : Z) (code : list N) : Prop :=
  exists hdr ecs body,
    enc_header g dflt nom = Some hdr /\ enc_args 0 0 (g_cmds g) = Some ecs /\
    paths_code ecs body /\ code = hdr ++ body.

(* ------------------------------------------------------------------ *)
(* An executable checker for emitted charstrings (translation validation) *)

Fixpoint strip_prefix (p l : list N) : option (list N) :=
  match p, l with
  | [], _ => Some l
  | a :: p', b :: l' => if (a =? b)%N then strip_prefix p' l' else None
  | _ :: _, [] => None
  end.

(* does [code] start with the code of some path from [from] to the end of [run]?
   returns the possible remainders *)
Fixpoint walk (fuel : nat) (run : list ecmd) (from : nat) (code : list N) : list (list N) :=
  match fuel with
  | O => []
  | S f =>
      if (from =? length run)%nat then [code]
      else match M_t2edges run from with
           | None => []
           | Some es =>
               flat_map (fun e =>
                 if (from <? e_to e)%nat then
                   match strip_prefix (edge_bytes e) code with
                   | Some rest => walk f run (e_to e) rest
                   | None => []
                   end
                 else []) es
           end
  end.

Fixpoint check_paths (fuel : nat) (cs : list ecmd) (code : list N) : bool :=
  match fuel with
  | O => false
  | S f =>
      match cs with
      | [] => match strip_prefix (op_bytes OEndchar) code with Some [] => true | _ => false end
      | EMove dx dy :: t =>
          match strip_prefix (move_bytes dx dy) code with Some r => check_paths f t r | None => false end
      | EMask cntr bs :: t =>
          match strip_prefix (op_bytes (if cntr then OCntrmask else OHintmask) ++ bs) code with
          | Some r => check_paths f t r | None => false end
      | _ =>
          let '(run, rest) := take_run cs in
          existsb (fun r => check_paths f rest r) (walk (S (length run)) run 0 code)
      end
  end.

Definition check_charstring (g : glyph) (dflt nom : Z) (code : list N) : bool :=
  match enc_header g dflt nom, enc_args 0 0 (g_cmds g) with
  | Some hdr, Some ecs =>
      match strip_prefix hdr code with
      | Some body => check_paths (S (length ecs)) ecs body
      | None => false
      end
  | _, _ => false
  end.
