(* C04/Proofs_final.v — the whole charstring: header, first operator (which
   takes a pending width and an omitted vstem's operands), body. *)
From Coq Require Import List NArith ZArith Bool Arith Lia.
From C05 Require Import Model Proofs.
From C04 Require Import Model Proofs_num Proofs_exec Proofs_lines Proofs_curves Proofs_main Proofs_body Proofs_header.
Import ListNotations.
Local Open Scope Z_scope.

Lemma paths_nil_inv body : paths_code [] body -> body = op_bytes OEndchar.
Proof.
  intros H. inversion H; subst; [reflexivity|].
  match goal with H : take_run [] = _ |- _ => cbn in H; inversion H; subst end. congruence.
Qed.

Lemma paths_move_inv dx dy t body :
  paths_code (EMove dx dy :: t) body -> exists code, body = move_bytes dx dy ++ code /\ paths_code t code.
Proof.
  intros H. inversion H; subst; [eauto|].
  match goal with H : take_run (EMove _ _ :: _) = _ |- _ => cbn in H; inversion H; subst end. congruence.
Qed.

Lemma paths_mask_inv k bs t body :
  paths_code (EMask k bs :: t) body ->
  exists code, body = op_bytes (if k then OCntrmask else OHintmask) ++ bs ++ code /\ paths_code t code.
Proof.
  intros H. inversion H; subst; [eauto|].
  match goal with H : take_run (EMask _ _ :: _) = _ |- _ => cbn in H; inversion H; subst end. congruence.
Qed.

(* the commands [sem] produces depend only on the path state *)
Lemma sem_cmds_indep : forall ecs p q,
  p_cmds p = p_cmds q -> p_px p = p_px q -> p_py p = p_py q ->
  p_cmds (sem p ecs) = p_cmds (sem q ecs).
Proof.
  induction ecs as [|c t IH]; intros p q H1 H2 H3; [exact H1|].
  unfold sem in *. cbn [fold_left]. apply IH;
    destruct c; cbn [app_ecmd app_draw p_move p_mask p_line p_curve p_cmds p_px p_py];
    rewrite ?H1, ?H2, ?H3; reflexivity.
Qed.

Section FINAL.
  Variable subrs gsubrs : subrtab.
  Variable call : state -> list N -> res.
  Notation go := (go subrs gsubrs call).

  (* the first operator of the body takes what the header left on the stack *)
  Lemma first_exec ecs body st pf (wl dv : list Z) :
    paths_code ecs body -> run_wf ecs ->
    at_stk st pf (rev (wl ++ dv)) ->
    (wl = [] \/ (exists x, wl = [x] /\ p_wset pf = false)) ->
    Nat.even (length dv) = true -> (length (wl ++ dv) <= t2_max_stack)%nat ->
    p_moved pf = false ->
    (dv <> [] -> p_hopen pf = true /\ exists k bs t, ecs = EMask k bs :: t) ->
    let vs' := p_vs pf ++ stem_edges 0 dv in
    body_wf ((length (p_hs pf) + length vs') / 2) false ecs = true ->
    exists st', go st body = RDone st' /\
      cmds st' = p_cmds (sem pf ecs) /\ hs st' = p_hs pf /\ vs st' = vs' /\
      width st' = (match wl with [x] => Some x | _ => p_width pf end).
  Proof.
    intros Hpc Hwf Hat Hw Hev Hfit Hmv Hdv vs' Hb.
    destruct ecs as [|c t].
    - (* endchar *)
      assert (dv = []) by (destruct dv; [reflexivity|]; destruct (Hdv ltac:(discriminate)) as (_ & k & bs & t & E); discriminate).
      subst dv. rewrite app_nil_r in *. apply paths_nil_inv in Hpc. subst body.
      assert (Hrev : rev wl = wl) by (destruct Hw as [->|(x & -> & _)]; reflexivity).
      rewrite Hrev in Hat.
      destruct (endchar_exec subrs gsubrs call st pf wl Hat Hw) as (st' & Hg & H1 & H2 & H3 & H4).
      exists st'. unfold vs'. cbn [stem_edges]. rewrite app_nil_r. repeat split; assumption.
    - destruct c as [dx dy|dx dy|a0 a1 a2 a3 a4 a5|k bs].
      + (* moveto *)
        assert (dv = []) by (destruct dv; [reflexivity|]; destruct (Hdv ltac:(discriminate)) as (_ & k & bs & t' & E); discriminate).
        subst dv. rewrite app_nil_r in *. unfold vs' in *. cbn [stem_edges] in *. rewrite app_nil_r in *.
        apply paths_move_inv in Hpc. destruct Hpc as (code & -> & Hpc).
        assert (Hrev : rev wl = wl) by (destruct Hw as [->|(x & -> & _)]; reflexivity).
        rewrite Hrev in Hat.
        inversion Hwf as [|? ? Hw1 Hw2]; subst. cbn [cmd_enums] in Hw1.
        inversion Hw1 as [|? ? Hwx Hw1']; subst. inversion Hw1' as [|? ? Hwy _]; subst.
        destruct (move_exec subrs gsubrs call st pf dx dy code wl Hwx Hwy Hat Hw) as (st1 & Hg1 & Hat1).
        cbn [body_wf] in Hb.
        destruct (body_exec subrs gsubrs call t code Hpc Hw2 st1 _ Hat1 Hb) as (st' & Hg & H1 & H2 & H3 & H4).
        exists st'. split; [rewrite Hg1; exact Hg|].
        cbn [p_move p_hs p_vs p_width] in *. repeat split; try assumption.
        rewrite H1. unfold sem at 2. cbn [fold_left app_ecmd]. change (fold_left app_ecmd t ?q) with (sem q t).
        apply sem_cmds_indep; reflexivity.
      + cbn [body_wf andb] in Hb. discriminate.
      + cbn [body_wf andb] in Hb. discriminate.
      + (* a mask: pending width and implicit vstem operands *)
        apply paths_mask_inv in Hpc. destruct Hpc as (code & -> & Hpc).
        inversion Hwf as [|? ? _ Hw2]; subst.
        cbn [body_wf] in Hb. apply andb_true_iff in Hb. destruct Hb as [Hb Hb2].
        apply andb_true_iff in Hb. destruct Hb as [Hns Hlen].
        apply Nat.leb_le in Hns. apply Nat.eqb_eq in Hlen.
        destruct (mask_exec subrs gsubrs call st pf k bs code wl dv Hat Hw Hev) as (st1 & Hg1 & Hat1).
        * intros Hne. apply (Hdv Hne).
        * exact Hfit.
        * fold vs'.
          destruct (Nat.lt_ge_cases (length (p_hs pf) + length vs') 2) as [Hlt|Hge]; [|exact Hge].
          rewrite (Nat.div_small _ 2 Hlt) in Hns. lia.
        * fold vs'. exact Hlen.
        * fold vs' in Hat1.
          set (w' := match wl with [x] => Some x | _ => p_width pf end) in *.
          assert (Hb3 : body_wf (nstems (p_mask pf w' vs' k bs)) (p_moved (p_mask pf w' vs' k bs)) t = true).
          { unfold nstems. cbn [p_mask p_hs p_vs p_moved]. rewrite Hmv. exact Hb2. }
          destruct (body_exec subrs gsubrs call t code Hpc Hw2 st1 _ Hat1 Hb3) as (st' & Hg & H1 & H2 & H3 & H4).
          exists st'. split; [rewrite Hg1; exact Hg|].
          cbn [p_mask p_hs p_vs p_width] in *. repeat split; try assumption.
          rewrite H1. unfold sem at 2. cbn [fold_left app_ecmd]. change (fold_left app_ecmd t ?q) with (sem q t).
          apply sem_cmds_indep; reflexivity.
  Qed.

  Lemma wf_enum_nonempty e : wf_enum e -> ec e <> [].
  Proof. intros H E. specialize (H []). rewrite E in H. cbn in H. discriminate. Qed.

  Definition p_init : pst := mkP false None true [] [] [] 0 0 false.

  Definition wopt (g : glyph) (dflt nom : Z) : option Z :=
    if g_width g =? dflt then None else Some (g_width g - nom).

  (* what the header leaves: stems declared, possibly a pending width operand
     and the operands of an omitted vstem *)
  Lemma header_exec g dflt nom hdr rest st0 :
    enc_header g dflt nom = Some hdr -> at_stk st0 p_init [] ->
    exists st pf wl dv,
      go st0 (hdr ++ rest) = go st rest /\ at_stk st pf (rev (wl ++ dv)) /\
      (wl = [] \/ (exists x, wl = [x] /\ p_wset pf = false)) /\
      Nat.even (length dv) = true /\ (length (wl ++ dv) <= t2_max_stack)%nat /\
      p_moved pf = false /\ p_cmds pf = [] /\ p_px pf = 0 /\ p_py pf = 0 /\
      (dv <> [] -> p_hopen pf = true /\ exists c t, g_cmds g = c :: t /\ is_mask c = true) /\
      p_hs pf = g_hstem g /\ p_vs pf ++ stem_edges 0 dv = g_vstem g /\
      (match wl with [x] => Some x | _ => p_width pf end) = wopt g dflt nom.
  Proof.
    intros H Hat0. unfold enc_header in H.
    apply obind_some in H. destruct H as (w & Hw & H).
    destruct (negb (Nat.even (length (g_hstem g))) || negb (Nat.even (length (g_vstem g)))) eqn:Epar; [discriminate|].
    apply orb_false_iff in Epar. destruct Epar as [Eh Ev].
    apply negb_false_iff in Eh. apply negb_false_iff in Ev.
    apply obind_some in H. destruct H as (hb & Hh & H).
    apply obind_some in H. destruct H as (vb & Hv & H). inversion H; subst hdr; clear H.
    set (hm := existsb is_mask (g_cmds g)) in *.
    (* W: the width operand *)
    assert (HW : exists st1 wl, go st0 (w ++ hb ++ vb ++ rest) = go st1 (hb ++ vb ++ rest) /\
              at_stk st1 p_init wl /\ (wl = [] \/ exists x, wl = [x]) /\
              match w with [] => 0%nat | _ => 1%nat end = length wl /\
              (match wl with [x] => Some x | _ => None end) = wopt g dflt nom).
    { unfold wopt. destruct (g_width g =? dflt).
      - inversion Hw; subst w. exists st0, []. cbn [app].
        split; [reflexivity|]. split; [exact Hat0|]. repeat split; auto.
      - apply obind_some in Hw. destruct Hw as (x & Hx & Hw). inversion Hw; subst w.
        apply enc_number_some in Hx. destruct Hx as (Ex & Wx & _).
        destruct (go_push subrs gsubrs call st0 p_init [] x (hb ++ vb ++ rest) Hat0 Wx) as (st1 & Hg1 & Hat1).
        { cbn. unfold t2_max_stack. lia. }
        exists st1, [ev x].
        split; [exact Hg1|]. split; [exact Hat1|]. split; [right; eauto|]. split.
        + pose proof (wf_enum_nonempty x Wx). destruct (ec x); [congruence|reflexivity].
        + rewrite Ex. reflexivity. }
    destruct HW as (st1 & wl & Hg1 & Hat1 & Hwl & Hex & Hwo).
    assert (Hwl' : wl = [] \/ (exists x, wl = [x] /\ p_wset p_init = false)).
    { destruct Hwl as [->|(x & ->)]; [left; reflexivity|right; eauto]. }
    (* H: the hstem chunks *)
    assert (Hh' : stem_chunks (S (length (g_hstem g))) (match w with [] => 0%nat | _ => 1%nat end)
                    (g_hstem g) (stem_op false hm) false = Some hb) by (destruct hm; exact Hh).
    destruct (chunks_exec subrs gsubrs call false hm (S (length (g_hstem g))) (g_hstem g)
                (match w with [] => 0%nat | _ => 1%nat end) hb st1 p_init wl
                (vb ++ rest) Hh' Eh Hex Hat1 Hwl' eq_refl) as (st2 & Hg2 & Hat2).
    set (p2 := match g_hstem g with [] => p_init | _ => p_stem false p_init (match wl with [x] => Some x | _ => None end) (g_hstem g) end).
    set (wl2 := match g_hstem g with [] => wl | _ => [] end).
    assert (Hat2' : at_stk st2 p2 wl2) by (unfold p2, wl2; destruct (g_hstem g); exact Hat2).
    assert (Hp2 : p_hs p2 = g_hstem g /\ p_vs p2 = [] /\ p_cmds p2 = [] /\ p_px p2 = 0 /\ p_py p2 = 0 /\
                  p_moved p2 = false /\ p_hopen p2 = true /\
                  (wl2 = [] \/ (exists x, wl2 = [x] /\ p_wset p2 = false)) /\
                  (match wl2 with [x] => Some x | _ => p_width p2 end) = wopt g dflt nom).
    { unfold p2, wl2. destruct (g_hstem g) eqn:Eg.
      - repeat split; auto; try (destruct Hwl as [->|(x & ->)]; exact Hwo).
      - cbn [p_stem p_hs p_vs p_cmds p_px p_py p_moved p_hopen p_init app p_width].
        repeat split; auto; try (destruct Hwl as [->|(x & ->)]; exact Hwo). }
    destruct Hp2 as (P1 & P2 & P3 & P4 & P5 & P6 & P7 & P8 & P9).
    assert (Hex2 : match g_hstem g with [] => match w with [] => 0%nat | _ => 1%nat end | _ => 0%nat end = length wl2).
    { unfold wl2. destruct (g_hstem g); [exact Hex|reflexivity]. }
    rewrite Hex2 in Hv.
    (* V: the vstem chunks *)
    destruct (g_vstem g) as [|v0 vst] eqn:Evs.
    { (* none *)
      rewrite stem_chunks_nil in Hv. inversion Hv; subst vb.
      assert (Hrev : rev (wl2 ++ []) = wl2) by (destruct P8 as [->|(x & -> & _)]; reflexivity).
      exists st2, p2, wl2, []. rewrite Hrev. cbn [app] in *.
      split. { rewrite <- !app_assoc. cbn [app]. rewrite Hg1, Hg2. reflexivity. }
      split; [exact Hat2'|]. split; [exact P8|]. split; [reflexivity|].
      split. { destruct P8 as [->|(x & -> & _)]; cbn; unfold t2_max_stack; lia. }
      split; [exact P6|]. split; [exact P3|]. split; [exact P4|]. split; [exact P5|].
      split; [congruence|]. split; [exact P1|]. split; [rewrite P2; reflexivity|exact P9]. }
    rewrite <- Evs in *.
    assert (Hvne : g_vstem g <> []) by (rewrite Evs; discriminate).
    destruct (match g_cmds g with c :: _ => is_mask c | [] => false end) eqn:Eom.
    - (* the last vstem operator is omitted *)
      assert (Hv' : stem_chunks (S (length (g_vstem g))) (length wl2) (g_vstem g) (stem_op true hm) true = Some vb)
        by (destruct hm; exact Hv).
      destruct (chunks_omit_exec subrs gsubrs call hm (S (length (g_vstem g))) (g_vstem g) (length wl2) vb st2 p2 wl2 rest
                  Hv' Hvne Ev eq_refl Hat2' P8 P7)
        as (st3 & pf & dv & wl3 & Hg3 & Hat3 & R1 & R2 & R3 & R4 & R5 & R6 & R7 & R8 & R9 & R10 & R11).
      exists st3, pf, wl3, dv.
      split. { rewrite <- !app_assoc. rewrite Hg1, Hg2. exact Hg3. }
      split; [exact Hat3|].
      split. { destruct R11 as [[-> ->]|(-> & _)]; [exact P8|left; reflexivity]. }
      split; [exact R8|]. split; [exact R10|].
      split; [congruence|]. split; [congruence|]. split; [congruence|]. split; [congruence|].
      split. { intros _. split; [exact R7|]. destruct (g_cmds g) as [|c t]; [discriminate|]. eauto. }
      split; [congruence|]. split; [rewrite R2, P2; reflexivity|].
      destruct R11 as [[-> ->]|(-> & _ & ->)]; exact P9.
    - (* every vstem chunk has its operator *)
      assert (Hv' : stem_chunks (S (length (g_vstem g))) (length wl2) (g_vstem g) (stem_op true hm) false = Some vb)
        by (destruct hm; exact Hv).
      destruct (chunks_exec subrs gsubrs call true hm (S (length (g_vstem g))) (g_vstem g) (length wl2) vb st2 p2 wl2 rest
                  Hv' Ev eq_refl Hat2' P8 P7)
        as (st3 & Hg3 & Hat3).
      rewrite Evs in Hat3. rewrite <- Evs in Hat3.
      exists st3, (p_stem true p2 (match wl2 with [x] => Some x | _ => p_width p2 end) (g_vstem g)), [], [].
      cbn [app rev p_stem p_hs p_vs p_cmds p_px p_py p_moved p_width length stem_edges]. rewrite app_nil_r.
      split. { rewrite <- !app_assoc. rewrite Hg1, Hg2. exact Hg3. }
      split; [exact Hat3|]. split; [left; reflexivity|]. split; [reflexivity|].
      split; [unfold t2_max_stack; lia|].
      split; [exact P6|]. split; [exact P3|]. split; [exact P4|]. split; [exact P5|].
      split; [congruence|]. split; [exact P1|]. split; [rewrite P2; reflexivity|].
      destruct wl2 as [|x [|y r]]; exact P9.
  Qed.
End FINAL.

(* glyph descriptions the theorem speaks about: drawing only after a moveto,
   masks only when stems exist and with ceil(n/8) bytes *)
Definition glyph_wf (g : glyph) : bool :=
  cmds_wf ((length (g_hstem g) + length (g_vstem g)) / 2) false (g_cmds g).

Lemma any_path_correct_lemma g dflt nom code subrs gsubrs :
  emits g dflt nom code -> glyph_wf g = true ->
  S_t2 dflt nom subrs gsubrs code = T2Ok g.
Proof.
  intros (hdr & ecs & body & Hh & Ha & Hp & ->) Hwf.
  unfold S_t2, t2_fuel, t2_max_depth.
  change (exec subrs gsubrs 11 init_state (hdr ++ body))
    with (go subrs gsubrs (exec subrs gsubrs 10) init_state (hdr ++ body)).
  set (call := exec subrs gsubrs 10).
  assert (Hat0 : at_stk init_state p_init []) by (repeat split).
  destruct (header_exec subrs gsubrs call g dflt nom hdr body init_state Hh Hat0)
    as (st & pf & wl & dv & Hg1 & Hat & Hw & Hev & Hfit & Hmv & Hc & Hx & Hy & Hdv & Hhs & Hvs & Hwd).
  destruct (enc_args_sound _ _ _ _ Ha) as (Hrw & Hb & Hs).
  destruct (first_exec subrs gsubrs call ecs body st pf wl dv Hp Hrw Hat Hw Hev Hfit Hmv)
    as (st' & Hg2 & H1 & H2 & H3 & H4).
  - intros Hne. destruct (Hdv Hne) as (Hho & c & t & Ec & Hm). split; [exact Hho|].
    rewrite Ec in Ha. destruct c; try discriminate; cbn [enc_args] in Ha;
      apply obind_some in Ha; destruct Ha as (r & _ & Ha); inversion Ha; eauto.
  - rewrite Hhs, Hvs, Hb. exact Hwf.
  - rewrite Hg1, Hg2. cbn [outcome_of]. f_equal. unfold glyph_of.
    rewrite H1, H2, H3, H4, Hhs, Hvs, Hwd, (Hs pf Hx Hy), Hc. cbn [app].
    destruct g as [gc gh gv gw]. cbn [g_cmds g_hstem g_vstem g_width wopt] in *. unfold wopt. cbn [g_width].
    f_equal. destruct (gw =? dflt) eqn:E; [apply Z.eqb_eq in E; congruence|lia].
Qed.
