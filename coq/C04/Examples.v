(* C04/Examples.v — non-vacuity: a concrete glyph with width, stems, an omitted
   vstem before the first mask, all three moveto forms and runs that use
   several operator families, with a charstring the checker accepts. *)
From Coq Require Import List NArith ZArith Bool Arith.
From C05 Require Import Model.
From C04 Require Import Model Proofs_final Proofs_check.
Import ListNotations.
Local Open Scope Z_scope.

Definition U (n : Z) : Z := n * 65536.

Definition ex_g : glyph :=
  mkGlyph
    [CHint [160%N];
     CMove (U 10) 0;                                   (* hmoveto *)
     CLine (U 10) (U 20); CLine (U 30) (U 20);         (* vlineto *)
     CLine (U 35) (U 27); CLine (U 40) (U 31 + 32768); (* rlineto, fractional *)
     CCurve (U 50) (U 31 + 32768) (U 60) (U 40) (U 60) (U 55);   (* hvcurveto *)
     CMove (U 60) (U 80);                              (* vmoveto *)
     CCurve (U 61) (U 82) (U 63) (U 84) (U 67) (U 90); (* rrcurveto *)
     CLine (U 70) (U 91);
     CCntr [7%N]]
    [U 10; U 30] [U 5; U 25; U 100; U 80] (U 700).

Definition ex_code : list N :=
  match enc_header ex_g (U 500) (U 600), enc_args 0 0 (g_cmds ex_g) with
  | Some h, Some _ =>
      (* body: the bytes the implementation emits for this glyph *)
      h ++ [19;160; 149;22; 159;159;7; 144;146;144; 255;0;4;128;0; 5;
            149;149; 255;0;8;128;0; 154;31; 164;4; 140;141;141;141;143;145;142;140;24; 20;7; 14]%N
  | _, _ => []
  end.

Example ex_hypotheses : glyph_wf ex_g = true /\ check_charstring ex_g (U 500) (U 600) ex_code = true.
Proof. vm_compute. split; reflexivity. Qed.

Example ex_emits : emits ex_g (U 500) (U 600) ex_code.
Proof. apply check_charstring_sound. vm_compute. reflexivity. Qed.

Example ex_decodes : S_t2 (U 500) (U 600) (mkTab 0 [] []) (mkTab 0 [] []) ex_code = T2Ok ex_g.
Proof. vm_compute. reflexivity. Qed.

(* the header of this glyph: width 100, hstemhm, and the vstem operands without operator *)
Example ex_header :
  enc_header ex_g (U 500) (U 600) = Some [239; 149;159; 18; 144;159; 214;119]%N.
Proof. vm_compute. reflexivity. Qed.

(* runs longer than the stack: 30 lines need two operators *)
Definition ex_long : glyph :=
  mkGlyph (CMove 0 0 :: map (fun i => CLine (U (3 * i + 1)) (U (i * i))) [1;2;3;4;5;6;7;8;9;10;11;12;13;14;15;16;17;18;19;20;21;22;23;24;25;26;27;28;29;30])
          [] [] (U 500).
Example ex_long_edges :
  match enc_args 0 0 (g_cmds ex_long) with
  | Some (_ :: run) =>
      match M_t2edges run 0 with
      | Some es => existsb (fun e => (e_to e =? 24)%nat) es && forallb (fun e => (e_to e <=? 24)%nat) es
      | None => false
      end
  | _ => false
  end = true.
Proof. vm_compute. reflexivity. Qed.
