(* C04/Proofs_lines.v — the edges AppendEdges offers at a lineto command
   (rlineto, rlinecurve, hlineto, vlineto) draw exactly the commands they skip. *)
From Coq Require Import List NArith ZArith Bool Arith Lia.
From C05 Require Import Model Proofs.
From C04 Require Import Model Proofs_num Proofs_exec.
Import ListNotations.
Local Open Scope Z_scope.

(* every operand of a command list decodes to its value *)
Definition cmd_enums (c : ecmd) : list enum :=
  match c with
  | EMove a b | ELine a b => [a; b]
  | ECurve a b c d e f => [a; b; c; d; e; f]
  | EMask _ _ => []
  end.
Definition run_wf (cs : list ecmd) : Prop := Forall (fun c => Forall wf_enum (cmd_enums c)) cs.

Lemma run_wf_app a b : run_wf (a ++ b) <-> run_wf a /\ run_wf b.
Proof. unfold run_wf. apply Forall_app. Qed.

(* an edge of the run [cs0] starting at its first command *)
Definition edge_ok (cs0 : list ecmd) (e : edge) : Prop :=
  (1 <= e_to e <= length cs0)%nat /\ Forall wf_enum (e_args e) /\
  (length (e_args e) <= t2_max_stack)%nat /\
  forall st p, at_stk st p (rev (vals (e_args e))) -> p_moved p = true ->
    exists st', do_op (e_op e) (tick st) = PCont st' /\ at_stk st' (adv p (firstn (e_to e) cs0)) [].

Definition is_line (c : ecmd) : bool := match c with ELine _ _ => true | _ => false end.
Definition is_curve (c : ecmd) : bool := match c with ECurve _ _ _ _ _ _ => true | _ => false end.

(* ---------------- rlineto ---------------- *)

Definition lay_rl (pre : list ecmd) : list enum :=
  flat_map (fun c => match c with ELine dx dy => [dx; dy] | _ => [] end) pre.

Lemma lay_rl_length pre : forallb is_line pre = true -> length (lay_rl pre) = (2 * length pre)%nat.
Proof.
  induction pre as [|c t IH]; [reflexivity|]. cbn [forallb]. intros H. apply andb_true_iff in H.
  destruct H as [Hc Ht]. destruct c; try discriminate. cbn [lay_rl flat_map app length] in *.
  unfold lay_rl in IH. rewrite IH by assumption. lia.
Qed.

Lemma lay_rl_wf pre : run_wf pre -> Forall wf_enum (lay_rl pre).
Proof.
  induction pre as [|c t IH]; intros H; [constructor|]. inversion H; subst.
  unfold lay_rl. cbn [flat_map]. apply Forall_app. split; [|apply IH; assumption].
  destruct c; cbn [cmd_enums] in *; auto.
Qed.

Lemma lay_rl_app a b : lay_rl (a ++ b) = lay_rl a ++ lay_rl b.
Proof. unfold lay_rl. apply flat_map_app. Qed.

Lemma vals_app a b : vals (a ++ b) = vals a ++ vals b.
Proof. unfold vals. apply map_app. Qed.

Lemma rlines_adv : forall pre st,
  forallb is_line pre = true ->
  pst_of (rlines st (vals (lay_rl pre))) = adv (pst_of st) pre.
Proof.
  induction pre as [|c t IH]; intros st H; [reflexivity|].
  cbn [forallb] in H. apply andb_true_iff in H. destruct H as [Hc Ht].
  destruct c; try discriminate.
  unfold lay_rl. cbn [flat_map app vals map rlines].
  change (map ev (flat_map (fun c => match c with ELine dx dy => [dx; dy] | _ => [] end) t))
    with (vals (lay_rl t)).
  rewrite IH by assumption. rewrite pst_of_line. reflexivity.
Qed.

Lemma rlines_pend st a : pend (rlines st a) = pend st /\ stk (rlines st a) = stk st.
Proof. pose proof (keep_rlines (length a) a st (le_n _)) as K. unfold keep in K. tauto. Qed.

(* the rlineto edge over the first k commands *)
Lemma rlineto_edge_ok cs0 k :
  run_wf cs0 -> (1 <= k <= length cs0)%nat -> forallb is_line (firstn k cs0) = true ->
  (2 * k <= t2_max_stack)%nat ->
  edge_ok cs0 (mkEdge (lay_rl (firstn k cs0)) ORlineto k).
Proof.
  intros Hwf Hk Hl Hfit. unfold edge_ok. cbn [e_to e_args e_op].
  assert (Hlen : length (lay_rl (firstn k cs0)) = (2 * k)%nat).
  { rewrite lay_rl_length by assumption. rewrite firstn_length. lia. }
  split; [exact Hk|]. split.
  { apply lay_rl_wf. rewrite <- (firstn_skipn k cs0) in Hwf. apply run_wf_app in Hwf. tauto. }
  split; [lia|].
  intros st p Hat Hm. cbn [do_op].
  destruct Hat as (Hp & Hs & Hpend).
  assert (Hn : length (args (tick st)) = (2 * k)%nat).
  { unfold args. cbn [stk tick]. rewrite Hs, !rev_length. unfold vals. rewrite map_length. exact Hlen. }
  rewrite Hn.
  apply drawing_spec with (s := rev (vals (lay_rl (firstn k cs0)))).
  - repeat split; assumption.
  - apply andb_true_iff. split; [apply Nat.leb_le; lia|].
    rewrite Nat.even_mul. reflexivity.
  - exact Hm.
  - rewrite rev_involutive. rewrite rlines_adv by assumption. rewrite pst_of_tick, Hp. reflexivity.
  - rewrite rev_involutive. rewrite (proj1 (rlines_pend _ _)). exact Hpend.
Qed.

Lemma firstn_pre {A} (pre t : list A) : firstn (length pre) (pre ++ t) = pre.
Proof. rewrite firstn_app, Nat.sub_diag, firstn_all. cbn. apply app_nil_r. Qed.

Lemma fits_le code k : fits code k = true -> (length code + k <= t2_max_stack)%nat.
Proof. unfold fits, enc_max_stack, t2_max_stack. intros H. apply Nat.leb_le in H. exact H. Qed.

(* the state of the loop: [pre] has been consumed *)
Definition rl_inv (cs0 pre cs : list ecmd) (code : list enum) (pos : nat) : Prop :=
  cs0 = pre ++ cs /\ code = lay_rl pre /\ pos = length pre /\ forallb is_line pre = true.

Lemma rl_loop_ok cs0 : run_wf cs0 -> forall cs pre code pos,
  rl_inv cs0 pre cs code pos ->
  Forall (edge_ok cs0) (fst (rl_loop cs code pos)) /\
  (let '(rest, codef, posf) := snd (rl_loop cs code pos) in
   exists pre', rl_inv cs0 pre' rest codef posf /\ (pos <= posf)%nat).
Proof.
  intros Hwf. induction cs as [|c t IH]; intros pre code pos Hinv.
  - cbn. split; [constructor|]. exists pre. split; [exact Hinv|lia].
  - destruct c as [a b|dx dy|a0 a1 a2 a3 a4 a5|k bs];
      try (cbn; split; [constructor|]; exists pre; split; [exact Hinv|lia]).
    cbn [rl_loop]. destruct (fits code 2) eqn:F;
      [|cbn; split; [constructor|]; exists pre; split; [exact Hinv|lia]].
    destruct Hinv as (H0 & Hc & Hp & Hl).
    assert (Hinv' : rl_inv cs0 (pre ++ [ELine dx dy]) t (code ++ [dx; dy]) (S pos)).
    { unfold rl_inv. repeat split.
      - rewrite <- app_assoc. exact H0.
      - rewrite lay_rl_app, Hc. reflexivity.
      - rewrite app_length. cbn. lia.
      - rewrite forallb_app, Hl. reflexivity. }
    specialize (IH _ _ _ Hinv').
    destruct (rl_loop t (code ++ [dx; dy]) (S pos)) as [es fin] eqn:E. cbn [fst snd] in *.
    destruct IH as [IH1 IH2]. split.
    + apply Forall_app. split; [|exact IH1].
      match goal with |- Forall _ (if ?c then _ else _) => destruct c end; constructor; [|constructor].
      destruct Hinv' as (H0' & Hc' & Hp' & Hl').
      assert (Hf : firstn (S pos) cs0 = pre ++ [ELine dx dy]).
      { rewrite Hp', H0'. apply firstn_pre. }
      rewrite Hc', <- Hf.
      apply rlineto_edge_ok; auto.
      * rewrite H0'. rewrite app_length, <- Hp'. lia.
      * rewrite Hf. exact Hl'.
      * apply fits_le in F. rewrite Hc in F. rewrite lay_rl_length in F by assumption. lia.
    + destruct fin as [[rest codef] posf]. destruct IH2 as (pre' & Hi & Hle).
      exists pre'. split; [exact Hi|lia].
Qed.

Lemma rl_loop_advance cs code pos dx dy t :
  cs = ELine dx dy :: t -> fits code 2 = true ->
  let '(_, _, posf) := snd (rl_loop cs code pos) in (S pos <= posf)%nat.
Proof.
  intros -> F. cbn [rl_loop]. rewrite F.
  destruct (rl_loop t (code ++ [dx; dy]) (S pos)) as [es [[rest codef] posf]] eqn:E. cbn [snd].
  (* the position never decreases *)
  assert (G : forall cs code pos, let '(_, _, pf) := snd (rl_loop cs code pos) in (pos <= pf)%nat).
  { clear. induction cs as [|c t IH]; intros code pos; [cbn; lia|].
    destruct c; try (cbn; lia). cbn [rl_loop]. destruct (fits code 2); [|cbn; lia].
    specialize (IH (code ++ [dx; dy]) (S pos)).
    destruct (rl_loop t (code ++ [dx; dy]) (S pos)) as [es [[rest codef] posf]]. cbn [snd] in *. lia. }
  specialize (G t (code ++ [dx; dy]) (S pos)). rewrite E in G. cbn [snd] in G. exact G.
Qed.

(* ---------------- rrcurveto ---------------- *)

Definition lay_rr (pre : list ecmd) : list enum :=
  flat_map (fun c => match c with ECurve a b c d e f => [a; b; c; d; e; f] | _ => [] end) pre.

Lemma lay_rr_length pre : forallb is_curve pre = true -> length (lay_rr pre) = (6 * length pre)%nat.
Proof.
  induction pre as [|c t IH]; [reflexivity|]. cbn [forallb]. intros H. apply andb_true_iff in H.
  destruct H as [Hc Ht]. destruct c; try discriminate. cbn [lay_rr flat_map app length] in *.
  unfold lay_rr in IH. rewrite IH by assumption. lia.
Qed.

Lemma lay_rr_wf pre : run_wf pre -> Forall wf_enum (lay_rr pre).
Proof.
  induction pre as [|c t IH]; intros H; [constructor|]. inversion H; subst.
  unfold lay_rr. cbn [flat_map]. apply Forall_app. split; [|apply IH; assumption].
  destruct c; cbn [cmd_enums] in *; auto.
Qed.

Lemma lay_rr_app a b : lay_rr (a ++ b) = lay_rr a ++ lay_rr b.
Proof. unfold lay_rr. apply flat_map_app. Qed.

Lemma rcurves_adv : forall pre st,
  forallb is_curve pre = true ->
  pst_of (rcurves st (vals (lay_rr pre))) = adv (pst_of st) pre.
Proof.
  induction pre as [|c t IH]; intros st H; [reflexivity|].
  cbn [forallb] in H. apply andb_true_iff in H. destruct H as [Hc Ht].
  destruct c; try discriminate.
  unfold lay_rr. cbn [flat_map app vals map rcurves].
  change (map ev (flat_map (fun c => match c with ECurve a b c d e f => [a; b; c; d; e; f] | _ => [] end) t))
    with (vals (lay_rr t)).
  rewrite IH by assumption. rewrite pst_of_curve. reflexivity.
Qed.

Lemma rcurves_pend st a : pend (rcurves st a) = pend st /\ stk (rcurves st a) = stk st.
Proof. pose proof (keep_rcurves (length a) a st (le_n _)) as K. unfold keep in K. tauto. Qed.

Lemma mod6_mul k : ((6 * k) mod 6 = 0)%nat.
Proof. rewrite Nat.mul_comm. apply Nat.mod_mul. lia. Qed.

Lemma rrcurveto_edge_ok cs0 k :
  run_wf cs0 -> (1 <= k <= length cs0)%nat -> forallb is_curve (firstn k cs0) = true ->
  (6 * k <= t2_max_stack)%nat ->
  edge_ok cs0 (mkEdge (lay_rr (firstn k cs0)) ORrcurveto k).
Proof.
  intros Hwf Hk Hl Hfit. unfold edge_ok. cbn [e_to e_args e_op].
  assert (Hlen : length (lay_rr (firstn k cs0)) = (6 * k)%nat).
  { rewrite lay_rr_length by assumption. rewrite firstn_length. lia. }
  split; [exact Hk|]. split.
  { apply lay_rr_wf. rewrite <- (firstn_skipn k cs0) in Hwf. apply run_wf_app in Hwf. tauto. }
  split; [lia|].
  intros st p Hat Hm. cbn [do_op].
  destruct Hat as (Hp & Hs & Hpend).
  assert (Hn : length (args (tick st)) = (6 * k)%nat).
  { unfold args. cbn [stk tick]. rewrite Hs, !rev_length. unfold vals. rewrite map_length. exact Hlen. }
  rewrite Hn.
  apply drawing_spec with (s := rev (vals (lay_rr (firstn k cs0)))).
  - repeat split; assumption.
  - apply andb_true_iff. split; [apply Nat.leb_le; lia|]. rewrite mod6_mul. reflexivity.
  - exact Hm.
  - rewrite rev_involutive. rewrite rcurves_adv by assumption. rewrite pst_of_tick, Hp. reflexivity.
  - rewrite rev_involutive. rewrite (proj1 (rcurves_pend _ _)). exact Hpend.
Qed.

Definition rr_inv (cs0 pre cs : list ecmd) (code : list enum) (pos : nat) : Prop :=
  cs0 = pre ++ cs /\ code = lay_rr pre /\ pos = length pre /\ forallb is_curve pre = true.

Lemma rr_loop_ok cs0 : run_wf cs0 -> forall cs pre code pos,
  rr_inv cs0 pre cs code pos ->
  Forall (edge_ok cs0) (fst (rr_loop cs code pos)) /\
  (let '(rest, codef, posf) := snd (rr_loop cs code pos) in
   exists pre', rr_inv cs0 pre' rest codef posf /\ (pos <= posf)%nat).
Proof.
  intros Hwf. induction cs as [|c t IH]; intros pre code pos Hinv.
  - cbn. split; [constructor|]. exists pre. split; [exact Hinv|lia].
  - destruct c as [a b|dx dy|a0 a1 a2 a3 a4 a5|k bs];
      try (cbn; split; [constructor|]; exists pre; split; [exact Hinv|lia]).
    cbn [rr_loop]. destruct (fits code 6) eqn:F;
      [|cbn; split; [constructor|]; exists pre; split; [exact Hinv|lia]].
    destruct Hinv as (H0 & Hc & Hp & Hl).
    assert (Hinv' : rr_inv cs0 (pre ++ [ECurve a0 a1 a2 a3 a4 a5]) t (code ++ [a0; a1; a2; a3; a4; a5]) (S pos)).
    { unfold rr_inv. repeat split.
      - rewrite <- app_assoc. exact H0.
      - rewrite lay_rr_app, Hc. reflexivity.
      - rewrite app_length. cbn. lia.
      - rewrite forallb_app, Hl. reflexivity. }
    specialize (IH _ _ _ Hinv').
    destruct (rr_loop t (code ++ [a0; a1; a2; a3; a4; a5]) (S pos)) as [es fin] eqn:E. cbn [fst snd] in *.
    destruct IH as [IH1 IH2]. split.
    + apply Forall_app. split; [|exact IH1].
      match goal with |- Forall _ (if ?c then _ else _) => destruct c end; constructor; [|constructor].
      destruct Hinv' as (H0' & Hc' & Hp' & Hl').
      assert (Hf : firstn (S pos) cs0 = pre ++ [ECurve a0 a1 a2 a3 a4 a5]).
      { rewrite Hp', H0'. apply firstn_pre. }
      rewrite Hc', <- Hf.
      apply rrcurveto_edge_ok; auto.
      * rewrite H0'. rewrite app_length, <- Hp'. lia.
      * rewrite Hf. exact Hl'.
      * apply fits_le in F. rewrite Hc in F. rewrite lay_rr_length in F by assumption. lia.
    + destruct fin as [[rest codef] posf]. destruct IH2 as (pre' & Hi & Hle).
      exists pre'. split; [exact Hi|lia].
Qed.

Lemma rr_loop_advance cs code pos a0 a1 a2 a3 a4 a5 t :
  cs = ECurve a0 a1 a2 a3 a4 a5 :: t -> fits code 6 = true ->
  let '(_, _, posf) := snd (rr_loop cs code pos) in (S pos <= posf)%nat.
Proof.
  intros -> F. cbn [rr_loop]. rewrite F.
  destruct (rr_loop t (code ++ [a0; a1; a2; a3; a4; a5]) (S pos)) as [es [[rest codef] posf]] eqn:E. cbn [snd].
  assert (G : forall cs code pos, let '(_, _, pf) := snd (rr_loop cs code pos) in (pos <= pf)%nat).
  { clear. induction cs as [|c t IH]; intros code pos; [cbn; lia|].
    destruct c; try (cbn; lia). cbn [rr_loop]. destruct (fits code 6); [|cbn; lia].
    specialize (IH (code ++ [a0; a1; a2; a3; a4; a5]) (S pos)).
    destruct (rr_loop t (code ++ [a0; a1; a2; a3; a4; a5]) (S pos)) as [es [[rest codef] posf]]. cbn [snd] in *. lia. }
  specialize (G t (code ++ [a0; a1; a2; a3; a4; a5]) (S pos)). rewrite E in G. cbn [snd] in G. exact G.
Qed.

(* ---------------- rlinecurve and rcurveline ---------------- *)

Lemma firstn_app_exact {A} (a b : list A) n : n = length a -> firstn n (a ++ b) = a.
Proof. intros ->. apply firstn_pre. Qed.

Lemma skipn_app_exact {A} (a b : list A) n : n = length a -> skipn n (a ++ b) = b.
Proof. intros ->. rewrite skipn_app, Nat.sub_diag, skipn_all. reflexivity. Qed.

Lemma rlinecurve_edge_ok cs0 pre a0 a1 a2 a3 a4 a5 rest :
  run_wf cs0 -> cs0 = pre ++ ECurve a0 a1 a2 a3 a4 a5 :: rest ->
  forallb is_line pre = true -> (1 <= length pre)%nat ->
  (2 * length pre + 6 <= t2_max_stack)%nat ->
  edge_ok cs0 (mkEdge (lay_rl pre ++ [a0; a1; a2; a3; a4; a5]) ORlinecurve (S (length pre))).
Proof.
  intros Hwf H0 Hl Hk Hfit. unfold edge_ok. cbn [e_to e_args e_op].
  set (k := length pre) in *.
  assert (Hlen : length (lay_rl pre) = (2 * k)%nat) by (apply lay_rl_length; assumption).
  assert (Hf : firstn (S k) cs0 = pre ++ [ECurve a0 a1 a2 a3 a4 a5]).
  { rewrite H0. change (ECurve a0 a1 a2 a3 a4 a5 :: rest) with ([ECurve a0 a1 a2 a3 a4 a5] ++ rest).
    rewrite app_assoc. apply firstn_app_exact. rewrite app_length. cbn. lia. }
  assert (Hw2 : run_wf (pre ++ [ECurve a0 a1 a2 a3 a4 a5])).
  { rewrite <- Hf. rewrite <- (firstn_skipn (S k) cs0) in Hwf. apply run_wf_app in Hwf. tauto. }
  apply run_wf_app in Hw2. destruct Hw2 as [Hwp Hwc].
  split. { rewrite H0, app_length. cbn [length]. lia. }
  split. { apply Forall_app. split; [apply lay_rl_wf; assumption|]. inversion Hwc; subst. assumption. }
  split. { rewrite app_length, Hlen. cbn [length]. lia. }
  intros st p Hat Hm. cbn [do_op].
  destruct Hat as (Hp & Hs & Hpend).
  assert (Hn : length (args (tick st)) = (2 * k + 6)%nat).
  { unfold args. cbn [stk tick]. rewrite Hs, !rev_length. unfold vals. rewrite map_length, app_length, Hlen.
    cbn [length]. lia. }
  rewrite Hn. rewrite Hf.
  apply drawing_spec with (s := rev (vals (lay_rl pre ++ [a0; a1; a2; a3; a4; a5]))).
  - repeat split; assumption.
  - apply andb_true_iff. split; [apply Nat.leb_le; lia|].
    replace (2 * k + 6)%nat with (2 * (k + 3))%nat by lia. rewrite Nat.even_mul. reflexivity.
  - exact Hm.
  - rewrite rev_involutive, vals_app.
    replace (2 * k + 6 - 6)%nat with (2 * k)%nat by lia.
    rewrite firstn_app_exact, skipn_app_exact by (unfold vals; rewrite map_length; lia).
    cbn [vals map rcurves]. rewrite pst_of_curve, rlines_adv by assumption.
    rewrite pst_of_tick, Hp, adv_app. reflexivity.
  - rewrite rev_involutive, vals_app.
    replace (2 * k + 6 - 6)%nat with (2 * k)%nat by lia.
    rewrite firstn_app_exact, skipn_app_exact by (unfold vals; rewrite map_length; lia).
    rewrite (proj1 (rcurves_pend _ _)), (proj1 (rlines_pend _ _)). exact Hpend.
Qed.

Lemma rcurveline_edge_ok cs0 pre dx dy rest :
  run_wf cs0 -> cs0 = pre ++ ELine dx dy :: rest ->
  forallb is_curve pre = true -> (1 <= length pre)%nat ->
  (6 * length pre + 2 <= t2_max_stack)%nat ->
  edge_ok cs0 (mkEdge (lay_rr pre ++ [dx; dy]) ORcurveline (S (length pre))).
Proof.
  intros Hwf H0 Hl Hk Hfit. unfold edge_ok. cbn [e_to e_args e_op].
  set (k := length pre) in *.
  assert (Hlen : length (lay_rr pre) = (6 * k)%nat) by (apply lay_rr_length; assumption).
  assert (Hf : firstn (S k) cs0 = pre ++ [ELine dx dy]).
  { rewrite H0. change (ELine dx dy :: rest) with ([ELine dx dy] ++ rest).
    rewrite app_assoc. apply firstn_app_exact. rewrite app_length. cbn. lia. }
  assert (Hw2 : run_wf (pre ++ [ELine dx dy])).
  { rewrite <- Hf. rewrite <- (firstn_skipn (S k) cs0) in Hwf. apply run_wf_app in Hwf. tauto. }
  apply run_wf_app in Hw2. destruct Hw2 as [Hwp Hwc].
  split. { rewrite H0, app_length. cbn [length]. lia. }
  split. { apply Forall_app. split; [apply lay_rr_wf; assumption|]. inversion Hwc; subst. assumption. }
  split. { rewrite app_length, Hlen. cbn [length]. lia. }
  intros st p Hat Hm. cbn [do_op].
  destruct Hat as (Hp & Hs & Hpend).
  assert (Hn : length (args (tick st)) = (6 * k + 2)%nat).
  { unfold args. cbn [stk tick]. rewrite Hs, !rev_length. unfold vals. rewrite map_length, app_length, Hlen.
    cbn [length]. lia. }
  rewrite Hn. rewrite Hf.
  apply drawing_spec with (s := rev (vals (lay_rr pre ++ [dx; dy]))).
  - repeat split; assumption.
  - apply andb_true_iff. split; [apply Nat.leb_le; lia|].
    replace (6 * k + 2 - 2)%nat with (6 * k)%nat by lia. rewrite mod6_mul. reflexivity.
  - exact Hm.
  - rewrite rev_involutive, vals_app.
    replace (6 * k + 2 - 2)%nat with (6 * k)%nat by lia.
    rewrite firstn_app_exact, skipn_app_exact by (unfold vals; rewrite map_length; lia).
    cbn [vals map rlines]. rewrite pst_of_line, rcurves_adv by assumption.
    rewrite pst_of_tick, Hp, adv_app. reflexivity.
  - rewrite rev_involutive, vals_app.
    replace (6 * k + 2 - 2)%nat with (6 * k)%nat by lia.
    rewrite firstn_app_exact, skipn_app_exact by (unfold vals; rewrite map_length; lia).
    rewrite (proj1 (rlines_pend _ _)), (proj1 (rcurves_pend _ _)). exact Hpend.
Qed.

(* ---------------- hlineto / vlineto ---------------- *)

Fixpoint lay_alt (chk : bool) (pre : list ecmd) : list enum :=
  match pre with
  | ELine dx dy :: t => (if chk then dx else dy) :: lay_alt (negb chk) t
  | _ => []
  end.

(* every line of the run is axis-aligned, alternating; chk = true: horizontal first *)
Fixpoint alt_ok (chk : bool) (pre : list ecmd) : bool :=
  match pre with
  | [] => true
  | ELine dx dy :: t => is_zero (if chk then dy else dx) && alt_ok (negb chk) t
  | _ => false
  end.

Lemma lay_alt_length : forall pre chk, alt_ok chk pre = true -> length (lay_alt chk pre) = length pre.
Proof.
  induction pre as [|c t IH]; intros chk H; [reflexivity|].
  destruct c; try discriminate. cbn [alt_ok] in H. apply andb_true_iff in H.
  cbn [lay_alt length]. rewrite IH by tauto. reflexivity.
Qed.

Lemma lay_alt_wf : forall pre chk, run_wf pre -> Forall wf_enum (lay_alt chk pre).
Proof.
  induction pre as [|c t IH]; intros chk H; [constructor|]. inversion H; subst.
  destruct c; try constructor. 
  - cbn [cmd_enums] in H2. inversion H2; subst. inversion H5; subst. destruct chk; assumption.
  - apply IH. assumption.
Qed.

Lemma altlines_adv : forall pre chk st,
  alt_ok chk pre = true ->
  pst_of (altlines chk st (vals (lay_alt chk pre))) = adv (pst_of st) pre.
Proof.
  induction pre as [|c t IH]; intros chk st H; [reflexivity|].
  destruct c; try discriminate. cbn [alt_ok] in H. apply andb_true_iff in H. destruct H as [Hz Ht].
  cbn [lay_alt vals map altlines].
  change (map ev (lay_alt (negb chk) t)) with (vals (lay_alt (negb chk) t)).
  rewrite IH by assumption. unfold is_zero in Hz. apply Z.eqb_eq in Hz.
  destruct chk; rewrite pst_of_line; cbn [adv fold_left app_draw]; rewrite Hz; reflexivity.
Qed.

Lemma altlines_pend h st a : pend (altlines h st a) = pend st.
Proof. pose proof (keep_altlines a h st) as K. unfold keep in K. tauto. Qed.

Lemma altline_edge_ok cs0 pre rest chk :
  run_wf cs0 -> cs0 = pre ++ rest -> alt_ok chk pre = true -> (1 <= length pre)%nat ->
  (length pre <= t2_max_stack)%nat ->
  edge_ok cs0 (mkEdge (lay_alt chk pre) (if chk then OHlineto else OVlineto) (length pre)).
Proof.
  intros Hwf H0 Hok Hk Hfit. unfold edge_ok. cbn [e_to e_args e_op].
  assert (Hlen : length (lay_alt chk pre) = length pre) by (apply lay_alt_length; assumption).
  assert (Hf : firstn (length pre) cs0 = pre) by (rewrite H0; apply firstn_pre).
  split. { rewrite H0, app_length. lia. }
  split. { apply lay_alt_wf. rewrite H0 in Hwf. apply run_wf_app in Hwf. tauto. }
  split; [lia|].
  intros st p Hat Hm.
  destruct Hat as (Hp & Hs & Hpend).
  assert (Hn : length (args (tick st)) = length pre).
  { unfold args. cbn [stk tick]. rewrite Hs, !rev_length. unfold vals. rewrite map_length. exact Hlen. }
  rewrite Hf.
  destruct chk; cbn [do_op]; rewrite Hn.
  - apply drawing_spec with (s := rev (vals (lay_alt true pre)));
      try (repeat split; assumption); try exact Hm; try (apply Nat.leb_le; lia);
      rewrite rev_involutive.
    + rewrite altlines_adv by assumption. rewrite pst_of_tick, Hp. reflexivity.
    + rewrite altlines_pend. exact Hpend.
  - apply drawing_spec with (s := rev (vals (lay_alt false pre)));
      try (repeat split; assumption); try exact Hm; try (apply Nat.leb_le; lia);
      rewrite rev_involutive.
    + rewrite altlines_adv by assumption. rewrite pst_of_tick, Hp. reflexivity.
    + rewrite altlines_pend. exact Hpend.
Qed.

Lemma alt_loop_spec : forall cs chk code pos,
  exists pre rest, cs = pre ++ rest /\ alt_ok chk pre = true /\
    alt_loop chk cs code pos = (code ++ lay_alt chk pre, (pos + length pre)%nat) /\
    (pre <> [] -> (length code + length pre <= t2_max_stack)%nat).
Proof.
  induction cs as [|c t IH]; intros chk code pos.
  - exists [], []. cbn. rewrite app_nil_r, Nat.add_0_r. repeat split; congruence.
  - destruct c as [a b|dx dy|a0 a1 a2 a3 a4 a5|k bs];
      try (match goal with |- exists pre rest, ?c :: t = _ /\ _ => exists [], (c :: t) end;
           cbn; rewrite app_nil_r, Nat.add_0_r; repeat split; congruence).
    cbn [alt_loop]. destruct (fits code 1) eqn:F;
      [|exists [], (ELine dx dy :: t); cbn; rewrite app_nil_r, Nat.add_0_r; repeat split; congruence].
    destruct (negb (is_zero (if chk then dy else dx))) eqn:Z;
      [exists [], (ELine dx dy :: t); cbn; rewrite app_nil_r, Nat.add_0_r; repeat split; congruence|].
    apply negb_false_iff in Z.
    destruct (IH (negb chk) (code ++ [if chk then dx else dy]) (S pos)) as (pre & rest & H0 & Hok & Hr & Hl).
    exists (ELine dx dy :: pre), rest. repeat split.
    + cbn [app]. rewrite H0. reflexivity.
    + cbn [alt_ok]. rewrite Z, Hok. reflexivity.
    + rewrite Hr. cbn [lay_alt length]. rewrite <- app_assoc. cbn [app]. f_equal. lia.
    + intros _. apply fits_le in F. destruct pre as [|q pre'].
      * cbn [length]. lia.
      * specialize (Hl ltac:(discriminate)). rewrite app_length in Hl. cbn [length] in *. lia.
Qed.

Lemma alt_edge_ok cs0 chk :
  run_wf cs0 ->
  Forall (edge_ok cs0) (alt_edge chk (if chk then OHlineto else OVlineto) cs0).
Proof.
  intros Hwf. unfold alt_edge.
  destruct (alt_loop_spec cs0 chk [] 0) as (pre & rest & H0 & Hok & Hr & Hl).
  rewrite Hr. cbn [app Nat.add].
  destruct (lay_alt chk pre) as [|e l] eqn:E; [constructor|].
  constructor; [|constructor]. rewrite <- E.
  assert (Hne : pre <> []) by (intros ->; discriminate).
  specialize (Hl Hne). cbn in Hl.
  apply altline_edge_ok with (rest := rest); auto.
  destruct pre; [congruence|cbn; lia].
Qed.
