(* C04/Proofs_lines.v — the edges AppendEdges offers at a lineto command
   (rlineto, rlinecurve, hlineto, vlineto) draw exactly the commands they skip. *)
From Coq Require Import List NArith ZArith Bool Arith Lia.
From C05 Require Import Model Proofs.
From C04 Require Import Model Proofs_num Proofs_exec.
Import ListNotations.
Local Open Scope Z_scope.

(* every operand of a command list decodes to its value *)
Definition cmd_enums (c : ecmd) : list enum :=
  match c with
  | EMove a b | ELine a b => [a; b]
  | ECurve a b c d e f => [a; b; c; d; e; f]
  | EMask _ _ => []
  end.
Definition run_wf (cs : list ecmd) : Prop := Forall (fun c => Forall wf_enum (cmd_enums c)) cs.

Lemma run_wf_app a b : run_wf (a ++ b) <-> run_wf a /\ run_wf b.
Proof. unfold run_wf. apply Forall_app. Qed.

(* an edge of the run [cs0] starting at its first command *)
Definition edge_ok (cs0 : list ecmd) (e : edge) : Prop :=
  (1 <= e_to e <= length cs0)%nat /\ Forall wf_enum (e_args e) /\
  (length (e_args e) <= t2_max_stack)%nat /\
  forall st p, at_stk st p (rev (vals (e_args e))) -> p_moved p = true ->
    exists st', do_op (e_op e) (tick st) = PCont st' /\ at_stk st' (adv p (firstn (e_to e) cs0)) [].

Definition is_line (c : ecmd) : bool := match c with ELine _ _ => true | _ => false end.
Definition is_curve (c : ecmd) : bool := match c with ECurve _ _ _ _ _ _ => true | _ => false end.

(* ---------------- rlineto ---------------- *)

Definition lay_rl (pre : list ecmd) : list enum :=
  flat_map (fun c => match c with ELine dx dy => [dx; dy] | _ => [] end) pre.

Lemma lay_rl_length pre : forallb is_line pre = true -> length (lay_rl pre) = (2 * length pre)%nat.
Proof.
  induction pre as [|c t IH]; [reflexivity|]. cbn [forallb]. intros H. apply andb_true_iff in H.
  destruct H as [Hc Ht]. destruct c; try discriminate. cbn [lay_rl flat_map app length] in *.
  unfold lay_rl in IH. rewrite IH by assumption. lia.
Qed.

Lemma lay_rl_wf pre : run_wf pre -> Forall wf_enum (lay_rl pre).
Proof.
  induction pre as [|c t IH]; intros H; [constructor|]. inversion H; subst.
  unfold lay_rl. cbn [flat_map]. apply Forall_app. split; [|apply IH; assumption].
  destruct c; cbn [cmd_enums] in *; auto.
Qed.

Lemma lay_rl_app a b : lay_rl (a ++ b) = lay_rl a ++ lay_rl b.
Proof. unfold lay_rl. apply flat_map_app. Qed.

Lemma rlines_adv : forall pre st rest,
  forallb is_line pre = true ->
  rlines st (vals (lay_rl pre) ++ rest) = rlines_tail (fold_left (fun s c => match c with ELine dx dy => line s (ev dx) (ev dy) | _ => s end) pre st) rest
with rlines_tail_dummy : True.
Proof. Abort.
