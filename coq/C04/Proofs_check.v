(* C04/Proofs_check.v — the executable checker for emitted charstrings is
   sound: what it accepts is a charstring the mirror can emit. *)
From Coq Require Import List NArith ZArith Bool Arith Lia.
From C05 Require Import Model.
From C04 Require Import Model.
Import ListNotations.

Lemma strip_prefix_some : forall p l r, strip_prefix p l = Some r -> l = p ++ r.
Proof.
  induction p as [|a p IH]; intros l r H; cbn [strip_prefix] in H.
  - inversion H; reflexivity.
  - destruct l as [|b l]; [discriminate|]. destruct (a =? b)%N eqn:E; [|discriminate].
    apply N.eqb_eq in E. subst b. cbn [app]. f_equal. apply IH. exact H.
Qed.

Lemma walk_sound : forall fuel run from code rest,
  In rest (walk fuel run from code) ->
  exists c1, code = c1 ++ rest /\ subpath_code run from c1.
Proof.
  induction fuel as [|f IH]; intros run from code rest H; [destruct H|].
  cbn [walk] in H. destruct (from =? length run)%nat eqn:E.
  - apply Nat.eqb_eq in E. subst from. destruct H as [<-|[]]. exists []. split; [reflexivity|constructor].
  - destruct (M_t2edges run from) as [es|] eqn:Em; [|destruct H].
    apply in_flat_map in H. destruct H as (e & Hin & H).
    destruct (from <? e_to e)%nat; [|destruct H].
    destruct (strip_prefix (edge_bytes e) code) as [r'|] eqn:Es; [|destruct H].
    apply strip_prefix_some in Es. destruct (IH _ _ _ _ H) as (c1 & -> & Hs).
    exists (edge_bytes e ++ c1). split; [rewrite Es, app_assoc; reflexivity|].
    eapply sp_edge; eassumption.
Qed.

Lemma take_run_nonempty c t run rest :
  is_draw_cmd c = true -> take_run (c :: t) = (run, rest) -> run <> [].
Proof.
  intros Hd H. cbn [take_run] in H. rewrite Hd in H. destruct (take_run t) as [r rs].
  inversion H; subst. discriminate.
Qed.

Lemma check_paths_sound : forall fuel cs code, check_paths fuel cs code = true -> paths_code cs code.
Proof.
  induction fuel as [|f IH]; intros cs code H; [discriminate|].
  cbn [check_paths] in H. destruct cs as [|c t].
  - destruct (strip_prefix (op_bytes OEndchar) code) as [[|x r]|] eqn:E; try discriminate.
    apply strip_prefix_some in E. rewrite app_nil_r in E. subst code. constructor.
  - destruct c as [dx dy|dx dy|a0 a1 a2 a3 a4 a5|k bs].
    + destruct (strip_prefix (move_bytes dx dy) code) as [r|] eqn:E; [|discriminate].
      apply strip_prefix_some in E. subst code. constructor. apply IH. exact H.
    + destruct (take_run (ELine dx dy :: t)) as [run rest] eqn:Et.
      apply existsb_exists in H. destruct H as (r & Hin & Hr).
      destruct (walk_sound _ _ _ _ _ Hin) as (c1 & -> & Hs).
      eapply pc_run; [exact Et|eapply take_run_nonempty; [|exact Et]; reflexivity|exact Hs|apply IH; exact Hr].
    + destruct (take_run (ECurve a0 a1 a2 a3 a4 a5 :: t)) as [run rest] eqn:Et.
      apply existsb_exists in H. destruct H as (r & Hin & Hr).
      destruct (walk_sound _ _ _ _ _ Hin) as (c1 & -> & Hs).
      eapply pc_run; [exact Et|eapply take_run_nonempty; [|exact Et]; reflexivity|exact Hs|apply IH; exact Hr].
    + destruct (strip_prefix (op_bytes (if k then OCntrmask else OHintmask) ++ bs) code) as [r|] eqn:E; [|discriminate].
      apply strip_prefix_some in E. subst code. rewrite <- app_assoc. constructor. apply IH. exact H.
Qed.

Lemma check_charstring_sound g dflt nom code :
  check_charstring g dflt nom code = true -> emits g dflt nom code.
Proof.
  unfold check_charstring, emits. intros H.
  destruct (enc_header g dflt nom) as [hdr|] eqn:Eh; [|discriminate].
  destruct (enc_args 0 0 (g_cmds g)) as [ecs|] eqn:Ea; [|discriminate].
  destruct (strip_prefix hdr code) as [body|] eqn:Es; [|discriminate].
  apply strip_prefix_some in Es. apply check_paths_sound in H.
  exists hdr, ecs, body. repeat split; assumption.
Qed.
