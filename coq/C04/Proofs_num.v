(* C04/Proofs_num.v — encodeNumber / encodeInt emit operands that the
   specification decodes to exactly the requested value. *)
From Coq Require Import List NArith ZArith Bool Arith Lia.
From Coq Require Import ZifyBool ZifyNat ZifyN.
From C05 Require Import Model.
From C04 Require Import Model.
Import ListNotations.
Local Open Scope Z_scope.

Ltac Zify.zify_post_hook ::= Z.div_mod_to_equations.

(* an encoded operand decodes to the value the encoder reports *)
Definition wf_enum (e : enum) : Prop :=
  forall rest, lex_num (ec e ++ rest) = NumOk (ev e) rest.

Lemma N_of_to (z : Z) : 0 <= z -> Z.of_N (Z.to_N z) = z.
Proof. intros. apply Z2N.id. assumption. Qed.

Lemma leb_N_Z (a : Z) (k : N) : 0 <= a -> (k <=? Z.to_N a)%N = (Z.of_N k <=? a).
Proof.
  intros H. destruct (Z.leb_spec (Z.of_N k) a); [apply N.leb_le|apply N.leb_gt]; lia.
Qed.

Lemma leb_Z_N (a : Z) (k : N) : 0 <= a -> (Z.to_N a <=? k)%N = (a <=? Z.of_N k).
Proof.
  intros H. destruct (Z.leb_spec a (Z.of_N k)); [apply N.leb_le|apply N.leb_gt]; lia.
Qed.

Lemma eqb_Z_N (a : Z) (k : N) : 0 <= a -> (Z.to_N a =? k)%N = (a =? Z.of_N k).
Proof.
  intros H. destruct (Z.eqb_spec a (Z.of_N k)); [apply N.eqb_eq|apply N.eqb_neq]; lia.
Qed.

Lemma enc_int_decodes (i : Z) (rest : list N) :
  -32768 <= i <= 32767 -> lex_num (enc_int i ++ rest) = NumOk (i * SC) rest.
Proof.
  intros Hr. unfold enc_int.
  destruct ((-107 <=? i) && (i <=? 107)) eqn:E1.
  { apply andb_true_iff in E1. rewrite Z.leb_le, Z.leb_le in E1.
    cbn [app lex_num].
    rewrite leb_N_Z, leb_Z_N by lia. cbn [Z.of_N].
    replace (32 <=? i + 139) with true by (symmetry; apply Z.leb_le; lia).
    replace (i + 139 <=? 246) with true by (symmetry; apply Z.leb_le; lia).
    cbn [andb]. rewrite N_of_to by lia. f_equal. unfold SC. lia. }
  destruct ((107 <? i) && (i <=? 1131)) eqn:E2.
  { apply andb_true_iff in E2. rewrite Z.ltb_lt, Z.leb_le in E2.
    cbn [app lex_num].
    assert (H0 : 0 <= (i - 108) / 256 <= 3) by lia.
    rewrite !leb_N_Z, !leb_Z_N by lia. cbn [Z.of_N].
    replace (32 <=? (i - 108) / 256 + 247) with true by (symmetry; apply Z.leb_le; lia).
    replace ((i - 108) / 256 + 247 <=? 246) with false by (symmetry; apply Z.leb_gt; lia).
    replace (247 <=? (i - 108) / 256 + 247) with true by (symmetry; apply Z.leb_le; lia).
    replace ((i - 108) / 256 + 247 <=? 250) with true by (symmetry; apply Z.leb_le; lia).
    cbn [andb]. rewrite !N_of_to by lia. f_equal. unfold SC. lia. }
  destruct ((i <? -107) && (-1131 <=? i)) eqn:E3.
  { apply andb_true_iff in E3. rewrite Z.ltb_lt, Z.leb_le in E3.
    cbn [app lex_num].
    assert (H0 : 0 <= (-108 - i) / 256 <= 3) by lia.
    rewrite !leb_N_Z, !leb_Z_N by lia. cbn [Z.of_N].
    replace (32 <=? (-108 - i) / 256 + 251) with true by (symmetry; apply Z.leb_le; lia).
    replace ((-108 - i) / 256 + 251 <=? 246) with false by (symmetry; apply Z.leb_gt; lia).
    replace (247 <=? (-108 - i) / 256 + 251) with true by (symmetry; apply Z.leb_le; lia).
    replace ((-108 - i) / 256 + 251 <=? 250) with false by (symmetry; apply Z.leb_gt; lia).
    replace (251 <=? (-108 - i) / 256 + 251) with true by (symmetry; apply Z.leb_le; lia).
    replace ((-108 - i) / 256 + 251 <=? 254) with true by (symmetry; apply Z.leb_le; lia).
    cbn [andb]. rewrite !N_of_to by lia. f_equal. unfold SC. lia. }
  cbn [app lex_num]. cbn [N.leb N.eqb N.compare Pos.compare Pos.compare_cont Pos.eqb andb].
  assert (H1 : 0 <= (i / 256) mod 256 < 256) by lia.
  assert (H2 : 0 <= i mod 256 < 256) by lia.
  rewrite !N_of_to by lia.
  f_equal. unfold SC. cbv zeta.
  match goal with |- context [?a <? 32768] => destruct (Z.ltb_spec a 32768) end; lia.
Qed.

Lemma fixed_decodes (x : Z) (rest : list N) :
  in_range x = true ->
  let u := x mod 4294967296 in
  lex_num ([255%N; Z.to_N (u / 16777216); Z.to_N ((u / 65536) mod 256);
            Z.to_N ((u / 256) mod 256); Z.to_N (u mod 256)] ++ rest) = NumOk x rest.
Proof.
  intros Hr u. unfold in_range, FIX_MIN, FIX_MAX in Hr.
  apply andb_true_iff in Hr. rewrite !Z.leb_le in Hr.
  cbn [app lex_num]. cbn [N.leb N.eqb N.compare Pos.compare Pos.compare_cont Pos.eqb andb].
  assert (Hu : 0 <= u < 4294967296) by (unfold u; lia).
  rewrite !N_of_to by lia.
  f_equal. cbv zeta.
  match goal with |- context [?a <? 2147483648] => destruct (Z.ltb_spec a 2147483648) end;
    unfold u in *; lia.
Qed.

(* encodeNumber on the grid, inside the 16.16 range: the reported value is the
   requested one, and the emitted bytes decode to it under the specification *)
Lemma enc_number_exact (x : Z) :
  in_range x = true ->
  exists code, enc_number x = Some (x, code) /\ wf_enum (x, code).
Proof.
  intros Hr. unfold enc_number. rewrite Hr.
  destruct (x mod SC =? 0) eqn:E.
  - eexists; split; [reflexivity|]. intros rest. cbn [ec ev fst snd].
    apply Z.eqb_eq in E. unfold SC in *.
    unfold in_range, FIX_MIN, FIX_MAX in Hr. apply andb_true_iff in Hr. rewrite !Z.leb_le in Hr.
    replace x with (x / 65536 * SC) at 2 by (unfold SC; lia).
    apply enc_int_decodes. lia.
  - eexists; split; [reflexivity|]. intros rest. cbn [ec ev fst snd].
    apply fixed_decodes. exact Hr.
Qed.

Lemma enc_number_some (x : Z) (e : enum) :
  enc_number x = Some e -> ev e = x /\ wf_enum e /\ in_range x = true.
Proof.
  intros H. destruct (in_range x) eqn:Hr.
  - destruct (enc_number_exact x Hr) as (code & Hc & Hw). rewrite Hc in H. inversion H; subst.
    repeat split; auto.
  - unfold enc_number in H. rewrite Hr in H. discriminate.
Qed.

(* outside the range the Go code converts a float64 out of range: not modelled *)
Lemma enc_number_none (x : Z) : in_range x = false -> enc_number x = None.
Proof. intros H. unfold enc_number. rewrite H. reflexivity. Qed.
