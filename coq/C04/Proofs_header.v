(* C04/Proofs_header.v — the width and stem header of encodeCharString. *)
From Coq Require Import List NArith ZArith Bool Arith Lia.
From C05 Require Import Model Proofs.
From C04 Require Import Model Proofs_num Proofs_exec Proofs_lines Proofs_curves Proofs_main Proofs_body.
Import ListNotations.
Local Open Scope Z_scope.

(* deltas of successive edges, decoded again, give the edges back *)
Lemma stem_roundtrip : forall n edges prev d,
  (length edges <= n)%nat -> Nat.even (length edges) = true ->
  stem_deltas prev edges = Some d ->
  stem_edges prev (vals d) = edges /\ Forall wf_enum d /\ length d = length edges.
Proof.
  induction n; intros edges prev d Hn He H.
  - destruct edges; [|cbn in Hn; lia]. cbn in H. inversion H; subst. repeat split. constructor.
  - destruct edges as [|x [|y t]].
    + cbn in H. inversion H; subst. repeat split. constructor.
    + cbn in He. discriminate.
    + cbn [stem_deltas] in H.
      apply obind_some in H. destruct H as (d1 & H1 & H).
      apply obind_some in H. destruct H as (r1 & Hr1 & H). inversion H; subst; clear H.
      cbn [stem_deltas] in Hr1.
      apply obind_some in Hr1. destruct Hr1 as (d2 & H2 & Hr).
      apply obind_some in Hr. destruct Hr as (r & Hr & H). inversion H; subst; clear H.
      apply enc_number_some in H1. destruct H1 as (E1 & W1 & _).
      apply enc_number_some in H2. destruct H2 as (E2 & W2 & _).
      destruct (IHn t y r) as (IH1 & IH2 & IH3); [cbn in Hn; lia|exact He|exact Hr|].
      cbn [vals map stem_edges]. change (map ev r) with (vals r).
      replace (prev + ev d1) with x by lia. replace (x + ev d2) with y by lia.
      rewrite IH1. repeat split; [repeat constructor; assumption|cbn [length]; lia].
Qed.

Lemma stem_edges_even : forall n a prev, (length a <= n)%nat -> Nat.even (length a) = true ->
  length (stem_edges prev a) = length a.
Proof.
  induction n; intros a prev Hn He.
  - destruct a; [reflexivity|cbn in Hn; lia].
  - destruct a as [|x [|y t]]; [reflexivity|discriminate|].
    cbn [stem_edges length]. rewrite IHn; [reflexivity|cbn in Hn; lia|exact He].
Qed.

(* the fields a stem operator changes *)
Definition p_stem (vertical : bool) (p : pst) (w : option Z) (e : list Z) : pst :=
  mkP true w true (if vertical then p_hs p else p_hs p ++ e) (if vertical then p_vs p ++ e else p_vs p)
      (p_cmds p) (p_px p) (p_py p) (p_moved p).

Definition stem_op (vertical hm : bool) : oper :=
  match vertical, hm with
  | false, false => OHstem | false, true => OHstemhm | true, false => OVstem | true, true => OVstemhm
  end.

Section HDR.
  Variable subrs gsubrs : subrtab.
  Variable call : state -> list N -> res.
  Notation go := (go subrs gsubrs call).

  (* one chunk with its operator; [wl] is the pending width operand, if any *)
  Lemma chunk_exec st p (wl : list Z) vertical hm chunk d rest :
    at_stk st p wl -> (wl = [] \/ (exists x, wl = [x] /\ p_wset p = false)) ->
    p_hopen p = true ->
    stem_deltas 0 chunk = Some d -> Nat.even (length chunk) = true -> (2 <= length chunk)%nat ->
    (length wl + length chunk <= t2_max_stack)%nat ->
    exists st', go st (args_bytes d ++ op_bytes (stem_op vertical hm) ++ rest) = go st' rest /\
      at_stk st' (p_stem vertical p (match wl with [x] => Some x | _ => p_width p end) chunk) [].
  Proof.
    intros Hat Hw Hho Hd He Hl2 Hfit.
    destruct (stem_roundtrip (length chunk) chunk 0 d (le_n _) He Hd) as (Hrt & Hwf & Hdl).
    destruct (go_push_args subrs gsubrs call d st p wl (op_bytes (stem_op vertical hm) ++ rest) Hat Hwf)
      as (st1 & Hg1 & Hat1); [lia|].
    destruct Hat1 as (Hp1 & Hs1 & Hpend1).
    assert (Hrev : rev wl = wl) by (destruct Hw as [->|(x & -> & _)]; reflexivity).
    assert (Hargs : args (tick st1) = wl ++ vals d).
    { unfold args. cbn [stk tick]. rewrite Hs1, rev_app_distr, rev_involutive, Hrev. reflexivity. }
    assert (Hvl : length (vals d) = length chunk) by (unfold vals; rewrite map_length; exact Hdl).
    assert (Hop : do_op (stem_op vertical hm) (tick st1) = do_stem vertical (tick st1))
      by (destruct vertical, hm; reflexivity).
    assert (Hd1 : exists st', do_op (stem_op vertical hm) (tick st1) = PCont st' /\
              at_stk st' (p_stem vertical p (match wl with [x] => Some x | _ => p_width p end) chunk) []).
    { rewrite Hop. unfold do_stem. rewrite Hargs.
      unfold pst_of in Hp1. destruct p as [pw pwd pho phs pvs pcm ppx ppy pmv].
      injection Hp1 as <- <- <- <- <- <- <- <- <-. cbn [p_hopen p_wset p_width] in *.
      replace (length (wl ++ vals d) <? 2)%nat with false
        by (symmetry; apply Nat.ltb_ge; rewrite app_length; lia).
      cbn [hopen tick]. rewrite Hho. cbn [negb].
      unfold take_width.
      destruct Hw as [->|(x & -> & Hws)].
      - cbn [app]. replace (Nat.odd (length (vals d))) with false
          by (rewrite Hvl, <- Nat.negb_even, He; reflexivity).
        eexists. split; [reflexivity|].
        rewrite Hrt.
        destruct vertical; (split; [reflexivity|split; [reflexivity|exact Hpend1]]).
      - cbn [app length]. replace (Nat.odd (S (length (vals d)))) with true
          by (rewrite Nat.odd_succ, Hvl, He; reflexivity).
        cbn [wset tick]. rewrite Hws.
        eexists. split; [reflexivity|].
        rewrite Hrt.
        destruct vertical; (split; [reflexivity|split; [reflexivity|exact Hpend1]]). }
    destruct Hd1 as (st' & Hd1 & Hat').
    exists st'. split; [|exact Hat'].
    rewrite Hg1. apply go_oper with (p := p) (s := rev (vals d) ++ wl); [repeat split; assumption|exact Hd1].
  Qed.

  Lemma p_stem_twice v p w c1 c2 :
    p_stem v (p_stem v p w c1) w c2 = p_stem v p w (c1 ++ c2).
  Proof. unfold p_stem. destruct v; cbn; rewrite <- ?app_assoc; reflexivity. Qed.

  (* all chunks, each with its operator *)
  Lemma chunks_exec vertical hm : forall fuel stems extra bytes st p (wl : list Z) rest,
    stem_chunks fuel extra stems (stem_op vertical hm) false = Some bytes ->
    Nat.even (length stems) = true -> extra = length wl ->
    at_stk st p wl -> (wl = [] \/ (exists x, wl = [x] /\ p_wset p = false)) ->
    p_hopen p = true ->
    exists st', go st (bytes ++ rest) = go st' rest /\
      match stems with
      | [] => at_stk st' p wl
      | _ => at_stk st' (p_stem vertical p (match wl with [x] => Some x | _ => p_width p end) stems) []
      end.
  Proof.
    induction fuel as [|f IH]; intros stems extra bytes st p wl rest H He Hex Hat Hw Hho.
    - cbn in H. destruct stems; [|discriminate]. inversion H; subst. exists st. split; [reflexivity|exact Hat].
    - cbn [stem_chunks] in H. destruct stems as [|s0 stems'] eqn:Est.
      { inversion H; subst. exists st. split; [reflexivity|exact Hat]. }
      assert (Hne : stems <> []) by (rewrite Est; discriminate).
      rewrite <- Est in *. clear Est s0 stems'.
      set (L := length stems) in *.
      apply Nat.even_spec in He. destruct He as (m & Hm).
      assert (Hl1 : (length wl <= 1)%nat) by (destruct Hw as [->|(x & -> & _)]; cbn; lia).
      set (k := Nat.min ((enc_max_stack - extra) / 2) (L / 2)) in *.
      assert (HL2 : (L / 2 = m)%nat) by (rewrite Hm, Nat.mul_comm; apply Nat.div_mul; lia).
      assert (Hm1 : (1 <= m)%nat).
      { destruct stems; [congruence|]. unfold L in Hm. cbn [length] in Hm. lia. }
      assert (Hcap : (2 * ((enc_max_stack - extra) / 2) <= enc_max_stack - extra)%nat)
        by (apply Nat.mul_div_le; lia).
      assert (Hcap2 : (23 <= (enc_max_stack - extra) / 2)%nat).
      { unfold enc_max_stack. subst extra. apply Nat.div_le_lower_bound; lia. }
      assert (Hk1 : (1 <= k)%nat) by (unfold k; rewrite HL2; lia).
      assert (Hk2 : (2 * k <= L)%nat) by (unfold k; rewrite HL2; lia).
      assert (Hk3 : (2 * k + extra <= enc_max_stack)%nat) by (unfold k, enc_max_stack in *; lia).
      apply obind_some in H. destruct H as (d & Hd & H).
      apply obind_some in H. destruct H as (r & Hr & H).
      cbn [andb] in H. inversion H; subst bytes; clear H.
      assert (Hcl : length (firstn (2 * k) stems) = (2 * k)%nat) by (rewrite firstn_length; fold L; lia).
      destruct (chunk_exec st p wl vertical hm (firstn (2 * k) stems) d (r ++ rest) Hat Hw Hho Hd)
        as (st1 & Hg1 & Hat1).
      { rewrite Hcl, Nat.even_mul. reflexivity. }
      { rewrite Hcl. lia. }
      { rewrite Hcl. unfold t2_max_stack, enc_max_stack in *. lia. }
      set (w' := match wl with [x] => Some x | _ => p_width p end) in *.
      destruct (IH (skipn (2 * k) stems) 0%nat r st1 (p_stem vertical p w' (firstn (2 * k) stems)) [] rest Hr)
        as (st2 & Hg2 & Hat2).
      { rewrite skipn_length. fold L. rewrite Hm.
        replace (2 * m - 2 * k)%nat with (2 * (m - k))%nat by lia. rewrite Nat.even_mul. reflexivity. }
      { reflexivity. }
      { exact Hat1. }
      { left; reflexivity. }
      { reflexivity. }
      exists st2. split.
      { rewrite <- !app_assoc. rewrite Hg1. exact Hg2. }
      destruct stems as [|s0 stems'] eqn:Est; [congruence|]. rewrite <- Est in *.
      destruct (skipn (2 * k) stems) as [|q qs] eqn:Esk.
      + assert (Hall : firstn (2 * k) stems = stems).
        { rewrite <- (firstn_skipn (2 * k) stems) at 2. rewrite Esk, app_nil_r. reflexivity. }
        rewrite Hall in Hat2. exact Hat2.
      + cbn [p_stem p_width] in Hat2. rewrite <- Esk in Hat2.
        change (p_stem vertical (p_stem vertical p w' (firstn (2 * k) stems)) w' (skipn (2 * k) stems))
          with (p_stem vertical (p_stem vertical p w' (firstn (2 * k) stems)) w' (skipn (2 * k) stems)) in Hat2.
        rewrite p_stem_twice, firstn_skipn in Hat2. exact Hat2.
  Qed.

  Lemma stem_chunks_nil fuel extra op omit : stem_chunks fuel extra [] op omit = Some [].
  Proof. destruct fuel; reflexivity. Qed.

  (* the vstem chunks when the last operator is omitted: its operands stay on
     the stack for the mask operator that follows *)
  Lemma chunks_omit_exec hm : forall fuel stems extra bytes st p (wl : list Z) rest,
    stem_chunks fuel extra stems (stem_op true hm) true = Some bytes ->
    stems <> [] -> Nat.even (length stems) = true -> extra = length wl ->
    at_stk st p wl -> (wl = [] \/ (exists x, wl = [x] /\ p_wset p = false)) ->
    p_hopen p = true ->
    exists st' pf dv wl',
      go st (bytes ++ rest) = go st' rest /\ at_stk st' pf (rev (wl' ++ dv)) /\
      p_hs pf = p_hs p /\ p_vs pf ++ stem_edges 0 dv = p_vs p ++ stems /\
      p_cmds pf = p_cmds p /\ p_px pf = p_px p /\ p_py pf = p_py p /\ p_moved pf = p_moved p /\
      p_hopen pf = true /\ Nat.even (length dv) = true /\ dv <> [] /\
      (length (wl' ++ dv) <= t2_max_stack)%nat /\
      ((wl' = wl /\ pf = p) \/
       (wl' = [] /\ p_wset pf = true /\ p_width pf = match wl with [x] => Some x | _ => p_width p end)).
  Proof.
    induction fuel as [|f IH]; intros stems extra bytes st p wl rest H Hne He Hex Hat Hw Hho.
    - cbn in H. destruct stems; [congruence|discriminate].
    - cbn [stem_chunks] in H. destruct stems as [|s0 stems'] eqn:Est; [congruence|].
      rewrite <- Est in *. clear Est s0 stems'.
      set (L := length stems) in *.
      pose proof He as He0.
      apply Nat.even_spec in He. destruct He as (m & Hm).
      assert (Hl1 : (length wl <= 1)%nat) by (destruct Hw as [->|(x & -> & _)]; cbn; lia).
      set (k := Nat.min ((enc_max_stack - extra) / 2) (L / 2)) in *.
      assert (HL2 : (L / 2 = m)%nat) by (rewrite Hm, Nat.mul_comm; apply Nat.div_mul; lia).
      assert (Hm1 : (1 <= m)%nat).
      { destruct stems; [congruence|]. unfold L in Hm. cbn [length] in Hm. lia. }
      assert (Hcap : (2 * ((enc_max_stack - extra) / 2) <= enc_max_stack - extra)%nat)
        by (apply Nat.mul_div_le; lia).
      assert (Hcap2 : (23 <= (enc_max_stack - extra) / 2)%nat).
      { unfold enc_max_stack. subst extra. apply Nat.div_le_lower_bound; lia. }
      assert (Hk1 : (1 <= k)%nat) by (unfold k; rewrite HL2; lia).
      assert (Hk2 : (2 * k <= L)%nat) by (unfold k; rewrite HL2; lia).
      assert (Hk3 : (2 * k + extra <= enc_max_stack)%nat) by (unfold k, enc_max_stack in *; lia).
      apply obind_some in H. destruct H as (d & Hd & H).
      apply obind_some in H. destruct H as (r & Hr & H).
      cbn [andb] in H.
      assert (Hcl : length (firstn (2 * k) stems) = (2 * k)%nat) by (rewrite firstn_length; fold L; lia).
      assert (Hce : Nat.even (length (firstn (2 * k) stems)) = true) by (rewrite Hcl, Nat.even_mul; reflexivity).
      destruct (skipn (2 * k) stems) as [|q qs] eqn:Esk.
      + (* the last chunk: operands only *)
        cbn [andb] in H.
        rewrite stem_chunks_nil in Hr. inversion Hr; subst r. inversion H; subst bytes; clear H Hr.
        assert (Hall : firstn (2 * k) stems = stems).
        { rewrite <- (firstn_skipn (2 * k) stems) at 2. rewrite Esk, app_nil_r. reflexivity. }
        rewrite Hall in *.
        destruct (stem_roundtrip L stems 0 d (le_n _) He0 Hd) as (Hrt & Hwf & Hdl).
        destruct (go_push_args subrs gsubrs call d st p wl rest Hat Hwf) as (st1 & Hg1 & Hat1).
        { unfold t2_max_stack, enc_max_stack in *. fold L in Hcl. lia. }
        assert (Hrev : rev wl = wl) by (destruct Hw as [->|(x & -> & _)]; reflexivity).
        exists st1, p, (vals d), wl. split.
        { cbn [app]. rewrite app_nil_r. exact Hg1. }
        split. { rewrite rev_app_distr, Hrev. exact Hat1. }
        rewrite Hrt.
        assert (Hvl : length (vals d) = L) by (unfold vals; rewrite map_length; exact Hdl).
        repeat split; auto.
        * rewrite Hvl. exact He0.
        * intros E. rewrite E in Hvl. cbn in Hvl. lia.
        * rewrite app_length, Hvl. unfold t2_max_stack, enc_max_stack in *. fold L in Hcl. lia.
      + (* a chunk with its operator, then the rest *)
        cbn [andb] in H. inversion H; subst bytes; clear H.
        destruct (chunk_exec st p wl true hm (firstn (2 * k) stems) d (r ++ rest) Hat Hw Hho Hd Hce)
          as (st1 & Hg1 & Hat1).
        { rewrite Hcl. lia. }
        { rewrite Hcl. unfold t2_max_stack, enc_max_stack in *. lia. }
        set (w' := match wl with [x] => Some x | _ => p_width p end) in *.
        rewrite <- Esk in *.
        destruct (IH (skipn (2 * k) stems) 0%nat r st1 (p_stem true p w' (firstn (2 * k) stems)) [] rest Hr)
          as (st2 & pf & dv & wl' & Hg2 & Hat2 & R1 & R2 & R3 & R4 & R5 & R6 & R7 & R8 & R9 & R10 & R11).
        { rewrite Esk. discriminate. }
        { rewrite skipn_length. fold L. rewrite Hm.
          replace (2 * m - 2 * k)%nat with (2 * (m - k))%nat by lia. rewrite Nat.even_mul. reflexivity. }
        { reflexivity. }
        { exact Hat1. }
        { left; reflexivity. }
        { reflexivity. }
        exists st2, pf, dv, wl'. split.
        { change (if hm then OVstemhm else OVstem) with (stem_op true hm).
          rewrite <- !app_assoc. rewrite Hg1. exact Hg2. }
        split; [exact Hat2|].
        cbn [p_stem p_hs p_vs p_cmds p_px p_py p_moved p_width p_wset] in *.
        repeat split; auto.
        * rewrite R2, <- app_assoc, firstn_skipn. reflexivity.
        * right. destruct R11 as [[E1 E2]|(E1 & E2 & E3)].
          -- subst wl' pf. repeat split; reflexivity.
          -- repeat split; assumption.
  Qed.
End HDR.
