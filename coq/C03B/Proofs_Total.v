(* C03B/Proofs_Total.v — which descriptions make a writer panic, return an
   error, or produce a file. *)
From Coq Require Import List NArith ZArith Bool Arith Lia Permutation.
From Common Require Import Bytes Outcome.
From Gen Require Import Consts.
From C03 Require Import Model Spec Props.
From C03B Require Import Model Spec Proofs_Map Proofs_Run Proofs_Writers.
Import ListNotations.
Local Open Scope N_scope.

Lemma writer_never_fuel w d ex : M_writer w d ex <> OutOfFuel.
Proof.
  unfold M_writer. destruct (M_assemble w d ex) as [[s ts]| | |] eqn:E; try discriminate.
  - cbn [fst snd]. unfold M_write, M_plan. destruct (_ =? 0); discriminate.
  - exfalso. revert E. unfold M_assemble. apply run_never_fuel.
Qed.

(* a font of a kind the writer is not made for: panic *)
Lemma writer_kind_mismatch w d ex :
  S_kind_ok w (fd_kind d) = false -> M_writer w d ex = Panic.
Proof. intros H. unfold M_writer. now rewrite (assemble_kind_mismatch w d ex H). Qed.

(* the CFF encoder fails: the writer returns the error, nothing is written *)
Lemma writer_errs w d ex : S_errs w d = true -> M_writer w d ex = Err.
Proof.
  unfold S_errs. rewrite !andb_true_iff. intros [[HK HC] HE].
  unfold M_writer. rewrite (assemble_cases w d ex HK), HC, HE. reflexivity.
Qed.

Lemma writer_cases w d ex :
  S_kind_ok w (fd_kind d) = true -> S_errs w d = false ->
  M_writer w d ex =
  if extras_typed (extras_of w ex)
  then M_write (S_scaler (fd_kind d)) (map_set_all (concat (S_layers w d ex)) [])
  else Panic.
Proof.
  intros HK HE. unfold M_writer. rewrite (assemble_cases w d ex HK).
  unfold S_errs in HE. rewrite HK in HE. cbn [andb] in HE. rewrite HE.
  destruct (extras_typed (extras_of w ex)); reflexivity.
Qed.

Lemma writers_total_lemma w d ex :
  (in_domain w d ex = true -> S_errs w d = false -> exists out, M_writer w d ex = Ok out) /\
  (S_errs w d = true -> M_writer w d ex = Err) /\
  (in_domain w d ex = false -> S_errs w d = false -> M_writer w d ex = Panic) /\
  M_writer w d ex <> OutOfFuel.
Proof.
  split; [|split; [|split]].
  - unfold in_domain. rewrite !andb_true_iff, negb_true_iff. intros [[HK HT] HN] HE.
    rewrite (writer_cases w d ex HK HE), HT.
    apply (proj2 (C03.Props.write_total _ _)).
    intros Hnil. apply nothing_iff in Hnil. congruence.
  - apply writer_errs.
  - intros HD HE. destruct (S_kind_ok w (fd_kind d)) eqn:HK; [|now apply writer_kind_mismatch].
    rewrite (writer_cases w d ex HK HE).
    unfold in_domain in HD. rewrite HK in HD. cbn [andb] in HD.
    destruct (extras_typed (extras_of w ex)); [|reflexivity]. cbn [andb] in HD.
    apply negb_false_iff in HD. apply nothing_iff in HD.
    now apply (proj1 (C03.Props.write_total _ _)).
  - apply writer_never_fuel.
Qed.

(* ---- when is there nothing to write? ---- *)

Lemma forallb_false_in {A} (f : A -> bool) l x : In x l -> f x = false -> forallb f l = false.
Proof.
  intros Hin Hf. destruct (forallb f l) eqn:E; [|reflexivity].
  rewrite forallb_forall in E. rewrite (E x Hin) in Hf. discriminate.
Qed.

(* a name of four bytes that ends with a value is a table to write *)
Lemma something_of w d ex k body :
  S_get w d ex k = Some (Some body) -> length k = 4%nat -> S_nothing w d ex = false.
Proof.
  intros HG HL. unfold S_nothing.
  pose proof (get_last_some_in _ _ _ HG) as Hk. apply in_map_iff in Hk as (e & He & HeL).
  apply (forallb_false_in _ _ e HeL). rewrite He, HG, HL. reflexivity.
Qed.

(* Font.Write and WriteOpenTypeCFFPDF always have a table to write: no raw
   table can replace maxp / CFF *)
Lemma full_writes_something d ex :
  S_kind_ok WFull (fd_kind d) = true -> S_nothing WFull d ex = false.
Proof.
  intros HK. apply (something_of _ _ _ k_maxp (fd_enc d SMaxp)); [|reflexivity].
  unfold S_get, S_layers, req, opt.
  destruct (fd_kind d); try discriminate;
    destruct (S_has_hmtx d), (fd_cmap d), (fd_gdef d), (fd_gsub d), (fd_gpos d);
    cbn [concat]; rewrite ?app_nil_r, ?get_last_app; reflexivity.
Qed.

Lemma cffpdf_writes_something d ex :
  S_kind_ok WCffPDF (fd_kind d) = true -> S_nothing WCffPDF d ex = false.
Proof.
  intros HK. apply (something_of _ _ _ k_CFF (fd_enc d SCff)); [|reflexivity].
  unfold S_get, S_layers, req, opt.
  destruct (fd_kind d); try discriminate; destruct (fd_cmap d); reflexivity.
Qed.

(* WriteTrueTypePDF: as long as the caller does not pass a nil head table *)
Lemma ttpdf_writes_something d ex :
  S_kind_ok WTrueTypePDF (fd_kind d) = true ->
  extras_keep_head ex = true ->
  S_nothing WTrueTypePDF d ex = false.
Proof.
  intros HK HX0.
  assert (HX : get_last k_head (extras_pairs ex) <> Some None).
  { unfold extras_keep_head in HX0. intros E. rewrite E in HX0. discriminate. }
  destruct (get_last k_head (extras_pairs ex)) as [[b|]|] eqn:E; [|congruence|].
  - apply (something_of _ _ _ k_head b); [|reflexivity].
    unfold S_get, S_layers. destruct (fd_kind d); try discriminate.
    cbn [concat]. rewrite app_nil_r, !get_last_app, E. reflexivity.
  - apply (something_of _ _ _ k_head (fd_enc d SHead)); [|reflexivity].
    unfold S_get, S_layers, req. destruct (fd_kind d); try discriminate.
    cbn [concat]. rewrite app_nil_r, !get_last_app, E. reflexivity.
Qed.
