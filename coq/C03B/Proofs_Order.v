(* C03B/Proofs_Order.v — (1) the file does not depend on the order in which
   the Go runtime enumerates Outlines.Tables (this is what justifies modelling
   `for name, data := range outlines.Tables` by a list); (2) the explicit table
   lists of the writers for fonts without raw tables and without extra
   tables. *)
From Coq Require Import List NArith ZArith Bool Arith Lia Permutation.
From Common Require Import Bytes Outcome.
From Gen Require Import Consts.
From C03 Require Import Model Spec Props.
From C03B Require Import Model Spec Proofs_Map Proofs_Run Proofs_Writers Proofs_Total.
Import ListNotations.
Local Open Scope N_scope.

Lemma get_last_in k v : forall L, get_last k L = Some v -> In (k, v) L.
Proof.
  induction L as [|[k' v'] L IH]; cbn [get_last fst snd In]; [discriminate|].
  destruct (get_last k L) as [x|] eqn:E.
  - intros H. injection H as ->. right. now apply IH.
  - destruct (bytes_eqb_spec k' k) as [->|]; [|discriminate]. intros H. injection H as ->. now left.
Qed.

Lemma in_get_last k v : forall L, NoDup (map fst L) -> In (k, v) L -> get_last k L = Some v.
Proof.
  induction L as [|[k' v'] L IH]; cbn [get_last fst snd In map]; [tauto|].
  intros Hnd Hin. inversion Hnd as [|? ? Hni Hnd']; subst.
  destruct Hin as [E|Hin].
  - injection E as -> ->. destruct (get_last k L) as [x|] eqn:E.
    + exfalso. apply Hni. apply get_last_in in E. change k with (fst (k, x)). now apply in_map.
    + now rewrite bytes_eqb_refl.
  - now rewrite (IH Hnd' Hin).
Qed.

Lemma get_last_perm k a b :
  NoDup (map fst a) -> Permutation a b -> get_last k a = get_last k b.
Proof.
  intros Ha Hp.
  assert (Hb : NoDup (map fst b)) by (eapply Permutation_NoDup; [apply Permutation_map; exact Hp|exact Ha]).
  destruct (get_last k a) as [v|] eqn:Ea.
  - symmetry. apply in_get_last; [exact Hb|]. eapply Permutation_in; [exact Hp|]. now apply get_last_in.
  - destruct (get_last k b) as [v|] eqn:Eb; [|reflexivity].
    apply get_last_in in Eb. apply (Permutation_in _ (Permutation_sym Hp)) in Eb.
    apply (in_get_last _ _ _ Ha) in Eb. congruence.
Qed.

Lemma nodup_keys_spec : forall l, nodup_keys l = true -> NoDup (map fst l).
Proof.
  induction l as [|e r IH]; cbn [nodup_keys map]; [constructor|].
  rewrite andb_true_iff, negb_true_iff. intros [H1 H2]. constructor; [|now apply IH].
  now apply existsb_key_false.
Qed.

(* the same font with its raw tables listed differently *)
Definition with_tables (d : fdesc) (T : list table) : fdesc :=
  mk_fdesc (fd_kind d) (fd_widths d) (fd_cmap d) (fd_gdef d) (fd_gsub d) (fd_gpos d) (fd_cff_err d) T (fd_enc d).

Lemma layers_get_perm w d T ex k :
  NoDup (map fst (fd_tables d)) -> Permutation (fd_tables d) T ->
  S_get w (with_tables d T) ex k = S_get w d ex k.
Proof.
  intros Hnd Hp. unfold S_get, S_layers, with_tables, req, opt, nilable, S_has_hmtx.
  cbn [fd_kind fd_widths fd_cmap fd_gdef fd_gsub fd_gpos fd_tables fd_enc].
  destruct w, (fd_kind d); try reflexivity; cbn [concat];
    rewrite (get_last_app k _ (T ++ _)), (get_last_app k T),
            (get_last_app k _ (fd_tables d ++ _)), (get_last_app k (fd_tables d)),
            (get_last_perm k _ _ Hnd Hp); reflexivity.
Qed.

Lemma tables_order_independent w d T ex :
  nodup_keys (fd_tables d) = true -> Permutation (fd_tables d) T ->
  desc_ok d (extras_of w ex) = true ->
  M_writer w (with_tables d T) ex = M_writer w d ex.
Proof.
  intros Hnd Hp HD. apply nodup_keys_spec in Hnd.
  assert (Kd : fd_kind (with_tables d T) = fd_kind d) by reflexivity.
  assert (Ed : S_errs w (with_tables d T) = S_errs w d) by reflexivity.
  destruct (S_kind_ok w (fd_kind d)) eqn:HK.
  2:{ rewrite !writer_kind_mismatch; [reflexivity|exact HK|now rewrite Kd]. }
  destruct (S_errs w d) eqn:HE.
  { rewrite !writer_errs; [reflexivity|exact HE|now rewrite Ed]. }
  rewrite (writer_cases w d ex HK HE), (writer_cases w (with_tables d T) ex); [|now rewrite Kd|now rewrite Ed].
  rewrite Kd. destruct (extras_typed (extras_of w ex)); [|reflexivity].
  symmetry. apply C03.Props.write_order_independent; [now apply assembled_map_ok|].
  apply map_ext_perm; try apply assembled_nodup.
  intros k. rewrite !assembled_get. symmetry. apply (layers_get_perm w d T ex k Hnd Hp).
Qed.

(* ---- fonts without raw tables, no extra tables: the explicit lists ---- *)

Definition S_plain (w : writer) (d : fdesc) : list (list N) :=
  let hmtx := if S_has_hmtx d then [k_hmtx] else [] in
  let cmap := if fd_cmap d then [k_cmap] else [] in
  let layout := (if fd_gdef d then [k_GDEF] else []) ++ (if fd_gsub d then [k_GSUB] else []) ++
                (if fd_gpos d then [k_GPOS] else []) in
  match w, fd_kind d with
  | WFull, OGlyf =>
    [k_hhea] ++ hmtx ++ cmap ++ [k_OS2; k_name; k_post; k_glyf; k_loca; k_maxp; k_head] ++ layout
  | WFull, OCff =>
    [k_hhea; k_hmtx] ++ cmap ++ [k_OS2; k_name; k_post; k_CFF; k_maxp; k_head] ++ layout
  | WTrueTypePDF, OGlyf => cmap ++ [k_hhea] ++ hmtx ++ [k_glyf; k_loca; k_maxp; k_head]
  | WCffPDF, OCff => cmap ++ [k_CFF]
  | _, _ => []
  end.

Lemma plain_filter w d :
  fd_tables d = [] ->
  map fst (M_filter (map_set_all (concat (S_layers w d [])) [])) = map rd32 (S_plain w d).
Proof.
  intros HT. unfold S_layers, S_plain, S_has_hmtx, req, opt, nilable. rewrite HT.
  destruct w, (fd_kind d); try reflexivity;
    destruct (fd_widths d), (fd_cmap d), (fd_gdef d), (fd_gsub d), (fd_gpos d); vm_compute; reflexivity.
Qed.

Lemma plain_table_set w d ex s ts out :
  fd_tables d = [] -> extras_of w ex = [] ->
  desc_ok d [] = true -> M_assemble w d ex = Ok (s, ts) -> size_ok ts = true -> M_write s ts = Ok out ->
  Permutation (map r_tag (dir_of out)) (map rd32 (S_plain w d)).
Proof.
  intros HT HX HD HA HS HW.
  assert (HD' : desc_ok d (extras_of w ex) = true) by now rewrite HX.
  destruct (writers_table_set_lemma _ _ _ _ _ _ HD' HA HS HW) as (_ & _ & _ & Hp & _).
  destruct (assemble_ok_inv _ _ _ _ _ HA) as (_ & _ & _ & _ & ->).
  apply (Permutation_map fst) in Hp. rewrite !map_map in Hp. cbn [fst] in Hp.
  rewrite <- (plain_filter w d HT).
  assert (EL : S_layers w d ex = S_layers w d []).
  { unfold S_layers. destruct w; try reflexivity. cbn [extras_of] in HX. now rewrite HX. }
  rewrite EL in Hp. exact Hp.
Qed.
