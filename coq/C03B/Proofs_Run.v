(* C03B/Proofs_Run.v — a writer's run is its assignment log applied to the
   empty map; the logs of the three writers are the layers of Spec.v; outcome
   classification of the runs. *)
From Coq Require Import List NArith ZArith Bool Arith Lia Permutation.
From Common Require Import Bytes Outcome.
From Gen Require Import Consts.
From C03 Require Import Model Spec.
From C03B Require Import Model Spec Proofs_Map.
Import ListNotations.
Local Open Scope N_scope.

(* induction two elements at a time *)
Lemma list_ind2 {A} (P : list A -> Prop) :
  P [] -> (forall a, P [a]) -> (forall a b r, P r -> P (a :: b :: r)) -> forall l, P l.
Proof.
  intros H0 H1 H2. fix IH 1. intros [|a [|b r]]; [exact H0|apply H1|apply H2; apply IH].
Qed.

(* ---- the extraTables loop ---- *)

Lemma M_extra_ok : forall ex m m',
  M_extra ex m = Ok m' -> extras_typed ex = true /\ m' = map_set_all (extras_pairs ex) m.
Proof.
  induction ex as [|a|a b r IH] using list_ind2; intros m m' H.
  - injection H as <-. auto.
  - injection H as <-. destruct a; auto.
  - cbn [M_extra] in H. destruct a as [s| |]; try discriminate. destruct b as [|bb|]; try discriminate.
    cbn [extras_typed extras_pairs map_set_all fold_left fst snd].
    now apply IH in H.
Qed.

Lemma M_extra_typed : forall ex m,
  extras_typed ex = true -> M_extra ex m = Ok (map_set_all (extras_pairs ex) m).
Proof.
  induction ex as [|a|a b r IH] using list_ind2; intros m H.
  - reflexivity.
  - destruct a; reflexivity.
  - cbn [extras_typed] in H. destruct a as [s| |]; try discriminate. destruct b as [|bb|]; try discriminate.
    cbn [M_extra extras_pairs map_set_all fold_left fst snd]. now apply IH.
Qed.

Lemma M_extra_untyped : forall ex m, extras_typed ex = false -> M_extra ex m = Panic.
Proof.
  induction ex as [|a|a b r IH] using list_ind2; intros m H; try discriminate.
  cbn [extras_typed] in H. cbn [M_extra].
  destruct a as [s| |]; try reflexivity. destruct b as [|bb|]; try reflexivity. now apply IH.
Qed.

Lemma extras_pairs_keys (P : list N -> Prop) (Q : anyv -> bool) :
  (forall s, Q (AStr s) = true -> P s) ->
  forall ex, forallb Q ex = true -> Forall P (map fst (extras_pairs ex)).
Proof.
  intros HQ. induction ex as [|a|a b r IH] using list_ind2; intros H.
  - constructor.
  - destruct a; constructor.
  - cbn [forallb] in H. apply andb_true_iff in H as [Ha H]. apply andb_true_iff in H as [Hb H].
    destruct a as [s| |]; try constructor. destruct b as [|bb|]; try constructor.
    + now apply HQ.
    + now apply IH.
Qed.

(* ---- the assignment log of a step list ---- *)

Fixpoint steps_log (d : fdesc) (ex : list anyv) (st : list step) : list table :=
  match st with
  | StSet k s :: r => (k, src_val d s) :: steps_log d ex r
  | StSetIf c k s :: r => (if src_nonnil d c then [(k, src_val d s)] else []) ++ steps_log d ex r
  | StRange :: r => fd_tables d ++ steps_log d ex r
  | StExtra :: r => extras_pairs ex ++ steps_log d ex r
  | StAssert _ :: r => steps_log d ex r
  | StErrCheck :: r => steps_log d ex r
  | _ => []
  end.

(* what a step list does to the control flow, the map left aside *)
Fixpoint steps_outcome (d : fdesc) (ex : list anyv) (st : list step) : outcome N :=
  match st with
  | [] => Panic
  | StSet _ _ :: r => steps_outcome d ex r
  | StSetIf _ _ _ :: r => steps_outcome d ex r
  | StRange :: r => steps_outcome d ex r
  | StAssert k :: r => if okind_eqb (fd_kind d) k then steps_outcome d ex r else Panic
  | StErrCheck :: r => if fd_cff_err d then Err else steps_outcome d ex r
  | StExtra :: r => if extras_typed ex then steps_outcome d ex r else Panic
  | StPanic :: _ => Panic
  | StWrite s :: _ => Ok s
  end.

(* a run = its control outcome + its log applied to the map *)
Lemma run_char d ex : forall st m,
  run d ex st m =
  match steps_outcome d ex st with
  | Ok s => Ok (s, map_set_all (steps_log d ex st) m)
  | Err => Err
  | Panic => Panic
  | OutOfFuel => OutOfFuel
  end.
Proof.
  induction st as [|x st IH]; intros m; [reflexivity|].
  destruct x; cbn [run steps_log steps_outcome].
  - rewrite IH. reflexivity.
  - rewrite IH. destruct (steps_outcome d ex st); try reflexivity.
    rewrite map_set_all_app. destruct (src_nonnil d c); reflexivity.
  - rewrite IH. destruct (steps_outcome d ex st); try reflexivity. now rewrite map_set_all_app.
  - destruct (okind_eqb (fd_kind d) k); [apply IH|reflexivity].
  - destruct (fd_cff_err d); [reflexivity|apply IH].
  - destruct (extras_typed ex) eqn:T.
    + rewrite (M_extra_typed ex m T), IH. destruct (steps_outcome d ex st); try reflexivity.
      now rewrite map_set_all_app.
    + now rewrite (M_extra_untyped ex m T).
  - reflexivity.
  - reflexivity.
Qed.

Lemma steps_outcome_never_fuel d ex : forall st, steps_outcome d ex st <> OutOfFuel.
Proof.
  induction st as [|x st IH]; [discriminate|].
  destruct x; cbn [steps_outcome]; try exact IH; try discriminate.
  - destruct (okind_eqb (fd_kind d) k); [exact IH|discriminate].
  - destruct (fd_cff_err d); [discriminate|exact IH].
  - destruct (extras_typed ex); [exact IH|discriminate].
Qed.

Lemma run_never_fuel d ex st m : run d ex st m <> OutOfFuel.
Proof.
  rewrite run_char. pose proof (steps_outcome_never_fuel d ex st).
  destruct (steps_outcome d ex st); congruence.
Qed.

(* ---- the hmtx condition, in the specification's words ---- *)

Lemma hmtx_nonnil_spec d : M_hmtx_nonnil d = S_has_hmtx d.
Proof.
  unfold M_hmtx_nonnil, M_widths_made, M_lsbs_nonnil, S_has_hmtx.
  destruct (fd_kind d), (fd_widths d); reflexivity.
Qed.

(* ---- outcome of the assembly, by cases ---- *)

Lemma assemble_kind_mismatch w d ex :
  S_kind_ok w (fd_kind d) = false -> M_assemble w d ex = Panic.
Proof.
  unfold M_assemble. rewrite run_char.
  destruct w, (fd_kind d) eqn:K; cbn [S_kind_ok]; try discriminate; intros _;
    cbn [steps_of steps_write steps_ttpdf steps_cffpdf write_prefix app steps_outcome]; rewrite ?K;
    reflexivity.
Qed.

(* the log of a writer on a font of the right kind = the layers *)
Lemma log_layers w d ex :
  S_kind_ok w (fd_kind d) = true ->
  steps_log d (extras_of w ex) (steps_of w (fd_kind d)) = concat (S_layers w d ex).
Proof.
  unfold S_layers.
  destruct w, (fd_kind d) eqn:K; cbn [S_kind_ok]; try discriminate; intros _;
    cbn [steps_of steps_write steps_ttpdf steps_cffpdf write_prefix write_suffix app steps_log
         extras_of concat];
    unfold src_val, req, nilable; cbn [src_nonnil];
    rewrite ?hmtx_nonnil_spec, ?app_nil_r.
  - (* Font.Write, glyf *)
    destruct (S_has_hmtx d), (fd_cmap d), (fd_gdef d), (fd_gsub d), (fd_gpos d);
      cbn [app opt]; rewrite <- ?app_assoc; cbn [app]; reflexivity.
  - (* Font.Write, CFF *)
    destruct (S_has_hmtx d), (fd_cmap d), (fd_gdef d), (fd_gsub d), (fd_gpos d); reflexivity.
  - (* WriteTrueTypePDF *)
    destruct (S_has_hmtx d), (fd_cmap d); cbn [app opt]; rewrite <- ?app_assoc; cbn [app]; reflexivity.
  - (* WriteOpenTypeCFFPDF *)
    destruct (fd_cmap d); reflexivity.
Qed.

(* the run of a writer on a font of the right kind *)
Lemma assemble_cases w d ex :
  S_kind_ok w (fd_kind d) = true ->
  M_assemble w d ex =
  if okind_eqb (fd_kind d) OCff && fd_cff_err d then Err
  else if extras_typed (extras_of w ex)
       then Ok (S_scaler (fd_kind d), map_set_all (concat (S_layers w d ex)) [])
       else Panic.
Proof.
  intros HK. rewrite <- (log_layers w d ex HK). unfold M_assemble. rewrite run_char.
  destruct w, (fd_kind d) eqn:K; cbn [S_kind_ok] in HK; try discriminate; clear HK;
    cbn [steps_of steps_write steps_ttpdf steps_cffpdf write_prefix write_suffix app steps_outcome
         extras_of okind_eqb andb extras_typed S_scaler];
    rewrite ?K; cbn [okind_eqb].
  - reflexivity.
  - destruct (fd_cff_err d); reflexivity.
  - destruct (extras_typed ex); reflexivity.
  - destruct (fd_cff_err d); reflexivity.
Qed.
