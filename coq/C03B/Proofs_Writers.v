(* C03B/Proofs_Writers.v — the assembled map meets C03's hypotheses; the
   written file is a well-formed container holding exactly the specification's
   tables; reading back; totality.  Everything about the container is C03's,
   used through C03.Props. *)
From Coq Require Import List NArith ZArith Bool Arith Lia Permutation Sorted.
From Common Require Import Bytes Outcome.
From Gen Require Import Consts C03.
From C03 Require Import Model Spec Props.
From C03B Require Import Model Spec Proofs_Map Proofs_Run.
Import ListNotations.
Local Open Scope N_scope.

(* ---- inversion of a successful assembly ---- *)

Lemma assemble_ok_inv w d ex s ts :
  M_assemble w d ex = Ok (s, ts) ->
  S_kind_ok w (fd_kind d) = true /\
  S_errs w d = false /\
  extras_typed (extras_of w ex) = true /\
  s = S_scaler (fd_kind d) /\
  ts = map_set_all (concat (S_layers w d ex)) [].
Proof.
  intros H. destruct (S_kind_ok w (fd_kind d)) eqn:HK.
  - rewrite (assemble_cases w d ex HK) in H. unfold S_errs. rewrite HK. cbn [andb].
    destruct (okind_eqb (fd_kind d) OCff && fd_cff_err d); [discriminate|].
    destruct (extras_typed (extras_of w ex)); [|discriminate].
    injection H as <- <-. auto.
  - rewrite (assemble_kind_mismatch w d ex HK) in H. discriminate.
Qed.

(* ---- the assembled map: lookups, keys ---- *)

Lemma assembled_get L k :
  map_get k (map_set_all L []) = get_last k L.
Proof. rewrite map_get_set_all. cbn [map_get]. now destruct (get_last k L). Qed.

Lemma assembled_nodup L : NoDup (map fst (map_set_all L [])).
Proof. apply map_set_all_nodup. constructor. Qed.

Lemma assembled_keys (P : list N -> Prop) L :
  Forall P (map fst L) -> Forall P (map fst (map_set_all L [])).
Proof. intros H. apply map_set_all_keys_Forall; [exact H|constructor]. Qed.

Definition literal_keys : list (list N) :=
  [k_hhea; k_hmtx; k_cmap; k_OS2; k_name; k_post; k_CFF; k_glyf; k_loca; k_maxp; k_head;
   k_GDEF; k_GSUB; k_GPOS].

(* where an entry of the layers comes from *)
Lemma layers_entry_source w d ex (e : table) :
  In e (concat (S_layers w d ex)) ->
  In (fst e) literal_keys \/ In e (fd_tables d) \/ In e (extras_pairs (extras_of w ex)).
Proof.
  intros He. unfold S_layers, req, opt, nilable in He.
  destruct w, (fd_kind d); try contradiction;
    destruct (S_has_hmtx d), (fd_cmap d), (fd_gdef d), (fd_gsub d), (fd_gpos d);
    cbn [concat app] in He; rewrite ?app_nil_r in He;
    repeat (progress (cbn [In] in He; rewrite ?in_app_iff in He));
    repeat match goal with H : _ \/ _ |- _ => destruct H end;
    subst; cbn [extras_of]; auto; try contradiction; left; cbn [fst literal_keys In];
    repeat first [left; reflexivity | right].
Qed.

(* a boolean property of names that holds for the literal keys, the raw table
   names and the extra names holds for every name of the layers *)
Lemma layers_keys (Pb : list N -> bool) w d ex :
  forallb Pb literal_keys = true ->
  forallb (fun t : table => Pb (fst t)) (fd_tables d) = true ->
  forallb (fun t : table => Pb (fst t)) (extras_pairs (extras_of w ex)) = true ->
  forallb (fun t : table => Pb (fst t)) (concat (S_layers w d ex)) = true.
Proof.
  rewrite !forallb_forall. intros HL HT HE e He.
  destruct (layers_entry_source _ _ _ _ He) as [H|[H|H]]; auto.
Qed.

Lemma forallb_Forall_keys (Pb : list N -> bool) (L : list table) :
  forallb (fun t : table => Pb (fst t)) L = true -> Forall (fun k => Pb k = true) (map fst L).
Proof.
  rewrite forallb_forall, Forall_map, Forall_forall. auto.
Qed.

Lemma extras_pairs_forallb (Pb : list N -> bool) (Q : anyv -> bool) :
  (forall s, Q (AStr s) = Pb s) ->
  forall ex, forallb Q ex = true -> forallb (fun t : table => Pb (fst t)) (extras_pairs ex) = true.
Proof.
  intros HQ. induction ex as [|a|a b r IH] using list_ind2; intros H; try reflexivity.
  - destruct a; reflexivity.
  - cbn [forallb] in H. apply andb_true_iff in H as [Ha H]. apply andb_true_iff in H as [Hb H].
    destruct a as [s| |]; try reflexivity. destruct b as [|bb|]; try reflexivity.
    cbn [extras_pairs forallb fst]. rewrite <- HQ, Ha. cbn [andb]. now apply IH.
Qed.

Lemma desc_ok_split d ex :
  desc_ok d ex = true ->
  forallb (fun t : table => bytes_ok (fst t)) (fd_tables d) = true /\ forallb any_ok ex = true.
Proof. unfold desc_ok. now rewrite andb_true_iff. Qed.

Lemma assembled_map_ok w d ex :
  desc_ok d (extras_of w ex) = true ->
  map_ok (map_set_all (concat (S_layers w d ex)) []).
Proof.
  intros H. apply desc_ok_split in H as [HT HE].
  apply map_ok_of; [apply assembled_nodup|].
  apply assembled_keys.
  assert (HK : forallb (fun t : table => bytes_ok (fst t)) (concat (S_layers w d ex)) = true).
  { apply layers_keys; [reflexivity|exact HT|].
    now apply (extras_pairs_forallb bytes_ok any_ok). }
  apply forallb_Forall_keys in HK. eapply Forall_impl; [|exact HK].
  intros k. apply bytes_ok_is_byte.
Qed.

Lemma names_printable_split d ex :
  names_printable d ex = true ->
  forallb (fun t : table => forallb printable (fst t)) (fd_tables d) = true /\
  forallb any_printable ex = true.
Proof. unfold names_printable. now rewrite andb_true_iff. Qed.

Lemma assembled_printable w d ex :
  names_printable d (extras_of w ex) = true ->
  Forall (fun t : table => forallb printable (fst t) = true) (map_set_all (concat (S_layers w d ex)) []).
Proof.
  intros H. apply names_printable_split in H as [HT HE].
  apply (proj1 (Forall_map fst (fun k => forallb printable k = true) _)).
  apply assembled_keys.
  apply (forallb_Forall_keys (forallb printable)).
  apply layers_keys; [reflexivity|exact HT|].
  now apply (extras_pairs_forallb (forallb printable) any_printable).
Qed.

(* ---- the specification's set = what header.Write keeps ---- *)

Lemma assembled_filter w d ex tg body :
  In (tg, body) (M_filter (map_set_all (concat (S_layers w d ex)) [])) <->
  exists k, S_table w d ex k body /\ rd32 k = tg.
Proof.
  rewrite filter_in. unfold S_table, S_get. split.
  - intros [k [Hin [Hl Hr]]]. exists k. repeat split; try assumption.
    rewrite <- assembled_get. apply map_in_get; [apply assembled_nodup|exact Hin].
  - intros [k [[Hg Hl] Hr]]. exists k. repeat split; try assumption.
    apply map_get_some_in. now rewrite assembled_get.
Qed.

Lemma size_ok_split ts :
  size_ok ts = true ->
  N.of_nat (length (M_filter ts)) < 4096 /\ file_size (M_filter ts) < 4294967296.
Proof. unfold size_ok. rewrite andb_true_iff, !N.ltb_lt. auto. Qed.

Lemma scaler_small k : S_scaler k mod 4294967296 = S_scaler k.
Proof. destruct k; reflexivity. Qed.

Lemma scaler_valid k : valid_scaler (S_scaler k) = true.
Proof. destruct k; reflexivity. Qed.

(* ---- writers_wf ---- *)

Lemma writers_wf_lemma w d ex s ts out :
  desc_ok d (extras_of w ex) = true ->
  M_assemble w d ex = Ok (s, ts) -> size_ok ts = true -> M_write s ts = Ok out ->
  S_wf out /\ (has_head (dir_of out) = true -> file_sum out = header_checksumMagic).
Proof.
  intros HD HA HS HW.
  destruct (assemble_ok_inv _ _ _ _ _ HA) as (_ & _ & _ & _ & ->).
  apply size_ok_split in HS as [H1 H2].
  pose proof (assembled_map_ok w d ex HD) as HM.
  split.
  - exact (C03.Props.write_wf s _ out HM HW H1 H2).
  - exact (C03.Props.whole_file_checksum s _ out HM HW H1 H2).
Qed.

(* ---- writers_table_set ---- *)

Lemma sorted_tags_nodup (l : list rec) :
  StronglySorted (fun x y => r_tag x < r_tag y) l -> NoDup (map r_tag l).
Proof.
  induction 1 as [|a l Hs IH Hf]; cbn [map]; constructor; [|exact IH].
  rewrite in_map_iff. intros [x [Hx Hin]]. rewrite Forall_forall in Hf.
  specialize (Hf x Hin). lia.
Qed.

Lemma writers_table_set_lemma w d ex s ts out :
  desc_ok d (extras_of w ex) = true ->
  M_assemble w d ex = Ok (s, ts) -> size_ok ts = true -> M_write s ts = Ok out ->
  rd32 (sub out 0 4) = S_scaler (fd_kind d) /\
  (forall tg body, In (tg, body) (M_filter ts) <-> exists k, S_table w d ex k body /\ rd32 k = tg) /\
  num_tables out = N.of_nat (length (M_filter ts)) /\
  Permutation (map (fun r => (r_tag r, r_len r)) (dir_of out))
              (map (fun tb : N * list N => (fst tb, N.of_nat (length (snd tb)))) (M_filter ts)) /\
  NoDup (map fst (M_filter ts)).
Proof.
  intros HD HA HS HW.
  destruct (writers_wf_lemma _ _ _ _ _ _ HD HA HS HW) as [Hwf _].
  destruct (assemble_ok_inv _ _ _ _ _ HA) as (_ & _ & _ & -> & ->).
  apply size_ok_split in HS as [H1 H2].
  pose proof (assembled_map_ok w d ex HD) as HM.
  destruct (C03.Props.write_directory _ _ out HM HW H1 H2) as (Hn & Hsc & Hp).
  split; [now rewrite Hsc, scaler_small|].
  split; [intros tg body; apply assembled_filter|].
  split; [exact Hn|]. split; [exact Hp|].
  pose proof (sorted_tags_nodup _ (wf_sorted _ Hwf)) as Hnd.
  apply (Permutation_map fst) in Hp. rewrite !map_map in Hp. cbn [fst] in Hp.
  eapply Permutation_NoDup; [exact Hp|]. exact Hnd.
Qed.

(* ---- writers_read_back ---- *)

Lemma count_readable_le ts : count_readable ts = true -> N.of_nat (length (M_filter ts)) <= header_maxTables.
Proof. unfold count_readable. now rewrite N.leb_le. Qed.

Lemma is_head_same_length tg (a b : list N) :
  length a = length b -> is_head (tg, a) = is_head (tg, b).
Proof. unfold is_head. cbn [fst snd]. now intros ->. Qed.

Lemma writers_read_back_lemma w d ex s ts out :
  desc_ok d (extras_of w ex) = true -> names_printable d (extras_of w ex) = true ->
  M_assemble w d ex = Ok (s, ts) -> size_ok ts = true -> count_readable ts = true ->
  M_write s ts = Ok out ->
  exists toc,
    M_read_dir out = Ok (S_scaler (fd_kind d), toc) /\
    NoDup (map (fun t : toc_entry => fst (fst t)) toc) /\
    (forall k body, S_table w d ex k body ->
       exists off len, In (rd32 k, off, len) toc /\
                       length (slice_table out off len) = length body /\
                       clear_adj (rd32 k) (slice_table out off len) = clear_adj (rd32 k) body /\
                       (is_head (rd32 k, body) = false -> slice_table out off len = body)) /\
    (forall tg off len, In (tg, off, len) toc -> exists k body, S_table w d ex k body /\ rd32 k = tg).
Proof.
  intros HD HP HA HS HC HW.
  destruct (writers_table_set_lemma _ _ _ _ _ _ HD HA HS HW) as (_ & Hset & _ & Hperm & _).
  destruct (writers_wf_lemma _ _ _ _ _ _ HD HA HS HW) as [Hwf _].
  destruct (assemble_ok_inv _ _ _ _ _ HA) as (_ & _ & _ & -> & ->).
  pose proof (assembled_map_ok w d ex HD) as HM.
  pose proof (assembled_printable w d ex HP) as HPr.
  apply size_ok_split in HS as [H1 H2]. apply count_readable_le in HC.
  destruct (C03.Props.read_write_roundtrip _ _ out HM HW (scaler_valid _) HPr HC H2)
    as (toc & Hrd & Htags & Hsl).
  exists toc. split; [exact Hrd|]. split; [|split].
  - rewrite Htags. apply sorted_tags_nodup. exact (wf_sorted _ Hwf).
  - intros k body HT.
    assert (Hin : In (rd32 k, body) (M_filter (map_set_all (concat (S_layers w d ex)) []))).
    { apply Hset. exists k. auto. }
    destruct (Hsl _ _ Hin) as (off & len & Ht & Hl & Hc).
    exists off, len. repeat split; try assumption.
    intros Hh. rewrite <- (C03.Props.clear_adj_only_head _ _ Hh), <- Hc.
    symmetry. apply C03.Props.clear_adj_only_head.
    now rewrite (is_head_same_length _ _ body Hl).
  - intros tg off len Hin.
    assert (Ht : In tg (map r_tag (dir_of out))).
    { rewrite <- Htags. apply in_map_iff. exists (tg, off, len). auto. }
    apply in_map_iff in Ht as (r & Hr & Hrin).
    assert (Hx : In (r_tag r, r_len r) (map (fun r => (r_tag r, r_len r)) (dir_of out))).
    { apply in_map_iff. exists r. auto. }
    apply (Permutation_in _ Hperm) in Hx. apply in_map_iff in Hx as ([tg' body] & He & Hf).
    cbn [fst snd] in He. injection He as He _. subst tg'.
    apply Hset in Hf as (k & HT & Hk). exists k, body. split; [exact HT|congruence].
Qed.

(* ---- writers_total ---- *)

Lemma get_last_some_in k : forall L v, get_last k L = Some v -> In k (map fst L).
Proof.
  induction L as [|e L IH]; intros v; cbn [get_last map In]; [discriminate|].
  destruct (get_last k L) as [v'|] eqn:E.
  - intros _. right. eapply IH. reflexivity.
  - destruct (bytes_eqb_spec (fst e) k) as [He|He]; [|discriminate]. intros _. now left.
Qed.

Lemma get_last_in_some : forall L (e : table), In e L -> get_last (fst e) L <> None.
Proof.
  induction L as [|e' L IH]; intros e; cbn [get_last In]; [tauto|].
  intros [->|Hin].
  - destruct (get_last (fst e) L); [discriminate|]. rewrite bytes_eqb_refl. discriminate.
  - specialize (IH e Hin). destruct (get_last (fst e) L); [discriminate|congruence].
Qed.

Lemma nothing_iff w d ex :
  S_nothing w d ex = true <-> M_filter (map_set_all (concat (S_layers w d ex)) []) = [].
Proof.
  unfold S_nothing, S_get. set (L := concat (S_layers w d ex)).
  rewrite filter_nil, forallb_forall. split.
  - intros H k [body|] Hin; [|now left]. right.
    apply (map_in_get _ _ _ (assembled_nodup L)) in Hin. rewrite assembled_get in Hin.
    pose proof (get_last_some_in _ _ _ Hin) as Hk. apply in_map_iff in Hk as (e & He & HeL).
    specialize (H e HeL). rewrite He, Hin in H.
    destruct (Nat.eqb_spec (length k) 4); [discriminate|assumption].
  - intros H e HeL. destruct (get_last (fst e) L) as [[body|]|] eqn:E; try reflexivity.
    assert (Hin : In (fst e, Some body) (map_set_all L [])).
    { apply map_get_some_in. now rewrite assembled_get. }
    destruct (H _ _ Hin) as [Hx|Hx]; [discriminate|].
    now destruct (Nat.eqb_spec (length (fst e)) 4).
Qed.
