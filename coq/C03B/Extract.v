From Coq Require Import Extraction ExtrOcamlBasic.
From Common Require Import Conv.
From Gen Require Import Consts.
From Common Require Import Bytes.
From C03 Require Import Model.
From C03B Require Import Model Spec.
Extraction "c03b_model.ml" conv_anchor M_writer M_assemble dir_of num_tables table_bytes rd16 rd32 be32
  S_get S_nothing in_domain S_errs.
