(* C03B/Tie.v — the step lists of Model.v ARE the bodies of the three writers
   of /repo/write.go: coq/Gen/C03B.v is regenerated from the Go AST on every
   run (translators/gen/kind_c03b.go executes each body symbolically into one
   linear list of steps per path, naming every table source by a closed
   expression over the receiver); here every regenerated step is converted to
   a step of the model - table name, source, condition, position - and the
   result must be the model's list.  A table added to or removed from a
   writer, a changed condition, a changed order of overrides, another scaler
   type or another kind of statement changes Gen/C03B.v (or loses the item) and
   breaks this file until the model follows. *)
From Coq Require Import List NArith ZArith Bool Arith String Ascii.
From Common Require Import Bytes Outcome.
From Gen Require Import Consts C03B.
From C03 Require Import Model.
From C03B Require Import Model Spec.
Import ListNotations.
Local Open Scope string_scope.

Fixpoint bytes_of_string (s : string) : list N :=
  match s with
  | EmptyString => []
  | String c r => N_of_ascii c :: bytes_of_string r
  end.

Fixpoint assoc {A} (k : string) (l : list (string * A)) : option A :=
  match l with
  | [] => None
  | (k', v) :: r => if String.eqb k' k then Some v else assoc k r
  end.

(* the expression text that stands for each source.  maxp and head take an
   argument that differs between the outline kinds (nil / outlines.Maxp,
   zero / enc.LocaFormat): the text must be the one of the font's kind, and
   the SAME text in every writer - which is why the PDF writers' tables are
   the full writer's tables. *)
Definition glyf_outl : string := "f.Outlines.(*glyf.Outlines)".
Definition cff_outl : string := "f.Outlines.(*cff.Outlines)".

Definition src_texts (k : okind) : list (string * src) :=
  [ ("f.makeHmtx()#0", SHhea);
    ("f.makeHmtx()#1", SHmtx);
    ("f.CMapTable.Encode()", SCmap);
    ("f.makeOS2()", SOS2);
    ("f.makeName()", SName);
    ("f.makePost()", SPost);
    ("f.Gdef.Encode()", SGdef);
    ("f.Gsub.Encode()", SGsub);
    ("f.Gpos.Encode()", SGpos) ] ++
  match k with
  | OGlyf =>
    [ (glyf_outl ++ ".Glyphs.Encode().GlyfData", SGlyf);
      (glyf_outl ++ ".Glyphs.Encode().LocaData", SLoca);
      ("&maxp.Info{NumGlyphs: f.NumGlyphs(), TTF: " ++ glyf_outl ++ ".Maxp}.Encode()", SMaxp);
      ("f.makeHead(" ++ glyf_outl ++ ".Glyphs.Encode().LocaFormat)", SHead) ]
  | OCff =>
    [ ("f.makeCFF(" ++ cff_outl ++ ")#0", SCff);
      ("&maxp.Info{NumGlyphs: f.NumGlyphs(), TTF: zero(*maxp.TTFInfo)}.Encode()", SMaxp);
      ("f.makeHead(zero(int16))", SHead) ]
  | ONone => []
  end.

(* "if X != nil": the value tested and the source it guards *)
Definition cond_texts : list (string * src) :=
  [ ("f.makeHmtx()#1", SHmtx); ("f.CMapTable", SCmap);
    ("f.Gdef", SGdef); ("f.Gsub", SGsub); ("f.Gpos", SGpos) ].

Definition src_eqb (a b : src) : bool :=
  match a, b with
  | SHhea, SHhea | SHmtx, SHmtx | SCmap, SCmap | SOS2, SOS2 | SName, SName | SPost, SPost | SCff, SCff
  | SGlyf, SGlyf | SLoca, SLoca | SMaxp, SMaxp | SHead, SHead | SGdef, SGdef | SGsub, SGsub | SGpos, SGpos => true
  | _, _ => false
  end.

Definition conv_step (k : okind) (g : c03b_step) : option step :=
  match g with
  | C03b_set key s => option_map (StSet (bytes_of_string key)) (assoc s (src_texts k))
  | C03b_set_if c key s =>
    match assoc c cond_texts, assoc s (src_texts k) with
    | Some c', Some s' => if src_eqb c' s' then Some (StSetIf c' (bytes_of_string key) s') else None
    | _, _ => None
    end
  | C03b_range m => if String.eqb m (glyf_outl ++ ".Tables") then Some StRange else None
  | C03b_assert x ty =>
    if String.eqb x "f.Outlines" then
      if String.eqb ty "*glyf.Outlines" then Some (StAssert OGlyf)
      else if String.eqb ty "*cff.Outlines" then Some (StAssert OCff) else None
    else None
  | C03b_errcheck call => if String.eqb call ("f.makeCFF(" ++ cff_outl ++ ")") then Some StErrCheck else None
  | C03b_extra i c p key v =>
    if String.eqb i "i := 0" && String.eqb c "i+1 < len(extraTables)" && String.eqb p "i += 2" &&
       String.eqb key "extraTables[i].(string)" && String.eqb v "extraTables[i+1].([]byte)"
    then Some StExtra else None
  | C03b_panic => Some StPanic
  | C03b_write s =>
    if String.eqb s "header.ScalerTypeCFF" then Some (StWrite header_scalerCFF)
    else if String.eqb s "header.ScalerTypeTrueType" then Some (StWrite header_scalerTrueType)
    else None
  end.

Fixpoint conv_steps (k : okind) (l : list c03b_step) : option (list step) :=
  match l with
  | [] => Some []
  | g :: r =>
    match conv_step k g, conv_steps k r with
    | Some s, Some rs => Some (s :: rs)
    | _, _ => None
    end
  end.

(* the model's literal keys are the strings of the source *)
Lemma tie_keys :
  map bytes_of_string ["hhea"; "hmtx"; "cmap"; "OS/2"; "name"; "post"; "CFF "; "glyf"; "loca"; "maxp"; "head";
                       "GDEF"; "GSUB"; "GPOS"] =
  [k_hhea; k_hmtx; k_cmap; k_OS2; k_name; k_post; k_CFF; k_glyf; k_loca; k_maxp; k_head; k_GDEF; k_GSUB; k_GPOS].
Proof. reflexivity. Qed.

(* Font.Write: one path per case of the type switch on f.Outlines, in the
   order cff, glyf, default; each converts to the model's list for that kind *)
Lemma tie_write :
  map fst sfnt_Write_paths = [cff_outl; glyf_outl; "f.Outlines.(default)"] /\
  map (fun p => conv_steps (match fst p with
                            | "f.Outlines.(*cff.Outlines)" => OCff
                            | "f.Outlines.(*glyf.Outlines)" => OGlyf
                            | _ => ONone
                            end) (snd p)) sfnt_Write_paths =
  [Some (steps_write OCff); Some (steps_write OGlyf); Some (steps_write ONone)] /\
  sfnt_Write_signature = "(w io.Writer) (int64, error)".
Proof. repeat split; vm_compute; reflexivity. Qed.

(* Font.WriteTrueTypePDF: no type switch, the assertion on f.Outlines is a step *)
Lemma tie_ttpdf :
  map fst sfnt_WriteTrueTypePDF_paths = [""] /\
  map (fun p => conv_steps OGlyf (snd p)) sfnt_WriteTrueTypePDF_paths = [Some steps_ttpdf] /\
  sfnt_WriteTrueTypePDF_signature = "(w io.Writer, extraTables ...any) (int64, error)".
Proof. repeat split; vm_compute; reflexivity. Qed.

(* Font.WriteOpenTypeCFFPDF *)
Lemma tie_cffpdf :
  map fst sfnt_WriteOpenTypeCFFPDF_paths = [""] /\
  map (fun p => conv_steps OCff (snd p)) sfnt_WriteOpenTypeCFFPDF_paths = [Some steps_cffpdf] /\
  sfnt_WriteOpenTypeCFFPDF_signature = "(w io.Writer) (error)".
Proof. repeat split; vm_compute; reflexivity. Qed.

(* the steps before an assertion do not depend on the kind of outlines: the
   conversion of the PDF writers with the other kind fails exactly at the
   kind-specific sources, never gives a different list *)
Lemma tie_pdf_kind_specific :
  map (fun p => conv_steps OCff (snd p)) sfnt_WriteTrueTypePDF_paths = [None] /\
  map (fun p => conv_steps OGlyf (snd p)) sfnt_WriteOpenTypeCFFPDF_paths = [None].
Proof. split; vm_compute; reflexivity. Qed.

(* ---- makeHmtx / hmtx.Info.Encode: when is the hmtx table nil? ---- *)

(* makeHmtx makes the widths "if o, ok := f.Outlines.(*glyf.Outlines); !ok ||
   o.Widths != nil"; it fills GlyphExtents and never LSB; Encode makes lsbs
   from GlyphExtents "if lsbs == nil && info.GlyphExtents != nil" and returns a
   nil hmtx "if info.Widths == nil || lsbs == nil" *)
Lemma tie_hmtx :
  sfnt_makeHmtx_widths_cond_init = "o, ok := " ++ glyf_outl /\
  sfnt_makeHmtx_widths_cond_atoms = ["ok"; "o.Widths != nil"] /\
  map fst sfnt_makeHmtx_info = ["Widths"; "GlyphExtents"; "Ascent"; "Descent"; "LineGap"; "CaretAngle"] /\
  assoc "Widths" sfnt_makeHmtx_info = Some "widths" /\
  assoc "GlyphExtents" sfnt_makeHmtx_info = Some "f.GlyphBBoxes()" /\
  hmtx_Encode_lsbs_cond_atoms = ["lsbs != nil"; "info.GlyphExtents != nil"] /\
  hmtx_Encode_nil_cond_atoms = ["info.Widths != nil"; "lsbs != nil"] /\
  (forall d : fdesc,
     let ok := okind_eqb (fd_kind d) OGlyf in
     let widths := sfnt_makeHmtx_widths_cond ok (fd_widths d) in   (* info.Widths != nil *)
     let lsb0 := false in                                           (* LSB is not set *)
     let ext := true in                                             (* GlyphExtents is set *)
     let lsbs := lsb0 || hmtx_Encode_lsbs_cond lsb0 ext in         (* after the default *)
     M_hmtx_nonnil d = negb (hmtx_Encode_nil_cond widths lsbs)).
Proof.
  repeat split; try (vm_compute; reflexivity);
    intros d; cbv zeta; unfold M_hmtx_nonnil, M_widths_made, M_lsbs_nonnil,
      sfnt_makeHmtx_widths_cond, hmtx_Encode_lsbs_cond, hmtx_Encode_nil_cond;
    destruct (okind_eqb (fd_kind d) OGlyf), (fd_widths d); reflexivity.
Qed.

(* header.Write keeps an entry "if data != nil && len(name) == 4" - the
   filter of C03's model, on which "a nil value removes the table" rests *)
Lemma tie_filter :
  header_Write_filter_cond_atoms = ["data != nil"; "len(name) == 4"] /\
  forall (t : table),
    (match M_filter [t] with [] => false | _ => true end) =
    header_Write_filter_cond (match snd t with Some _ => true | None => false end)
                             (Nat.eqb (List.length (fst t)) 4).
Proof.
  split; [reflexivity|]. intros [k [b|]]; unfold M_filter, header_Write_filter_cond; cbn [flat_map fst snd app].
  - destruct (Nat.eqb (List.length k) 4); reflexivity.
  - reflexivity.
Qed.
