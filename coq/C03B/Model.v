(* C03B/Model.v — the table-map ASSEMBLY of the three font writers of
   /repo/write.go: Font.Write, Font.WriteTrueTypePDF and
   Font.WriteOpenTypeCFFPDF.

   What the writers do is: build a Go map[string][]byte entry by entry (some
   entries under a condition, some from the raw table map of the glyf outlines,
   some from the variadic extraTables arguments), choose a scaler type and hand
   both to header.Write.  The tables' CONTENTS are the business of the other
   properties (C12 head/hhea/hmtx/maxp/OS2, C09 cmap, C11 glyf, C13 CFF, C14
   name/post, C08 GDEF/GSUB/GPOS); here a font is described by what the
   assembly can observe: the dynamic type of f.Outlines, which optional parts
   are nil, whether the CFF encoder fails, the raw table map, and the bytes
   each table maker returns when it is called.

   The container itself (header.Write) is C03's model, imported, not copied.

   M_*  mirror the Go code as it is (Panic where Go panics).
   Executable definitions only. *)
From Coq Require Import List NArith ZArith Bool Arith.
From Common Require Import Bytes Outcome.
From Gen Require Import Consts.
From C03 Require Import Model.
Import ListNotations.
Local Open Scope N_scope.

(* ------------------------------------------------------------------ *)
(* 1. Go strings as byte lists; the map[string][]byte                  *)
(* ------------------------------------------------------------------ *)

Fixpoint bytes_eqb (a b : list N) : bool :=
  match a, b with
  | [], [] => true
  | x :: a', y :: b' => (x =? y) && bytes_eqb a' b'
  | _, _ => false
  end.

(* tableData[k] = v on a map kept as a list of entries with pairwise different
   keys (C03's [table] = name bytes * option data; None = nil slice): an
   existing key keeps its place and gets the new value, a new key is added *)
Fixpoint map_set (k : list N) (v : option (list N)) (m : list table) : list table :=
  match m with
  | [] => [(k, v)]
  | e :: r => if bytes_eqb (fst e) k then (k, v) :: r else e :: map_set k v r
  end.

(* v, ok := tableData[k] *)
Fixpoint map_get (k : list N) (m : list table) : option (option (list N)) :=
  match m with
  | [] => None
  | e :: r => if bytes_eqb (fst e) k then Some (snd e) else map_get k r
  end.

(* a sequence of assignments, in order *)
Definition map_set_all (l : list table) (m : list table) : list table :=
  fold_left (fun acc e => map_set (fst e) (snd e) acc) l m.

(* the literal keys of write.go *)
Definition k_hhea : list N := [104; 104; 101; 97].
Definition k_hmtx : list N := [104; 109; 116; 120].
Definition k_cmap : list N := [99; 109; 97; 112].
Definition k_OS2  : list N := [79; 83; 47; 50].
Definition k_name : list N := [110; 97; 109; 101].
Definition k_post : list N := [112; 111; 115; 116].
Definition k_CFF  : list N := [67; 70; 70; 32].
Definition k_glyf : list N := [103; 108; 121; 102].
Definition k_loca : list N := [108; 111; 99; 97].
Definition k_maxp : list N := [109; 97; 120; 112].
Definition k_head : list N := [104; 101; 97; 100].
Definition k_GDEF : list N := [71; 68; 69; 70].
Definition k_GSUB : list N := [71; 83; 85; 66].
Definition k_GPOS : list N := [71; 80; 79; 83].

(* ------------------------------------------------------------------ *)
(* 2. What the assembly sees of a font                                 *)
(* ------------------------------------------------------------------ *)

(* dynamic type of f.Outlines; ONone = nil or any other type *)
Inductive okind : Type := OGlyf | OCff | ONone.

Definition okind_eqb (a b : okind) : bool :=
  match a, b with OGlyf, OGlyf | OCff, OCff | ONone, ONone => true | _, _ => false end.

(* the expressions whose value is stored under a key *)
Inductive src : Type :=
| SHhea   (* f.makeHmtx(), first result *)
| SHmtx   (* f.makeHmtx(), second result: nil without widths *)
| SCmap   (* f.CMapTable.Encode() *)
| SOS2    (* f.makeOS2() *)
| SName   (* f.makeName() *)
| SPost   (* f.makePost() *)
| SCff    (* f.makeCFF(outlines), first result *)
| SGlyf   (* outlines.Glyphs.Encode().GlyfData *)
| SLoca   (* outlines.Glyphs.Encode().LocaData *)
| SMaxp   (* (&maxp.Info{NumGlyphs: f.NumGlyphs(), TTF: ...}).Encode() *)
| SHead   (* f.makeHead(locaFormat) *)
| SGdef   (* f.Gdef.Encode() *)
| SGsub   (* f.Gsub.Encode() *)
| SGpos.  (* f.Gpos.Encode() *)

Record fdesc : Type := mk_fdesc {
  fd_kind : okind;
  fd_widths : bool;           (* glyf outlines: Outlines.Widths != nil *)
  fd_cmap : bool;             (* f.CMapTable != nil *)
  fd_gdef : bool;             (* f.Gdef != nil *)
  fd_gsub : bool;             (* f.Gsub != nil *)
  fd_gpos : bool;             (* f.Gpos != nil *)
  fd_cff_err : bool;          (* f.makeCFF returns an error *)
  fd_tables : list table;     (* glyf outlines: Outlines.Tables, any keys, nil values allowed *)
  fd_enc : src -> list N      (* the bytes the expression gives when it gives a non-nil slice *)
}.

(* makeHmtx: "if o, ok := f.Outlines.( *glyf.Outlines); !ok || o.Widths != nil
   { widths = make(...) }" - otherwise widths stays nil *)
Definition M_widths_made (d : fdesc) : bool :=
  negb (okind_eqb (fd_kind d) OGlyf) || fd_widths d.

(* hmtx.Info.Encode: "if info.Widths == nil || lsbs == nil { return hheaData,
   nil }".  makeHmtx leaves LSB unset and always sets GlyphExtents (GlyphBBoxes
   makes a slice), so "lsbs == nil && info.GlyphExtents != nil" holds and lsbs
   is made: only the widths decide. *)
Definition M_lsbs_nonnil (lsb_set extents_set : bool) : bool :=
  lsb_set || (negb lsb_set && extents_set).
Definition M_hmtx_nonnil (d : fdesc) : bool :=
  negb (negb (M_widths_made d) || negb (M_lsbs_nonnil false true)).

(* is the Go value of the expression non-nil? *)
Definition src_nonnil (d : fdesc) (s : src) : bool :=
  match s with
  | SHmtx => M_hmtx_nonnil d
  | SCmap => fd_cmap d
  | SGdef => fd_gdef d
  | SGsub => fd_gsub d
  | SGpos => fd_gpos d
  | _ => true
  end.

Definition src_val (d : fdesc) (s : src) : option (list N) :=
  if src_nonnil d s then Some (fd_enc d s) else None.

(* a value of type `any` in the variadic extraTables argument *)
Inductive anyv : Type :=
| AStr (s : list N)               (* a string *)
| ABytes (b : option (list N))    (* a []byte, possibly a nil one *)
| AOther.                         (* anything else, the untyped nil included *)

(* "for i := 0; i+1 < len(extraTables); i += 2 {
      tableData[extraTables[i].(string)] = extraTables[i+1].([]byte) }"
   a last argument without partner is never looked at *)
Fixpoint M_extra (ex : list anyv) (m : list table) : outcome (list table) :=
  match ex with
  | k :: v :: r =>
    match k, v with
    | AStr s, ABytes b => M_extra r (map_set s b m)
    | _, _ => Panic                       (* failed single-valued type assertion *)
    end
  | _ => Ok m
  end.

(* ------------------------------------------------------------------ *)
(* 3. The writers as step lists                                        *)
(* ------------------------------------------------------------------ *)

(* one statement of a writer's body, as far as the table map is concerned
   (the same shapes the translator emits into Gen/C03B.v, see Tie.v) *)
Inductive step : Type :=
| StSet (k : list N) (s : src)                 (* tableData[k] = s *)
| StSetIf (c : src) (k : list N) (s : src)     (* if c != nil { tableData[k] = s } *)
| StRange                                      (* for name, data := range outlines.Tables { tableData[name] = data } *)
| StAssert (k : okind)                         (* outlines := f.Outlines.(T) *)
| StErrCheck                                   (* cffData, err := f.makeCFF(outlines); if err != nil { return .., err } *)
| StExtra                                      (* the extraTables loop *)
| StPanic                                      (* panic("unexpected font type") *)
| StWrite (scaler : N).                        (* return header.Write(w, scaler, tableData) *)

(* Ok (scaler, map) = header.Write is reached with these arguments;
   Err = the writer returns an error before writing anything; Panic *)
Fixpoint run (d : fdesc) (ex : list anyv) (st : list step) (m : list table)
  : outcome (N * list table) :=
  match st with
  | [] => Panic
  | StSet k s :: r => run d ex r (map_set k (src_val d s) m)
  | StSetIf c k s :: r => run d ex r (if src_nonnil d c then map_set k (src_val d s) m else m)
  | StRange :: r => run d ex r (map_set_all (fd_tables d) m)
  | StAssert k :: r => if okind_eqb (fd_kind d) k then run d ex r m else Panic
  | StErrCheck :: r => if fd_cff_err d then Err else run d ex r m
  | StExtra :: r =>
    match M_extra ex m with
    | Ok m' => run d ex r m'
    | Err => Err
    | Panic => Panic
    | OutOfFuel => OutOfFuel
    end
  | StPanic :: _ => Panic
  | StWrite s :: _ => Ok (s, m)
  end.

(* Font.Write: the statements before the type switch, the three cases, the
   statements after it *)
Definition write_prefix : list step :=
  [StSet k_hhea SHhea; StSetIf SHmtx k_hmtx SHmtx; StSetIf SCmap k_cmap SCmap;
   StSet k_OS2 SOS2; StSet k_name SName; StSet k_post SPost].
Definition write_suffix (scaler : N) : list step :=
  [StSet k_maxp SMaxp; StSet k_head SHead;
   StSetIf SGdef k_GDEF SGdef; StSetIf SGsub k_GSUB SGsub; StSetIf SGpos k_GPOS SGpos;
   StWrite scaler].
Definition steps_write (k : okind) : list step :=
  match k with
  | OCff => write_prefix ++ [StErrCheck; StSet k_CFF SCff] ++ write_suffix header_scalerCFF
  | OGlyf => write_prefix ++ [StSet k_glyf SGlyf; StSet k_loca SLoca; StRange]
                          ++ write_suffix header_scalerTrueType
  | ONone => write_prefix ++ [StPanic]
  end.

(* Font.WriteTrueTypePDF *)
Definition steps_ttpdf : list step :=
  [StSetIf SCmap k_cmap SCmap; StSet k_hhea SHhea; StSet k_hmtx SHmtx;
   StAssert OGlyf;
   StSet k_glyf SGlyf; StSet k_loca SLoca; StRange;
   StSet k_maxp SMaxp; StSet k_head SHead;
   StExtra;
   StWrite header_scalerTrueType].

(* Font.WriteOpenTypeCFFPDF *)
Definition steps_cffpdf : list step :=
  [StSetIf SCmap k_cmap SCmap; StAssert OCff; StErrCheck; StSet k_CFF SCff;
   StWrite header_scalerCFF].

Inductive writer : Type := WFull | WTrueTypePDF | WCffPDF.

Definition steps_of (w : writer) (k : okind) : list step :=
  match w with
  | WFull => steps_write k
  | WTrueTypePDF => steps_ttpdf
  | WCffPDF => steps_cffpdf
  end.

(* only WriteTrueTypePDF has the variadic argument *)
Definition extras_of (w : writer) (ex : list anyv) : list anyv :=
  match w with WTrueTypePDF => ex | _ => [] end.

(* the arguments header.Write is called with *)
Definition M_assemble (w : writer) (d : fdesc) (ex : list anyv) : outcome (N * list table) :=
  run d (extras_of w ex) (steps_of w (fd_kind d)) [].

(* the file: C03's header.Write on the assembled map *)
Definition M_writer (w : writer) (d : fdesc) (ex : list anyv) : outcome (list N) :=
  match M_assemble w d ex with
  | Ok a => M_write (fst a) (snd a)
  | Err => Err
  | Panic => Panic
  | OutOfFuel => OutOfFuel
  end.

(* ------------------------------------------------------------------ *)
(* 4. Boolean hypotheses of the theorems                               *)
(* ------------------------------------------------------------------ *)

Definition any_ok (a : anyv) : bool :=
  match a with AStr s => bytes_ok s | _ => true end.

(* strings are strings of bytes *)
Definition desc_ok (d : fdesc) (ex : list anyv) : bool :=
  forallb (fun t : table => bytes_ok (fst t)) (fd_tables d) && forallb any_ok ex.
