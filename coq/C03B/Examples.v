(* C03B/Examples.v — non-vacuity: concrete font descriptions and extraTables
   lists that meet every hypothesis of every theorem of Props.v, the values
   the theorems speak about evaluated on them, and the `_refuted` witnesses
   (each replayed on the Go code by harness/c03b's boundary stream). *)
From Coq Require Import List NArith ZArith Bool Arith Lia.
From Common Require Import Bytes Outcome.
From Gen Require Import Consts C03.
From C03 Require Import Model Spec.
From C03B Require Import Model Spec Proofs_Order Proofs_Subset.
Import ListNotations.
Local Open Scope N_scope.

(* what the table makers return: small distinct byte strings; a head table of
   54 bytes so that the checksum adjustment is exercised *)
Definition ex_enc (s : src) : list N :=
  match s with
  | SHhea => [1; 1; 1; 1; 1; 1] | SHmtx => [2; 2; 2; 2] | SCmap => [3; 3; 3] | SOS2 => [4; 4]
  | SName => [5] | SPost => [] | SCff => [1; 0; 4; 1; 7] | SGlyf => [8; 8; 8; 8; 8] | SLoca => [0; 0; 0; 5]
  | SMaxp => [0; 1; 0; 0; 0; 2] | SHead => map N.of_nat (seq 1 54)
  | SGdef => [12; 12] | SGsub => [13] | SGpos => [14; 14; 14]
  end.

(* TrueType outlines WITHOUT widths, a cmap, GDEF only; raw tables: cvt, a nil
   prep, a name of three bytes, and a raw "GDEF" next to the font's own *)
Definition ex_glyf : fdesc :=
  mk_fdesc OGlyf false true true false false false
    [ ([99; 118; 116; 32], Some [1; 2; 3]);        (* "cvt " *)
      ([112; 114; 101; 112], None);                 (* "prep" = nil *)
      ([97; 98; 99], Some [9]);                     (* "abc" *)
      (k_GDEF, Some [1; 2; 3; 4]) ]
    ex_enc.

(* the same with widths and without the raw GDEF *)
Definition ex_glyf2 : fdesc :=
  mk_fdesc OGlyf true true true true false false
    [ ([99; 118; 116; 32], Some [1; 2; 3]); ([112; 114; 101; 112], None) ] ex_enc.

Definition ex_cff : fdesc := mk_fdesc OCff false true false true true false [] ex_enc.
Definition ex_cff_bad : fdesc := mk_fdesc OCff false false false false false true [] ex_enc.
Definition ex_none : fdesc := mk_fdesc ONone false false false false false false [] ex_enc.

(* extraTables: a new table, glyf removed by a nil slice, head replaced, a
   name of one byte, and a last argument without partner *)
Definition ex_extras : list anyv :=
  [ AStr k_OS2; ABytes (Some [5; 5]);
    AStr k_glyf; ABytes None;
    AStr k_head; ABytes (Some (map N.of_nat (seq 100 20)));
    AStr [120]; ABytes (Some [1]);
    AStr k_name ].

Definition out_of (w : writer) (d : fdesc) (ex : list anyv) : list N :=
  match M_writer w d ex with Ok b => b | _ => [] end.
Definition map_of (w : writer) (d : fdesc) (ex : list anyv) : list table :=
  match M_assemble w d ex with Ok a => snd a | _ => [] end.

(* ---- every hypothesis holds ---- *)

Example ex_hyps_ttpdf :
  desc_ok ex_glyf (extras_of WTrueTypePDF ex_extras) = true /\
  names_printable ex_glyf (extras_of WTrueTypePDF ex_extras) = true /\
  in_domain WTrueTypePDF ex_glyf ex_extras = true /\ S_errs WTrueTypePDF ex_glyf = false /\
  M_assemble WTrueTypePDF ex_glyf ex_extras = Ok (header_scalerTrueType, map_of WTrueTypePDF ex_glyf ex_extras) /\
  size_ok (map_of WTrueTypePDF ex_glyf ex_extras) = true /\
  count_readable (map_of WTrueTypePDF ex_glyf ex_extras) = true /\
  M_write header_scalerTrueType (map_of WTrueTypePDF ex_glyf ex_extras) = Ok (out_of WTrueTypePDF ex_glyf ex_extras) /\
  length (out_of WTrueTypePDF ex_glyf ex_extras) = 196%nat.
Proof. vm_compute. repeat split; reflexivity. Qed.

Example ex_hyps_full :
  desc_ok ex_glyf [] = true /\ names_printable ex_glyf [] = true /\
  in_domain WFull ex_glyf [] = true /\
  M_assemble WFull ex_glyf [] = Ok (header_scalerTrueType, map_of WFull ex_glyf []) /\
  size_ok (map_of WFull ex_glyf []) = true /\ count_readable (map_of WFull ex_glyf []) = true /\
  M_write header_scalerTrueType (map_of WFull ex_glyf []) = Ok (out_of WFull ex_glyf []) /\
  in_domain WFull ex_cff [] = true /\ size_ok (map_of WFull ex_cff []) = true /\
  in_domain WCffPDF ex_cff [] = true /\ size_ok (map_of WCffPDF ex_cff []) = true /\
  count_readable (map_of WCffPDF ex_cff []) = true /\
  M_assemble WCffPDF ex_cff [] = Ok (header_scalerCFF, map_of WCffPDF ex_cff []).
Proof. vm_compute. repeat split; reflexivity. Qed.

(* ---- what the theorems say, evaluated ---- *)

(* the files pass C03's verified container checker *)
Example ex_files_checked :
  container_ok (out_of WFull ex_glyf []) = true /\
  container_ok (out_of WTrueTypePDF ex_glyf []) = true /\
  container_ok (out_of WTrueTypePDF ex_glyf ex_extras) = true /\
  container_ok (out_of WFull ex_cff []) = true /\
  container_ok (out_of WCffPDF ex_cff []) = true.
Proof. vm_compute. repeat split; reflexivity. Qed.

Definition tag_names (b : list N) : list (list N) := map (fun r => be32 (r_tag r)) (dir_of b).

(* Font.Write, TrueType outlines without widths: no hmtx; the raw "cvt " is
   there, the nil "prep" and the three-byte name are not, and GDEF appears
   ONCE, with the font's own data *)
Example ex_dir_full :
  tag_names (out_of WFull ex_glyf []) =
  [k_GDEF; k_OS2; k_cmap; [99; 118; 116; 32]; k_glyf; k_head; k_hhea; k_loca; k_maxp; k_name; k_post] /\
  S_get WFull ex_glyf [] k_GDEF = Some (Some [12; 12]) /\
  S_get WFull ex_glyf [] k_hmtx = None /\
  S_get WFull ex_glyf [] [112; 114; 101; 112] = Some None.
Proof. vm_compute. repeat split; reflexivity. Qed.

(* WriteTrueTypePDF of the same font: hmtx is ASSIGNED nil and not counted;
   the raw GDEF is written as it is *)
Example ex_dir_ttpdf :
  tag_names (out_of WTrueTypePDF ex_glyf []) =
  [k_GDEF; k_cmap; [99; 118; 116; 32]; k_glyf; k_head; k_hhea; k_loca; k_maxp] /\
  num_tables (out_of WTrueTypePDF ex_glyf []) = 8 /\
  S_get WTrueTypePDF ex_glyf [] k_hmtx = Some None /\
  S_get WTrueTypePDF ex_glyf [] k_GDEF = Some (Some [1; 2; 3; 4]).
Proof. vm_compute. repeat split; reflexivity. Qed.

(* ... with the extra tables: OS/2 added, glyf removed, head replaced (and
   patched: the file still sums to the magic constant), the one-byte name and
   the unpaired last argument ignored *)
Example ex_dir_ttpdf_extras :
  tag_names (out_of WTrueTypePDF ex_glyf ex_extras) =
  [k_GDEF; k_OS2; k_cmap; [99; 118; 116; 32]; k_head; k_hhea; k_loca; k_maxp] /\
  S_get WTrueTypePDF ex_glyf ex_extras k_glyf = Some None /\
  S_get WTrueTypePDF ex_glyf ex_extras k_head = Some (Some (map N.of_nat (seq 100 20))) /\
  S_get WTrueTypePDF ex_glyf ex_extras k_name = None /\
  has_head (dir_of (out_of WTrueTypePDF ex_glyf ex_extras)) = true /\
  file_sum (out_of WTrueTypePDF ex_glyf ex_extras) = header_checksumMagic.
Proof. vm_compute. repeat split; reflexivity. Qed.

Example ex_dir_cff :
  tag_names (out_of WFull ex_cff []) =
  [k_CFF; k_GPOS; k_GSUB; k_OS2; k_cmap; k_head; k_hhea; k_hmtx; k_maxp; k_name; k_post] /\
  tag_names (out_of WCffPDF ex_cff []) = [k_CFF; k_cmap] /\
  rd32 (out_of WCffPDF ex_cff []) = header_scalerCFF /\
  has_head (dir_of (out_of WCffPDF ex_cff [])) = false.
Proof. vm_compute. repeat split; reflexivity. Qed.

(* the explicit lists of the plain case *)
Example ex_plain :
  S_plain WFull ex_cff = [k_hhea; k_hmtx; k_cmap; k_OS2; k_name; k_post; k_CFF; k_maxp; k_head; k_GSUB; k_GPOS] /\
  S_plain WCffPDF ex_cff = [k_cmap; k_CFF] /\
  S_plain WTrueTypePDF ex_glyf = [k_cmap; k_hhea; k_glyf; k_loca; k_maxp; k_head] /\
  S_plain WTrueTypePDF ex_glyf2 = [k_cmap; k_hhea; k_hmtx; k_glyf; k_loca; k_maxp; k_head].
Proof. vm_compute. repeat split; reflexivity. Qed.

(* reading back *)
Example ex_read_back :
  omap (fun r => (fst r, map (fun t : toc_entry => be32 (fst (fst t))) (toc_sorted (snd r))))
       (M_read_dir (out_of WTrueTypePDF ex_glyf ex_extras)) =
  Ok (header_scalerTrueType, [k_GDEF; k_OS2; k_cmap; [99; 118; 116; 32]; k_head; k_hhea; k_loca; k_maxp]).
Proof. vm_compute. reflexivity. Qed.

(* ---- pdf_writers_are_subsets ---- *)

(* hypotheses of the theorem on ex_glyf2 / ex_cff *)
Example ex_subset_hyps :
  desc_ok ex_glyf2 [] = true /\ names_printable ex_glyf2 [] = true /\
  size_ok (map_of WTrueTypePDF ex_glyf2 []) = true /\ count_readable (map_of WTrueTypePDF ex_glyf2 []) = true /\
  size_ok (map_of WFull ex_glyf2 []) = true /\ count_readable (map_of WFull ex_glyf2 []) = true /\
  M_assemble WTrueTypePDF ex_glyf2 [] = Ok (header_scalerTrueType, map_of WTrueTypePDF ex_glyf2 []) /\
  M_assemble WFull ex_glyf2 [] = Ok (header_scalerTrueType, map_of WFull ex_glyf2 []) /\
  layout_protected_tag ex_glyf2 (rd32 k_head) = false /\ layout_protected_tag ex_glyf2 (rd32 k_GDEF) = true.
Proof. vm_compute. repeat split; reflexivity. Qed.

(* which bytes differ: the two files hold the same head table up to bytes
   8..11, and these four bytes DO differ (the adjustment depends on the whole
   file); maxp and every other common table are identical *)
Definition table_in (b : list N) (k : list N) : list N :=
  match find (fun r => r_tag r =? rd32 k) (dir_of b) with
  | Some r => table_bytes b r
  | None => []
  end.

Example ex_head_adjustment_differs :
  let a := table_in (out_of WTrueTypePDF ex_glyf2 []) k_head in
  let b := table_in (out_of WFull ex_glyf2 []) k_head in
  firstn 8 a = firstn 8 b /\ skipn 12 a = skipn 12 b /\ sub a 8 4 <> sub b 8 4 /\
  table_in (out_of WTrueTypePDF ex_glyf2 []) k_maxp = table_in (out_of WFull ex_glyf2 []) k_maxp /\
  table_in (out_of WTrueTypePDF ex_glyf2 []) k_hmtx = table_in (out_of WFull ex_glyf2 []) k_hmtx.
Proof. vm_compute. repeat split; try reflexivity. discriminate. Qed.

(* REFUTED without the exclusion: a raw table named GDEF next to layout data
   of the font's own - the PDF writer writes the raw one, Font.Write the
   font's *)
Lemma pdf_subset_layout_conflict_refuted_ex :
  exists d k b1 b2,
    fd_kind d = OGlyf /\ desc_ok d [] = true /\ layout_protected d k = true /\
    S_table WTrueTypePDF d [] k b1 /\ S_table WFull d [] k b2 /\ b1 <> b2.
Proof.
  exists ex_glyf, k_GDEF, [1; 2; 3; 4], [12; 12].
  repeat split; try (vm_compute; reflexivity). discriminate.
Qed.

(* ---- writers_total: the excluded descriptions ---- *)

(* the caller removes every table: header.Write has nothing to write and
   panics (C03: write_total) *)
Definition ex_remove_all : list anyv :=
  flat_map (fun k => [AStr k; ABytes None])
           [k_cmap; k_hhea; k_hmtx; k_glyf; k_loca; k_maxp; k_head; [99; 118; 116; 32]; k_GDEF].

Example ex_nothing_to_write :
  S_kind_ok WTrueTypePDF (fd_kind ex_glyf) = true /\ extras_typed ex_remove_all = true /\
  S_nothing WTrueTypePDF ex_glyf ex_remove_all = true /\ in_domain WTrueTypePDF ex_glyf ex_remove_all = false /\
  M_writer WTrueTypePDF ex_glyf ex_remove_all = Panic.
Proof. vm_compute. repeat split; reflexivity. Qed.

Example ex_outcomes :
  M_writer WTrueTypePDF ex_cff [] = Panic /\ M_writer WCffPDF ex_glyf [] = Panic /\
  M_writer WFull ex_none [] = Panic /\ M_writer WTrueTypePDF ex_none [] = Panic /\ M_writer WCffPDF ex_none [] = Panic /\
  M_writer WFull ex_cff_bad [] = Err /\ M_writer WCffPDF ex_cff_bad [] = Err /\ S_errs WFull ex_cff_bad = true /\
  (* a name that is not a string / data that is not a byte slice *)
  M_writer WTrueTypePDF ex_glyf [AOther; ABytes (Some [1])] = Panic /\
  M_writer WTrueTypePDF ex_glyf [AStr k_post; AOther] = Panic /\
  M_writer WTrueTypePDF ex_glyf [AStr k_post; AStr k_post] = Panic /\
  (* ... but never looked at without a partner *)
  is_ok (M_writer WTrueTypePDF ex_glyf [AOther]) = true /\
  is_ok (M_writer WTrueTypePDF ex_glyf [AStr k_post; ABytes None; AOther]) = true /\
  (* the other writers have no such argument *)
  M_writer WFull ex_glyf [AOther; AOther] = M_writer WFull ex_glyf [].
Proof. vm_compute. repeat split; reflexivity. Qed.

(* the raw tables listed in another order give the same file *)
Example ex_order :
  M_writer WFull (with_tables ex_glyf (rev (fd_tables ex_glyf))) [] = M_writer WFull ex_glyf [] /\
  nodup_keys (fd_tables ex_glyf) = true /\
  Permutation.Permutation (fd_tables ex_glyf) (rev (fd_tables ex_glyf)).
Proof.
  split; [vm_compute; reflexivity|]. split; [vm_compute; reflexivity|]. apply Permutation.Permutation_rev.
Qed.

(* the remaining boolean hypotheses *)
Example ex_more_hyps :
  pdf_case WTrueTypePDF (fd_kind ex_glyf2) = true /\ pdf_case WCffPDF (fd_kind ex_cff) = true /\
  extras_keep_head ex_extras = true /\ extras_keep_head ex_remove_all = false /\
  S_kind_ok WTrueTypePDF (fd_kind ex_glyf) = true /\ S_kind_ok WFull (fd_kind ex_cff) = true /\
  S_kind_ok WCffPDF (fd_kind ex_cff) = true /\
  (* plain case: no raw tables, no extra tables *)
  fd_tables ex_cff = [] /\ extras_of WFull ex_extras = [] /\ desc_ok ex_cff [] = true.
Proof. vm_compute. repeat split; reflexivity. Qed.
