(* C03B/Props.v — part C03B of property C03: the files the three font writers
   of /repo/write.go produce - Font.Write, Font.WriteTrueTypePDF and
   Font.WriteOpenTypeCFFPDF - are well-formed sfnt containers holding exactly
   the tables the writer is documented to write.  Statements only; the proofs
   are in Proofs_*.v and Tie.v.  Everything about the container (header.Write,
   header.Read, the checksum) is C03's development, imported.

   A font is described by what the assembly can observe (Model.fdesc): the
   dynamic type of f.Outlines, which optional parts are nil, whether the CFF
   encoder fails, the raw table map of TrueType outlines (any names, nil
   values allowed) and the bytes each table maker returns; the extraTables
   argument is a list of values of type any.  All statements hold for EVERY
   such description and list. *)
From Coq Require Import List NArith ZArith Bool Arith Lia Permutation Sorted String.
From Common Require Import Bytes Outcome.
From Gen Require Import Consts C03 C03B.
From C03 Require Import Model Spec.
From C03B Require Import Model Spec Proofs_Map Proofs_Run Proofs_Writers Proofs_Total Proofs_Subset Proofs_Order Tie Examples.
Import ListNotations.
Local Open Scope N_scope.

(* 1. Every file a writer produces is a well-formed container in C03's sense:
   count and search fields, strictly sorted directory, 4-byte alignment, tables
   consecutive / disjoint / inside the file, length formula, zero padding,
   per-table checksums - and 0xB1B0AFBA as the file's word sum when a head
   table of at least 12 bytes is among the tables (also a head the caller
   passed through extraTables).  Hypotheses: names are strings of bytes; C03's
   size bounds on the assembled map (fewer than 4096 tables, file < 4 GiB). *)
Theorem writers_wf : forall (w : writer) (d : fdesc) (ex : list anyv) (s : N) (ts : list table) (out : list N),
  desc_ok d (extras_of w ex) = true ->
  M_assemble w d ex = Ok (s, ts) -> size_ok ts = true -> M_write s ts = Ok out ->
  S_wf out /\ (has_head (dir_of out) = true -> file_sum out = header_checksumMagic).
Proof. exact writers_wf_lemma. Qed.
Print Assumptions writers_wf.

(* 2. The tables in the file are EXACTLY the specification's (Spec.S_layers:
   the required tables of the writer and outline kind, the optional ones iff
   their source is not nil, the raw tables of TrueType outlines over the
   tables made from the font's fields but under maxp / head / the font's own
   layout tables, the caller's tables over everything): a name is in the
   directory iff it has four bytes and its final value is not nil, with that
   value as its data.  A nil value - hmtx of a TrueType font without widths in
   WriteTrueTypePDF, a nil raw table, a nil extraTables slice - removes the
   table and is not counted; an override replaces, it never duplicates (the
   directory's tags are pairwise different).  The scaler type is the one of
   the outline kind. *)
Theorem writers_table_set : forall (w : writer) (d : fdesc) (ex : list anyv) (s : N) (ts : list table) (out : list N),
  desc_ok d (extras_of w ex) = true ->
  M_assemble w d ex = Ok (s, ts) -> size_ok ts = true -> M_write s ts = Ok out ->
  rd32 (sub out 0 4) = S_scaler (fd_kind d) /\
  (forall tg body, In (tg, body) (M_filter ts) <-> exists k, S_table w d ex k body /\ rd32 k = tg) /\
  num_tables out = N.of_nat (List.length (M_filter ts)) /\
  Permutation (map (fun r => (r_tag r, r_len r)) (dir_of out))
              (map (fun tb : N * list N => (fst tb, N.of_nat (List.length (snd tb)))) (M_filter ts)) /\
  NoDup (map fst (M_filter ts)).
Proof. exact writers_table_set_lemma. Qed.
Print Assumptions writers_table_set.

(* 2b. Without raw tables and extra tables the directory is the explicit list
   Proofs_Order.S_plain: e.g. Font.Write on CFF outlines writes hhea hmtx
   [cmap] OS/2 name post CFF maxp head [GDEF] [GSUB] [GPOS];
   WriteOpenTypeCFFPDF writes [cmap] CFF; WriteTrueTypePDF writes [cmap] hhea
   [hmtx] glyf loca maxp head. *)
Theorem writers_table_set_plain : forall (w : writer) (d : fdesc) (ex : list anyv) (s : N) (ts : list table) (out : list N),
  fd_tables d = [] -> extras_of w ex = [] ->
  desc_ok d [] = true -> M_assemble w d ex = Ok (s, ts) -> size_ok ts = true -> M_write s ts = Ok out ->
  Permutation (map r_tag (dir_of out)) (map rd32 (S_plain w d)).
Proof. exact plain_table_set. Qed.
Print Assumptions writers_table_set_plain.

(* 3. header.Read on the written bytes succeeds, reports the scaler type, and
   its table of contents is exactly the specification's set (each tag once);
   ReadTableBytes returns every table byte for byte - a head table of 12 bytes
   or more up to its checksum adjustment, bytes 8..11.  Further hypotheses
   (those of C03's read_write_roundtrip): printable names, at most 280
   tables. *)
Theorem writers_read_back : forall (w : writer) (d : fdesc) (ex : list anyv) (s : N) (ts : list table) (out : list N),
  desc_ok d (extras_of w ex) = true -> names_printable d (extras_of w ex) = true ->
  M_assemble w d ex = Ok (s, ts) -> size_ok ts = true -> count_readable ts = true ->
  M_write s ts = Ok out ->
  exists toc,
    M_read_dir out = Ok (S_scaler (fd_kind d), toc) /\
    NoDup (map (fun t : toc_entry => fst (fst t)) toc) /\
    (forall k body, S_table w d ex k body ->
       exists off len, In (rd32 k, off, len) toc /\
                       List.length (slice_table out off len) = List.length body /\
                       clear_adj (rd32 k) (slice_table out off len) = clear_adj (rd32 k) body /\
                       (is_head (rd32 k, body) = false -> slice_table out off len = body)) /\
    (forall tg off len, In (tg, off, len) toc -> exists k body, S_table w d ex k body /\ rd32 k = tg).
Proof. exact writers_read_back_lemma. Qed.
Print Assumptions writers_read_back.

(* 4. The PDF writers write SUB-MAPS of what Font.Write writes for the same
   font (no extra tables): same scaler type; every table of the PDF file
   whose tag is not a layout table the font has data of its own for is in the
   full file with the same length and the same bytes - the head table up to
   bytes 8..11 (the checksum adjustment depends on the whole file; it really
   differs: Examples.ex_head_adjustment_differs); maxp and all others are
   identical. *)
Theorem pdf_writers_are_subsets : forall (w : writer) (d : fdesc) s1 ts1 out1 s2 ts2 out2,
  pdf_case w (fd_kind d) = true ->
  desc_ok d [] = true -> names_printable d [] = true ->
  M_assemble w d [] = Ok (s1, ts1) -> size_ok ts1 = true -> count_readable ts1 = true ->
  M_write s1 ts1 = Ok out1 ->
  M_assemble WFull d [] = Ok (s2, ts2) -> size_ok ts2 = true -> count_readable ts2 = true ->
  M_write s2 ts2 = Ok out2 ->
  s1 = s2 /\
  exists toc1 toc2,
    M_read_dir out1 = Ok (s1, toc1) /\ M_read_dir out2 = Ok (s2, toc2) /\
    forall tg off1 len1, In (tg, off1, len1) toc1 -> layout_protected_tag d tg = false ->
      exists off2 len2,
        In (tg, off2, len2) toc2 /\
        List.length (slice_table out1 off1 len1) = List.length (slice_table out2 off2 len2) /\
        clear_adj tg (slice_table out1 off1 len1) = clear_adj tg (slice_table out2 off2 len2) /\
        (tg <> tag_head -> slice_table out1 off1 len1 = slice_table out2 off2 len2).
Proof. exact pdf_subset_files. Qed.
Print Assumptions pdf_writers_are_subsets.

(* 4b. The exclusion is needed: a raw table named GDEF next to layout data of
   the font's own - WriteTrueTypePDF writes the raw table, Font.Write the
   font's (the raw-table comment of glyf.Outlines only speaks of cvt, fpgm,
   prep and gasp; sfnt.Read never produces such a font). *)
Theorem pdf_subset_layout_conflict_refuted :
  exists d k b1 b2,
    fd_kind d = OGlyf /\ desc_ok d [] = true /\ layout_protected d k = true /\
    S_table WTrueTypePDF d [] k b1 /\ S_table WFull d [] k b2 /\ b1 <> b2.
Proof. exact pdf_subset_layout_conflict_refuted_ex. Qed.
Print Assumptions pdf_subset_layout_conflict_refuted.

(* 5. Totality: a writer never loops; inside its domain (a font of the kind
   the writer is made for, extraTables a sequence of string / []byte pairs
   - a last argument without partner is never looked at -, and at least one
   table left to write) it does not panic: it returns the CFF encoder's error
   (S_errs) before anything is written, or produces a file.  Outside the
   domain it panics. *)
Theorem writers_total : forall (w : writer) (d : fdesc) (ex : list anyv),
  (in_domain w d ex = true -> S_errs w d = false -> exists out, M_writer w d ex = Ok out) /\
  (S_errs w d = true -> M_writer w d ex = Err) /\
  (in_domain w d ex = false -> S_errs w d = false -> M_writer w d ex = Panic) /\
  M_writer w d ex <> OutOfFuel.
Proof. exact writers_total_lemma. Qed.
Print Assumptions writers_total.

(* 5b. "At least one table left": always true for Font.Write and
   WriteOpenTypeCFFPDF (no raw table can replace maxp / CFF); for
   WriteTrueTypePDF as long as the caller does not pass a nil head table
   (witness that the condition is needed: Examples.ex_nothing_to_write). *)
Theorem writers_always_something : forall (d : fdesc) (ex : list anyv),
  (S_kind_ok WFull (fd_kind d) = true -> S_nothing WFull d ex = false) /\
  (S_kind_ok WCffPDF (fd_kind d) = true -> S_nothing WCffPDF d ex = false) /\
  (S_kind_ok WTrueTypePDF (fd_kind d) = true -> extras_keep_head ex = true ->
   S_nothing WTrueTypePDF d ex = false).
Proof.
  intros d ex. split; [apply full_writes_something|]. split; [apply cffpdf_writes_something|apply ttpdf_writes_something].
Qed.
Print Assumptions writers_always_something.

(* 6. The file does not depend on the order in which the Go runtime enumerates
   Outlines.Tables (the model lists a Go map). *)
Theorem writers_raw_table_order_irrelevant : forall (w : writer) (d : fdesc) (T : list table) (ex : list anyv),
  nodup_keys (fd_tables d) = true -> Permutation (fd_tables d) T ->
  desc_ok d (extras_of w ex) = true ->
  M_writer w (with_tables d T) ex = M_writer w d ex.
Proof. exact tables_order_independent. Qed.
Print Assumptions writers_raw_table_order_irrelevant.

(* 7. The model's step lists are the bodies of the three writers as
   regenerated from write.go on this run (coq/Gen/C03B.v): every table name,
   source expression, condition, the position of the raw-table loop and of
   the extraTables loop, the assertions on f.Outlines, the error check, the
   scaler constants, the signatures; the hmtx-is-nil condition of makeHmtx /
   hmtx.Info.Encode and header.Write's filter. *)
Theorem writers_regenerated :
  (map fst sfnt_Write_paths = [cff_outl; glyf_outl; "f.Outlines.(default)"%string] /\
   map (fun p => conv_steps (match fst p with
                             | "f.Outlines.(*cff.Outlines)"%string => OCff
                             | "f.Outlines.(*glyf.Outlines)"%string => OGlyf
                             | _ => ONone
                             end) (snd p)) sfnt_Write_paths =
   [Some (steps_write OCff); Some (steps_write OGlyf); Some (steps_write ONone)] /\
   sfnt_Write_signature = "(w io.Writer) (int64, error)"%string) /\
  (map fst sfnt_WriteTrueTypePDF_paths = [""%string] /\
   map (fun p => conv_steps OGlyf (snd p)) sfnt_WriteTrueTypePDF_paths = [Some steps_ttpdf] /\
   sfnt_WriteTrueTypePDF_signature = "(w io.Writer, extraTables ...any) (int64, error)"%string) /\
  (map fst sfnt_WriteOpenTypeCFFPDF_paths = [""%string] /\
   map (fun p => conv_steps OCff (snd p)) sfnt_WriteOpenTypeCFFPDF_paths = [Some steps_cffpdf] /\
   sfnt_WriteOpenTypeCFFPDF_signature = "(w io.Writer) (error)"%string).
Proof. exact (conj tie_write (conj tie_ttpdf tie_cffpdf)). Qed.
Print Assumptions writers_regenerated.

(* 8. When is the hmtx table nil?  The model's condition (TrueType outlines
   whose Widths are nil) is the composition of the three conditions as the
   source has them on this run: makeHmtx's "!ok || o.Widths != nil", Encode's
   default for lsbs and Encode's "info.Widths == nil || lsbs == nil"; and
   header.Write keeps an entry iff "data != nil && len(name) == 4" - the two
   facts "a nil value removes the table" rests on. *)
Theorem nil_conditions_regenerated :
  (forall d : fdesc,
     M_hmtx_nonnil d =
     negb (hmtx_Encode_nil_cond (sfnt_makeHmtx_widths_cond (okind_eqb (fd_kind d) OGlyf) (fd_widths d))
                                (false || hmtx_Encode_lsbs_cond false true))) /\
  (forall d : fdesc, M_hmtx_nonnil d = S_has_hmtx d) /\
  (forall t : table,
     (match M_filter [t] with [] => false | _ => true end) =
     header_Write_filter_cond (match snd t with Some _ => true | None => false end)
                              (Nat.eqb (List.length (fst t)) 4)).
Proof.
  split; [exact (proj2 (proj2 (proj2 (proj2 (proj2 (proj2 (proj2 tie_hmtx)))))))|].
  split; [exact hmtx_nonnil_spec|exact (proj2 tie_filter)].
Qed.
Print Assumptions nil_conditions_regenerated.
