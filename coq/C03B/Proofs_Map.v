(* C03B/Proofs_Map.v — the Go map as a list of entries with distinct keys:
   laws of map_set / map_get / map_set_all / get_last, preservation of C03's
   map_ok, membership in M_filter. *)
From Coq Require Import List NArith ZArith Bool Arith Lia Permutation.
From Common Require Import Bytes Outcome.
From Gen Require Import Consts.
From C03 Require Import Model Spec.
From C03B Require Import Model Spec.
Import ListNotations.
Local Open Scope N_scope.

Lemma bytes_eqb_spec a : forall b, reflect (a = b) (bytes_eqb a b).
Proof.
  induction a as [|x a IH]; intros [|y b]; cbn [bytes_eqb]; try (constructor; congruence).
  destruct (N.eqb_spec x y) as [->|Hne]; cbn [andb].
  - destruct (IH b) as [->|Hne]; constructor; congruence.
  - constructor. congruence.
Qed.

Lemma bytes_eqb_refl a : bytes_eqb a a = true.
Proof. destruct (bytes_eqb_spec a a); congruence. Qed.

Lemma bytes_eqb_false a b : a <> b -> bytes_eqb a b = false.
Proof. intros H. destruct (bytes_eqb_spec a b); congruence. Qed.

(* ---- get after set ---- *)

Lemma map_get_set k k' v m :
  map_get k (map_set k' v m) = if bytes_eqb k' k then Some v else map_get k m.
Proof.
  induction m as [|e r IH]; cbn [map_set map_get fst snd].
  - reflexivity.
  - destruct (bytes_eqb_spec (fst e) k') as [He|He]; cbn [map_get fst snd].
    + subst k'. destruct (bytes_eqb (fst e) k); reflexivity.
    + rewrite IH. destruct (bytes_eqb_spec (fst e) k) as [Hk|Hk].
      * subst k. now rewrite (bytes_eqb_false k' (fst e)) by congruence.
      * reflexivity.
Qed.

Lemma map_get_set_all k : forall L m,
  map_get k (map_set_all L m) =
  match get_last k L with Some v => Some v | None => map_get k m end.
Proof.
  induction L as [|e L IH]; intros m; cbn [map_set_all fold_left get_last].
  - reflexivity.
  - change (fold_left _ L ?x) with (map_set_all L x). rewrite IH, map_get_set.
    destruct (get_last k L); [reflexivity|]. destruct (bytes_eqb (fst e) k); reflexivity.
Qed.

Lemma get_last_app k a : forall b,
  get_last k (a ++ b) = match get_last k b with Some v => Some v | None => get_last k a end.
Proof.
  induction a as [|e a IH]; intros b; cbn [app get_last].
  - now destruct (get_last k b).
  - rewrite IH. destruct (get_last k b); reflexivity.
Qed.

Lemma map_set_all_app a b m : map_set_all (a ++ b) m = map_set_all b (map_set_all a m).
Proof. unfold map_set_all. apply fold_left_app. Qed.

(* ---- keys ---- *)

Lemma map_set_keys k v m :
  map fst (map_set k v m) =
  if existsb (fun e : table => bytes_eqb (fst e) k) m then map fst m else map fst m ++ [k].
Proof.
  induction m as [|e r IH]; cbn [map_set existsb map fst app].
  - reflexivity.
  - destruct (bytes_eqb_spec (fst e) k) as [He|He]; cbn [orb map fst].
    + now rewrite He.
    + rewrite IH. match goal with |- context [existsb ?f r] => now destruct (existsb f r) end.
Qed.

Lemma existsb_key_false k m :
  existsb (fun e : table => bytes_eqb (fst e) k) m = false -> ~ In k (map fst m).
Proof.
  induction m as [|e r IH]; cbn [existsb map In]; [tauto|].
  intros H. apply orb_false_iff in H as [H1 H2]. intros [Hk|Hk].
  - subst k. now rewrite bytes_eqb_refl in H1.
  - now apply IH.
Qed.

Lemma map_set_nodup k v m : NoDup (map fst m) -> NoDup (map fst (map_set k v m)).
Proof.
  intros H. rewrite map_set_keys.
  match goal with |- context [existsb ?f m] => destruct (existsb f m) eqn:E end; [exact H|].
  apply existsb_key_false in E.
  apply (Permutation_NoDup (l := k :: map fst m)).
  - apply Permutation_cons_append.
  - now constructor.
Qed.

Lemma map_set_all_nodup : forall L m, NoDup (map fst m) -> NoDup (map fst (map_set_all L m)).
Proof.
  induction L as [|e L IH]; intros m H; cbn [map_set_all fold_left]; [exact H|].
  apply IH. now apply map_set_nodup.
Qed.

Lemma map_set_keys_Forall (P : list N -> Prop) k v m :
  P k -> Forall P (map fst m) -> Forall P (map fst (map_set k v m)).
Proof.
  intros Hk H. rewrite map_set_keys.
  match goal with |- context [existsb ?f m] => destruct (existsb f m) end; [exact H|].
  apply Forall_app. split; [exact H|]. now constructor.
Qed.

Lemma map_set_all_keys_Forall (P : list N -> Prop) : forall L m,
  Forall P (map fst L) -> Forall P (map fst m) -> Forall P (map fst (map_set_all L m)).
Proof.
  induction L as [|e L IH]; intros m HL Hm; cbn [map_set_all fold_left]; [exact Hm|].
  inversion HL; subst. apply IH; [assumption|]. now apply map_set_keys_Forall.
Qed.

(* every key of the result was assigned or was there before *)
Lemma map_set_all_keys_in : forall L m k,
  In k (map fst (map_set_all L m)) -> In k (map fst L) \/ In k (map fst m).
Proof.
  intros L m k H.
  assert (F : Forall (fun x => In x (map fst L) \/ In x (map fst m)) (map fst (map_set_all L m))).
  { apply map_set_all_keys_Forall.
    - apply Forall_forall. intros x Hx. now left.
    - apply Forall_forall. intros x Hx. now right. }
  rewrite Forall_forall in F. now apply F.
Qed.

(* ---- membership ---- *)

Lemma map_get_some_in k v : forall m, map_get k m = Some v -> In (k, v) m.
Proof.
  induction m as [|[k' v'] r IH]; cbn [map_get fst snd]; [discriminate|].
  destruct (bytes_eqb_spec k' k) as [->|Hne]; intros H.
  - injection H as <-. now left.
  - right. now apply IH.
Qed.

Lemma map_get_none_notin k : forall m, map_get k m = None -> ~ In k (map fst m).
Proof.
  induction m as [|[k' v'] r IH]; cbn [map_get fst snd map In]; [tauto|].
  destruct (bytes_eqb_spec k' k) as [->|Hne]; [discriminate|].
  intros H [E|E]; [congruence|]. now apply IH.
Qed.

Lemma map_in_get k v : forall m, NoDup (map fst m) -> In (k, v) m -> map_get k m = Some v.
Proof.
  induction m as [|[k' v'] r IH]; cbn [map_get fst snd map In]; [tauto|].
  intros Hnd [E|E].
  - injection E as -> ->. now rewrite bytes_eqb_refl.
  - inversion Hnd as [|? ? Hni Hnd']; subst.
    destruct (bytes_eqb_spec k' k) as [->|Hne].
    + exfalso. apply Hni. change k with (fst (k, v)). now apply in_map.
    + now apply IH.
Qed.

Lemma map_get_in_iff m k v : NoDup (map fst m) -> (In (k, v) m <-> map_get k m = Some v).
Proof. intros H. split; [now apply map_in_get|apply map_get_some_in]. Qed.

(* what header.Write keeps: entries with data and a name of four bytes *)
Lemma filter_in ts tg body :
  In (tg, body) (M_filter ts) <->
  exists k, In (k, Some body) ts /\ length k = 4%nat /\ rd32 k = tg.
Proof.
  unfold M_filter. rewrite in_flat_map. split.
  - intros [[k [d|]] [Hin H]]; cbn [fst snd] in H; [|contradiction].
    destruct (Nat.eqb_spec (length k) 4) as [Hl|Hl]; [|contradiction].
    destruct H as [H|[]]. injection H as <- <-. exists k. auto.
  - intros [k [Hin [Hl <-]]]. exists (k, Some body). split; [exact Hin|].
    cbn [fst snd]. rewrite Hl. cbn. now left.
Qed.

Lemma filter_nil ts :
  M_filter ts = [] <->
  forall k v, In (k, v) ts -> v = None \/ length k <> 4%nat.
Proof.
  split.
  - intros H k [body|] Hin; [|now left]. right. intros Hl.
    assert (Hx : In (rd32 k, body) (M_filter ts)) by (apply filter_in; exists k; auto).
    rewrite H in Hx. contradiction.
  - intros H. destruct (M_filter ts) as [|[tg body] r] eqn:E; [reflexivity|].
    assert (Hx : In (tg, body) (M_filter ts)) by (rewrite E; now left).
    apply filter_in in Hx as [k [Hin [Hl _]]]. destruct (H _ _ Hin); [discriminate|contradiction].
Qed.

(* ---- C03's map_ok ---- *)

Lemma bytes_ok_is_byte k : bytes_ok k = true -> Forall is_byte k.
Proof.
  unfold bytes_ok. rewrite forallb_forall, Forall_forall. intros H x Hx.
  specialize (H x Hx). unfold byte_ok in H. unfold is_byte. now apply N.ltb_lt.
Qed.

Lemma map_ok_of m :
  NoDup (map fst m) -> Forall (fun k => Forall is_byte k) (map fst m) -> map_ok m.
Proof.
  intros H1 H2. split; [exact H1|]. rewrite Forall_map in H2. exact H2.
Qed.

(* two maps with distinct keys and the same lookups hold the same entries *)
Lemma map_ext_perm m m' :
  NoDup (map fst m) -> NoDup (map fst m') ->
  (forall k, map_get k m = map_get k m') -> Permutation m m'.
Proof.
  intros H1 H2 H.
  assert (N1 : NoDup m) by (eapply NoDup_map_inv; exact H1).
  assert (N2 : NoDup m') by (eapply NoDup_map_inv; exact H2).
  apply NoDup_Permutation; try assumption.
  intros [k v]. rewrite (map_get_in_iff m k v H1), (map_get_in_iff m' k v H2), H. tauto.
Qed.
