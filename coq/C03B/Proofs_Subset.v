(* C03B/Proofs_Subset.v — the PDF writers write sub-maps of what Font.Write
   writes for the same font, up to the layout tables a raw table of the
   outlines cannot replace in Font.Write. *)
From Coq Require Import List NArith ZArith Bool Arith Lia Permutation.
From Common Require Import Bytes Outcome.
From Gen Require Import Consts.
From C03 Require Import Model Spec Props.
From C03B Require Import Model Spec Proofs_Map Proofs_Run Proofs_Writers.
Import ListNotations.
Local Open Scope N_scope.

(* case split on "is k this literal name?" *)
Ltac split_on k lit :=
  let E := fresh "E" in
  destruct (bytes_eqb_spec lit k) as [E|E];
  [subst k | rewrite ?(bytes_eqb_false _ _ E) in *].

Ltac lit_eval := cbn [get_last fst snd bytes_eqb N.eqb Pos.eqb andb app k_hhea k_hmtx k_cmap k_OS2 k_name k_post
                      k_CFF k_glyf k_loca k_maxp k_head k_GDEF k_GSUB k_GPOS] in *.

(* the tables made from the font's fields before the raw tables are copied *)
Lemma ttpdf_base_subset d k body :
  get_last k (opt (fd_cmap d) d k_cmap SCmap ++ req d k_hhea SHhea ++ nilable (S_has_hmtx d) d k_hmtx SHmtx ++
              req d k_glyf SGlyf ++ req d k_loca SLoca) = Some (Some body) ->
  get_last k (req d k_hhea SHhea ++ opt (S_has_hmtx d) d k_hmtx SHmtx ++ opt (fd_cmap d) d k_cmap SCmap ++
              req d k_OS2 SOS2 ++ req d k_name SName ++ req d k_post SPost ++
              req d k_glyf SGlyf ++ req d k_loca SLoca) = Some (Some body).
Proof.
  unfold req, opt, nilable. intros H.
  destruct (S_has_hmtx d), (fd_cmap d); cbn [app get_last fst snd] in *;
    (split_on k k_loca; [lit_eval; exact H|]);
    (split_on k k_glyf; [lit_eval; exact H|]);
    (split_on k k_hmtx; [lit_eval; first [exact H|discriminate H]|]);
    (split_on k k_hhea; [lit_eval; exact H|]);
    (split_on k k_cmap; [lit_eval; first [exact H|discriminate H]|]);
    cbn [get_last fst snd] in H; discriminate H.
Qed.

(* maxp and head, and in Font.Write the layout tables of the font *)
Lemma protected_same d k :
  layout_protected d k = false ->
  get_last k (req d k_maxp SMaxp ++ req d k_head SHead ++
              opt (fd_gdef d) d k_GDEF SGdef ++ opt (fd_gsub d) d k_GSUB SGsub ++ opt (fd_gpos d) d k_GPOS SGpos) =
  get_last k (req d k_maxp SMaxp ++ req d k_head SHead).
Proof.
  unfold layout_protected, req, opt. intros H.
  apply orb_false_iff in H as [H H3]. apply orb_false_iff in H as [H1 H2].
  destruct (fd_gdef d), (fd_gsub d), (fd_gpos d); cbn [andb] in H1, H2, H3;
    cbn [app get_last fst snd]; rewrite ?H1, ?H2, ?H3; reflexivity.
Qed.

Lemma ttpdf_subset_get d k body :
  fd_kind d = OGlyf ->
  S_get WTrueTypePDF d [] k = Some (Some body) -> layout_protected d k = false ->
  S_get WFull d [] k = Some (Some body).
Proof.
  intros K H NP. unfold S_get, S_layers in *. rewrite K in *. cbn [concat extras_pairs] in *.
  rewrite ?app_nil_r in *.
  rewrite (get_last_app k _ (fd_tables d ++ _)), (get_last_app k (fd_tables d)) in H.
  rewrite (get_last_app k _ (fd_tables d ++ _)), (get_last_app k (fd_tables d)).
  rewrite (protected_same d k NP).
  destruct (get_last k (req d k_maxp SMaxp ++ req d k_head SHead)); [exact H|].
  destruct (get_last k (fd_tables d)); [exact H|].
  now apply ttpdf_base_subset.
Qed.

Lemma cffpdf_subset_get d k body :
  fd_kind d = OCff ->
  S_get WCffPDF d [] k = Some (Some body) -> S_get WFull d [] k = Some (Some body).
Proof.
  intros K H. unfold S_get, S_layers in *. rewrite K in *. cbn [concat] in *.
  rewrite ?app_nil_r in *. unfold req, opt in *.
  destruct (S_has_hmtx d), (fd_cmap d), (fd_gdef d), (fd_gsub d), (fd_gpos d); cbn [app get_last fst snd] in *;
    (split_on k k_CFF; [lit_eval; exact H|]);
    (split_on k k_cmap; [lit_eval; first [exact H|discriminate H]|]);
    cbn [get_last fst snd] in H; discriminate H.
Qed.

(* the name of a table that is in the layout-protected set, at tag level *)
Definition layout_protected_tag (d : fdesc) (tg : N) : bool :=
  (fd_gdef d && (tg =? rd32 k_GDEF)) || (fd_gsub d && (tg =? rd32 k_GSUB)) || (fd_gpos d && (tg =? rd32 k_GPOS)).

Lemma layout_protected_of_tag d k :
  layout_protected_tag d (rd32 k) = false -> layout_protected d k = false.
Proof.
  unfold layout_protected_tag, layout_protected. intros H.
  apply orb_false_iff in H as [H H3]. apply orb_false_iff in H as [H1 H2].
  assert (A : forall (b : bool) lit, b && (rd32 k =? rd32 lit) = false -> b && bytes_eqb lit k = false).
  { intros b lit Hb. destruct b; [|reflexivity]. cbn [andb] in *.
    destruct (bytes_eqb_spec lit k) as [<-|]; [|reflexivity]. now rewrite N.eqb_refl in Hb. }
  now rewrite (A _ _ H1), (A _ _ H2), (A _ _ H3).
Qed.

(* file level: both files read back; every table of the PDF file that is not
   layout-protected is in the full file with the same bytes, the head
   table up to its checksum adjustment (bytes 8..11) *)
Lemma pdf_subset_files w d s1 ts1 out1 s2 ts2 out2 :
  pdf_case w (fd_kind d) = true ->
  desc_ok d [] = true -> names_printable d [] = true ->
  M_assemble w d [] = Ok (s1, ts1) -> size_ok ts1 = true -> count_readable ts1 = true ->
  M_write s1 ts1 = Ok out1 ->
  M_assemble WFull d [] = Ok (s2, ts2) -> size_ok ts2 = true -> count_readable ts2 = true ->
  M_write s2 ts2 = Ok out2 ->
  s1 = s2 /\
  exists toc1 toc2,
    M_read_dir out1 = Ok (s1, toc1) /\ M_read_dir out2 = Ok (s2, toc2) /\
    forall tg off1 len1, In (tg, off1, len1) toc1 -> layout_protected_tag d tg = false ->
      exists off2 len2,
        In (tg, off2, len2) toc2 /\
        length (slice_table out1 off1 len1) = length (slice_table out2 off2 len2) /\
        clear_adj tg (slice_table out1 off1 len1) = clear_adj tg (slice_table out2 off2 len2) /\
        (tg <> tag_head -> slice_table out1 off1 len1 = slice_table out2 off2 len2).
Proof.
  intros HW0 HD HP HA1 HS1 HC1 HW1 HA2 HS2 HC2 HW2.
  assert (HW : (w = WTrueTypePDF /\ fd_kind d = OGlyf) \/ (w = WCffPDF /\ fd_kind d = OCff)).
  { unfold pdf_case in HW0. destruct w, (fd_kind d); try discriminate; auto. }
  assert (HD1 : desc_ok d (extras_of w []) = true) by (destruct w; exact HD).
  assert (HP1 : names_printable d (extras_of w []) = true) by (destruct w; exact HP).
  destruct (writers_read_back_lemma w d [] s1 ts1 out1 HD1 HP1 HA1 HS1 HC1 HW1)
    as (toc1 & Hr1 & Hn1 & Hf1 & Hb1).
  destruct (writers_read_back_lemma WFull d [] s2 ts2 out2 HD HP HA2 HS2 HC2 HW2)
    as (toc2 & Hr2 & Hn2 & Hf2 & Hb2).
  destruct (assemble_ok_inv _ _ _ _ _ HA1) as (_ & _ & _ & Es1 & _).
  destruct (assemble_ok_inv _ _ _ _ _ HA2) as (_ & _ & _ & Es2 & _).
  split; [congruence|]. exists toc1, toc2. rewrite Es1, Es2. repeat split; try assumption.
  intros tg off1 len1 Hin HNP.
  destruct (Hb1 _ _ _ Hin) as (k & body & HT & Hk). subst tg.
  apply layout_protected_of_tag in HNP.
  assert (HT2 : S_table WFull d [] k body).
  { destruct HT as [HG HL]. split; [|exact HL].
    destruct HW as [[-> K]|[-> K]]; [now apply ttpdf_subset_get|now apply cffpdf_subset_get]. }
  destruct (Hf1 _ _ HT) as (o1 & l1 & Hi1 & Hl1 & Hc1 & Hh1).
  destruct (Hf2 _ _ HT2) as (o2 & l2 & Hi2 & Hl2 & Hc2 & Hh2).
  (* the entry of toc1 with this tag is the one given *)
  assert (Heq : (o1, l1) = (off1, len1)).
  { clear - Hn1 Hi1 Hin. induction toc1 as [|[[t o] l] r IH]; [contradiction|].
    cbn [map fst] in Hn1. inversion Hn1 as [|? ? Hni Hnd]; subst.
    destruct Hi1 as [E1|E1], Hin as [E2|E2].
    - congruence.
    - injection E1 as -> -> ->. exfalso. apply Hni. apply in_map_iff. exists (rd32 k, off1, len1). auto.
    - injection E2 as -> -> ->. exfalso. apply Hni. apply in_map_iff. exists (rd32 k, o1, l1). auto.
    - now apply IH. }
  injection Heq as -> ->.
  exists o2, l2. split; [exact Hi2|].
  split.
  - congruence.
  - split; [congruence|].
    intros Hne.
    assert (Hh : is_head (rd32 k, body) = false).
    { unfold is_head. cbn [fst snd]. apply andb_false_iff. left. now apply N.eqb_neq. }
    rewrite (Hh1 Hh), (Hh2 Hh). reflexivity.
Qed.
