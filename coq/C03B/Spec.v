(* C03B/Spec.v — what the three writers are supposed to put into a file,
   written from the documentation of the writers ("Only the tables needed for
   PDF embedding are included"; "These tables are included in the output and
   override the default tables"), the field comment of glyf.Outlines.Tables
   (raw tables carried over as they are) and the OpenType list of required
   tables - not from the order of the statements in write.go.

   A writer's table set is given as LAYERS of (name, value) entries: a later
   layer overrides an earlier one, inside a layer a later entry overrides an
   earlier one; a nil value removes the table.  The file holds exactly the
   names of four bytes whose final value is not nil. *)
From Coq Require Import List NArith ZArith Bool Arith.
From Common Require Import Bytes Outcome.
From Gen Require Import Consts.
From C03 Require Import Model Spec.
From C03B Require Import Model.
Import ListNotations.
Local Open Scope N_scope.

(* the last assignment to k in a list of assignments *)
Fixpoint get_last (k : list N) (l : list table) : option (option (list N)) :=
  match l with
  | [] => None
  | e :: r =>
    match get_last k r with
    | Some v => Some v
    | None => if bytes_eqb (fst e) k then Some (snd e) else None
    end
  end.

(* a table that is always there / there iff its source exists / assigned in
   any case, nil without its source *)
Definition req (d : fdesc) (k : list N) (s : src) : list table := [(k, Some (fd_enc d s))].
Definition opt (c : bool) (d : fdesc) (k : list N) (s : src) : list table :=
  if c then [(k, Some (fd_enc d s))] else [].
Definition nilable (c : bool) (d : fdesc) (k : list N) (s : src) : list table :=
  [(k, if c then Some (fd_enc d s) else None)].

(* horizontal metrics exist unless the font has TrueType outlines without
   advance widths *)
Definition S_has_hmtx (d : fdesc) : bool :=
  match fd_kind d with OGlyf => fd_widths d | _ => true end.

(* the (name, data) pairs of a well-typed extraTables list; a last argument
   without partner is ignored *)
Fixpoint extras_pairs (ex : list anyv) : list table :=
  match ex with
  | AStr s :: ABytes b :: r => (s, b) :: extras_pairs r
  | _ => []
  end.

(* "must be a sequence of pairs of strings and byte slices" *)
Fixpoint extras_typed (ex : list anyv) : bool :=
  match ex with
  | k :: v :: r =>
    match k, v with
    | AStr _, ABytes _ => extras_typed r
    | _, _ => false
    end
  | _ => true
  end.

Definition S_layers (w : writer) (d : fdesc) (ex : list anyv) : list (list table) :=
  match w, fd_kind d with
  | WFull, OGlyf =>
    [ (* tables made from the font's fields; a raw table of the same name wins *)
      req d k_hhea SHhea ++ opt (S_has_hmtx d) d k_hmtx SHmtx ++ opt (fd_cmap d) d k_cmap SCmap ++
      req d k_OS2 SOS2 ++ req d k_name SName ++ req d k_post SPost ++
      req d k_glyf SGlyf ++ req d k_loca SLoca ;
      (* the raw tables of the outlines *)
      fd_tables d ;
      (* tables a raw table cannot replace *)
      req d k_maxp SMaxp ++ req d k_head SHead ++
      opt (fd_gdef d) d k_GDEF SGdef ++ opt (fd_gsub d) d k_GSUB SGsub ++ opt (fd_gpos d) d k_GPOS SGpos ]
  | WFull, OCff =>
    [ req d k_hhea SHhea ++ opt (S_has_hmtx d) d k_hmtx SHmtx ++ opt (fd_cmap d) d k_cmap SCmap ++
      req d k_OS2 SOS2 ++ req d k_name SName ++ req d k_post SPost ++
      req d k_CFF SCff ++ req d k_maxp SMaxp ++ req d k_head SHead ++
      opt (fd_gdef d) d k_GDEF SGdef ++ opt (fd_gsub d) d k_GSUB SGsub ++ opt (fd_gpos d) d k_GPOS SGpos ]
  | WTrueTypePDF, OGlyf =>
    [ opt (fd_cmap d) d k_cmap SCmap ++ req d k_hhea SHhea ++ nilable (S_has_hmtx d) d k_hmtx SHmtx ++
      req d k_glyf SGlyf ++ req d k_loca SLoca ;
      fd_tables d ;
      req d k_maxp SMaxp ++ req d k_head SHead ;
      (* the caller's tables override everything *)
      extras_pairs ex ]
  | WCffPDF, OCff =>
    [ opt (fd_cmap d) d k_cmap SCmap ++ req d k_CFF SCff ]
  | _, _ => []
  end.

(* the final value of name k: None = never mentioned, Some None = nil *)
Definition S_get (w : writer) (d : fdesc) (ex : list anyv) (k : list N) : option (option (list N)) :=
  get_last k (concat (S_layers w d ex)).

(* table k with these bytes is to be in the file *)
Definition S_table (w : writer) (d : fdesc) (ex : list anyv) (k body : list N) : Prop :=
  S_get w d ex k = Some (Some body) /\ length k = 4%nat.

(* no name of four bytes is left with a value: there is nothing to write *)
Definition S_nothing (w : writer) (d : fdesc) (ex : list anyv) : bool :=
  forallb (fun e : table =>
             match S_get w d ex (fst e) with
             | Some (Some _) => negb (Nat.eqb (length (fst e)) 4)
             | _ => true
             end) (concat (S_layers w d ex)).

(* the scaler type: by outline kind *)
Definition S_scaler (k : okind) : N :=
  match k with OCff => header_scalerCFF | _ => header_scalerTrueType end.

(* ---- the domain of the writers ---- *)

(* the writer is defined for this kind of outlines ("if the font does not use
   TrueType outlines, the function panics") *)
Definition S_kind_ok (w : writer) (k : okind) : bool :=
  match w, k with
  | WFull, OGlyf | WFull, OCff | WTrueTypePDF, OGlyf | WCffPDF, OCff => true
  | _, _ => false
  end.

Definition in_domain (w : writer) (d : fdesc) (ex : list anyv) : bool :=
  S_kind_ok w (fd_kind d) && extras_typed (extras_of w ex) && negb (S_nothing w d ex).

(* the CFF encoder refuses the glyphs *)
Definition S_errs (w : writer) (d : fdesc) : bool :=
  S_kind_ok w (fd_kind d) && okind_eqb (fd_kind d) OCff && fd_cff_err d.

(* ---- hypotheses inherited from C03, as booleans on the assembled map ---- *)

Definition size_ok (ts : list table) : bool :=
  (N.of_nat (length (M_filter ts)) <? 4096) && (file_size (M_filter ts) <? 4294967296).

Definition count_readable (ts : list table) : bool :=
  N.of_nat (length (M_filter ts)) <=? header_maxTables.

Definition any_printable (a : anyv) : bool :=
  match a with AStr s => forallb printable s | _ => true end.
Definition names_printable (d : fdesc) (ex : list anyv) : bool :=
  forallb (fun t : table => forallb printable (fst t)) (fd_tables d) && forallb any_printable ex.

(* the tables a raw table of the outlines cannot replace in Font.Write *)
Definition layout_protected (d : fdesc) (k : list N) : bool :=
  (fd_gdef d && bytes_eqb k_GDEF k) || (fd_gsub d && bytes_eqb k_GSUB k) || (fd_gpos d && bytes_eqb k_GPOS k).

(* ---- further boolean hypotheses ---- *)

(* the names of a raw table map are pairwise different (a Go map) *)
Fixpoint nodup_keys (l : list table) : bool :=
  match l with
  | [] => true
  | e :: r => negb (existsb (fun x : table => bytes_eqb (fst x) (fst e)) r) && nodup_keys r
  end.

(* the caller does not pass a nil head table *)
Definition extras_keep_head (ex : list anyv) : bool :=
  match get_last k_head (extras_pairs ex) with Some None => false | _ => true end.

(* a PDF writer on the kind of font it is made for *)
Definition pdf_case (w : writer) (k : okind) : bool :=
  match w, k with WTrueTypePDF, OGlyf | WCffPDF, OCff => true | _, _ => false end.
