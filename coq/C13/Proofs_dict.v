(* C13/Proofs_dict.v — DICT integer operands: the translated encoder against
   the mirror of decodeDict; size classes. *)
From Coq Require Import List NArith ZArith Bool Arith Lia.
From Coq Require Import ZifyBool ZifyNat ZifyN.
From Common Require Import Bytes Outcome.
From Gen Require Import C13.
From C13 Require Import Model ModelDict.
Import ListNotations.
Ltac Zify.zify_post_hook ::= Z.div_mod_to_equations.
Local Open Scope Z_scope.

Lemma shiftr8 a : Z.shiftr a 8 = a / 256.
Proof. rewrite Z.shiftr_div_pow2 by lia. reflexivity. Qed.
Lemma shiftr16 a : Z.shiftr a 16 = a / 65536.
Proof. rewrite Z.shiftr_div_pow2 by lia. reflexivity. Qed.
Lemma shiftr24 a : Z.shiftr a 24 = a / 16777216.
Proof. rewrite Z.shiftr_div_pow2 by lia. reflexivity. Qed.

Ltac enc_cases :=
  unfold cff_dict_encode_int; cbv zeta;
  repeat match goal with
         | |- context [Z.leb ?x ?y] => destruct (Z.leb_spec x y); try lia
         end;
  cbn [andb app];
  rewrite ?shiftr8, ?shiftr16, ?shiftr24;
  unfold gw_u8, gw_u16, gw_u32, gw_i32.

(* the five forms, as explicit byte values *)
Lemma enc_form1 a : -107 <= a <= 107 -> cff_dict_encode_int a = [a + 139].
Proof. intros H. enc_cases; repeat (f_equal; try lia). Qed.

Lemma enc_form2 a : 108 <= a <= 1131 ->
  cff_dict_encode_int a = [(a - 108) / 256 + 247; (a - 108) mod 256].
Proof. intros H. enc_cases; repeat (f_equal; try lia). Qed.

Lemma enc_form3 a : -1131 <= a <= -108 ->
  cff_dict_encode_int a = [(-108 - a) / 256 + 251; (-108 - a) mod 256].
Proof. intros H. enc_cases; repeat (f_equal; try lia). Qed.

Lemma enc_form4 a : -32768 <= a <= 32767 -> (a < -1131 \/ 1131 < a) ->
  cff_dict_encode_int a = [28; (a mod 65536) / 256; (a mod 65536) mod 256].
Proof. intros H H'. enc_cases; repeat (f_equal; try lia). Qed.

Lemma enc_form5 a : -2147483648 <= a <= 2147483647 -> (a < -32768 \/ 32767 < a) ->
  cff_dict_encode_int a =
  [29; (a mod 4294967296) / 16777216; ((a mod 4294967296) / 65536) mod 256;
   ((a mod 4294967296) / 256) mod 256; (a mod 4294967296) mod 256].
Proof. intros H H'. enc_cases; repeat (f_equal; try lia). Qed.

(* ---------- the reader on each form ---------- *)

Ltac ncmp :=
  repeat match goal with
         | |- context [(?x =? ?y)%N] => destruct (N.eqb_spec x y); try (exfalso; lia)
         | |- context [(?x <=? ?y)%N] => destruct (N.leb_spec x y); try (exfalso; lia)
         end.

Lemma tok_form1 b0 rest : (32 <= b0 <= 246)%N ->
  dict_token (b0 :: rest) = Ok (TVal (DInt (Z.of_N b0 - 139)), rest).
Proof. intros H. unfold dict_token. ncmp. reflexivity. Qed.

Lemma tok_form2 b0 b1 rest : (247 <= b0 <= 250)%N ->
  dict_token (b0 :: b1 :: rest) =
  Ok (TVal (DInt (Z.of_N b0 * 256 + Z.of_N b1 + (108 - 247 * 256))), rest).
Proof. intros H. unfold dict_token. ncmp. reflexivity. Qed.

Lemma tok_form3 b0 b1 rest : (251 <= b0 <= 254)%N ->
  dict_token (b0 :: b1 :: rest) =
  Ok (TVal (DInt (- Z.of_N b0 * 256 - Z.of_N b1 - (108 - 251 * 256))), rest).
Proof. intros H. unfold dict_token. ncmp. reflexivity. Qed.

Lemma tok_form4 b1 b2 rest :
  dict_token (28%N :: b1 :: b2 :: rest) = Ok (TVal (DInt (to_i16 (b1 * 256 + b2)%N)), rest).
Proof. reflexivity. Qed.

Lemma tok_form5 b1 b2 b3 b4 rest :
  dict_token (29%N :: b1 :: b2 :: b3 :: b4 :: rest) =
  Ok (TVal (DInt (to_i32 (b1 * 16777216 + b2 * 65536 + b3 * 256 + b4)%N)), rest).
Proof. reflexivity. Qed.

Ltac fin_int a :=
  match goal with |- Ok (TVal (DInt ?x), _) = _ => replace x with a; [reflexivity|] end.

Lemma dict_int_roundtrip_gen a rest :
  -2147483648 <= a <= 2147483647 ->
  dict_token (M_dict_int_encode a ++ rest) = Ok (TVal (DInt a), rest).
Proof.
  intros Ha. unfold M_dict_int_encode.
  destruct (Z_le_gt_dec (-107) a) as [L1|L1]; [destruct (Z_le_gt_dec a 107) as [U1|U1]|].
  - rewrite enc_form1 by lia. cbn [map app]. rewrite tok_form1 by lia.
    fin_int a. lia.
  - destruct (Z_le_gt_dec a 1131) as [U2|U2].
    + rewrite enc_form2 by lia. cbn [map app]. rewrite tok_form2 by lia.
      fin_int a. lia.
    + destruct (Z_le_gt_dec a 32767) as [U3|U3].
      * rewrite enc_form4 by lia. cbn [map app]. rewrite tok_form4.
        fin_int a. unfold to_i16.
        destruct (N.ltb_spec (Z.to_N (a mod 65536 / 256) * 256 + Z.to_N ((a mod 65536) mod 256)) 32768); lia.
      * rewrite enc_form5 by lia. cbn [map app]. rewrite tok_form5.
        fin_int a. unfold to_i32.
        match goal with |- context [N.ltb ?x ?y] => destruct (N.ltb_spec x y) end; lia.
  - destruct (Z_le_gt_dec (-1131) a) as [L2|L2].
    + rewrite enc_form3 by lia. cbn [map app]. rewrite tok_form3 by lia.
      fin_int a. lia.
    + destruct (Z_le_gt_dec (-32768) a) as [L3|L3].
      * rewrite enc_form4 by lia. cbn [map app]. rewrite tok_form4.
        fin_int a. unfold to_i16.
        destruct (N.ltb_spec (Z.to_N (a mod 65536 / 256) * 256 + Z.to_N ((a mod 65536) mod 256)) 32768); lia.
      * rewrite enc_form5 by lia. cbn [map app]. rewrite tok_form5.
        fin_int a. unfold to_i32.
        match goal with |- context [N.ltb ?x ?y] => destruct (N.ltb_spec x y) end; lia.
Qed.

(* size classes *)
Lemma dict_int_size a : -2147483648 <= a <= 2147483647 ->
  length (M_dict_int_encode a) =
  if (-107 <=? a) && (a <=? 107) then 1%nat
  else if (-1131 <=? a) && (a <=? 1131) then 2%nat
  else if (-32768 <=? a) && (a <=? 32767) then 3%nat
  else 5%nat.
Proof.
  intros Ha. unfold M_dict_int_encode. rewrite map_length.
  destruct (Z.leb_spec (-107) a), (Z.leb_spec a 107); cbn [andb];
    try (rewrite enc_form1 by lia; reflexivity);
  destruct (Z.leb_spec (-1131) a), (Z.leb_spec a 1131); cbn [andb];
    try (rewrite enc_form2 by lia; reflexivity);
    try (rewrite enc_form3 by lia; reflexivity);
  destruct (Z.leb_spec (-32768) a), (Z.leb_spec a 32767); cbn [andb];
    try (rewrite enc_form4 by lia; reflexivity);
    try (rewrite enc_form5 by lia; reflexivity); lia.
Qed.

(* every byte written is a byte *)
Lemma dict_int_bytes_ok a : -2147483648 <= a <= 2147483647 ->
  bytes_ok (M_dict_int_encode a) = true.
Proof.
  intros Ha. unfold M_dict_int_encode, bytes_ok, byte_ok.
  destruct (Z_le_gt_dec (-107) a) as [L1|L1]; [destruct (Z_le_gt_dec a 107) as [U1|U1]|].
  - rewrite enc_form1 by lia. cbn [map forallb]. rewrite andb_true_r. apply N.ltb_lt. lia.
  - destruct (Z_le_gt_dec a 1131) as [U2|U2].
    + rewrite enc_form2 by lia. cbn [map forallb].
      rewrite !andb_true_iff; repeat split; apply N.ltb_lt; lia.
    + destruct (Z_le_gt_dec a 32767) as [U3|U3].
      * rewrite enc_form4 by lia. cbn [map forallb].
        rewrite !andb_true_iff; repeat split; apply N.ltb_lt; lia.
      * rewrite enc_form5 by lia. cbn [map forallb].
        rewrite !andb_true_iff; repeat split; apply N.ltb_lt; lia.
  - destruct (Z_le_gt_dec (-1131) a) as [L2|L2].
    + rewrite enc_form3 by lia. cbn [map forallb].
      rewrite !andb_true_iff; repeat split; apply N.ltb_lt; lia.
    + destruct (Z_le_gt_dec (-32768) a) as [L3|L3].
      * rewrite enc_form4 by lia. cbn [map forallb].
        rewrite !andb_true_iff; repeat split; apply N.ltb_lt; lia.
      * rewrite enc_form5 by lia. cbn [map forallb].
        rewrite !andb_true_iff; repeat split; apply N.ltb_lt; lia.
Qed.

(* offsSize as translated: the least k in 1..4 with i < 256^k (i >= 0) *)
Lemma offs_size_spec i : 0 <= i <= 2147483647 ->
  (1 <= M_offs_size i <= 4)%N /\
  i < 256 ^ Z.of_N (M_offs_size i) /\
  ((1 < M_offs_size i)%N -> 256 ^ (Z.of_N (M_offs_size i) - 1) <= i).
Proof.
  intros H. unfold M_offs_size, cff_offsSize.
  destruct (Z.ltb_spec i 256); [cbn; lia|].
  destruct (Z.ltb_spec i 65536); [cbn; lia|].
  destruct (Z.ltb_spec i 16777216); [cbn; lia|].
  cbn; lia.
Qed.
