(* C13/Proofs_index.v — INDEX: round trip, minimal offSize, totality and
   allocation bound of the reader, equality of the fast reader. *)
From Coq Require Import List NArith ZArith Bool Arith Lia.
From Coq Require Import ZifyBool ZifyNat ZifyN.
From Common Require Import Bytes Outcome.
From C13 Require Import Model Util.
Import ListNotations.
Ltac Zify.zify_post_hook ::= Z.div_mod_to_equations.
Local Open Scope N_scope.

(* 256^k for the four legal offset sizes *)
Definition pow256 (k : nat) : N :=
  match k with
  | 1%nat => 256 | 2%nat => 65536 | 3%nat => 16777216 | 4%nat => 4294967296
  | _ => 1
  end.

Lemma be_val_app a x : be_val (a ++ [x]) = (be_val a * 256 + x) mod 4294967296.
Proof. unfold be_val. rewrite fold_left_app. reflexivity. Qed.

Lemma be_val_be_n k x :
  (1 <= k <= 4)%nat -> x < pow256 k -> be_val (be_n k x) = x.
Proof.
  intros Hk Hx.
  destruct k as [|[|[|[|[|k]]]]]; try lia; cbn [pow256] in Hx; cbn [be_n];
    rewrite ?be_val_app; cbn [app be_val fold_left]; lia.
Qed.

Lemma lenN_be_n k x : lenN (be_n k x) = N.of_nat k.
Proof.
  revert x; induction k as [|k IH]; intros x; cbn [be_n]; [reflexivity|].
  rewrite lenN_app, IH. cbn [lenN]. lia.
Qed.

Lemma splitN_be_n k pos (X : list N) :
  splitN (be_n k pos ++ X) (N.of_nat k) = Some (be_n k pos, X).
Proof. rewrite <- (lenN_be_n k pos). apply splitN_app. Qed.

(* cumulative positions p, p+l1, p+l1+l2, ... *)
Fixpoint cum (p : N) (lens : list N) : list N :=
  p :: match lens with [] => [] | l :: r => cum (p + l) r end.

Lemma lastN_cum d p lens : lastN d (cum p lens) = p + sumN lens.
Proof.
  revert d p; induction lens as [|l r IH]; intros d p.
  - cbn. lia.
  - cbn [cum lastN sumN]. fold (cum (p + l) r). rewrite IH. lia.
Qed.

Lemma lenN_enc_offsets k pos lens :
  lenN (enc_offsets k pos lens) = N.of_nat k * (lenN lens + 1).
Proof.
  revert pos; induction lens as [|l r IH]; intros pos; cbn [enc_offsets].
  - rewrite app_nil_r, lenN_be_n. cbn [lenN]. lia.
  - rewrite lenN_app, lenN_be_n, IH. cbn [lenN]. lia.
Qed.

Lemma pow256_le k : (1 <= k <= 4)%nat -> pow256 k <= 4294967296.
Proof. intros H. destruct k as [|[|[|[|[|k]]]]]; cbn [pow256]; lia. Qed.

Lemma read_offsets_S size os k prev inp :
  read_offsets size os (S k) prev inp =
  match splitN inp os with
  | None => None
  | Some (blob, r) =>
    let offs := be_val blob in
    if (offs <? prev) || (size <=? offs) then None
    else match read_offsets size os k offs r with
         | None => None
         | Some (l, r') => Some ((offs - 1) :: l, r')
         end
  end.
Proof. reflexivity. Qed.

Lemma read_offsets_enc lens : forall k size pos prev rest,
  (1 <= k <= 4)%nat -> prev <= pos -> 1 <= pos ->
  pos + sumN lens < pow256 k -> pos + sumN lens < size ->
  read_offsets size (N.of_nat k) (S (length lens)) prev (enc_offsets k pos lens ++ rest)
  = Some (cum (pos - 1) lens, rest).
Proof.
  induction lens as [|l r IH]; intros k size pos prev rest Hk Hp H1 Hb Hs;
    cbn [sumN] in Hb, Hs; cbn [enc_offsets length]; rewrite read_offsets_S; cbn zeta.
  - rewrite app_nil_r. rewrite splitN_be_n. rewrite be_val_be_n by (try assumption; lia).
    destruct (N.ltb_spec pos prev); [lia|]. destruct (N.leb_spec size pos); [lia|].
    cbn [orb]. reflexivity.
  - rewrite <- app_assoc. rewrite splitN_be_n. rewrite be_val_be_n by (try assumption; lia).
    destruct (N.ltb_spec pos prev); [lia|]. destruct (N.leb_spec size pos); [lia|].
    cbn [orb].
    pose proof (pow256_le k Hk) as Hle.
    replace ((pos + l) mod 4294967296) with (pos + l) by (symmetry; apply N.mod_small; lia).
    rewrite (IH k size (pos + l) pos rest) by (try assumption; lia).
    cbn [cum]. fold (cum (pos - 1 + l) r).
    replace (pos + l - 1) with (pos - 1 + l) by lia. reflexivity.
Qed.

(* cutting the data buffer at the cumulative positions gives the blobs back *)
Definition cum_tail (q : N) (X : list N) : list N :=
  match X with [] => [] | l :: r => cum (q + l) r end.

Lemma cum_eq q X : cum q X = q :: cum_tail q X.
Proof. destruct X; reflexivity. Qed.

Lemma slices_cons2 buf blen a b tl :
  slices buf blen (a :: b :: tl) =
  (x <- slice buf blen a b ;; r <- slices buf blen (b :: tl) ;; Ok (x :: r)).
Proof. reflexivity. Qed.

Lemma slices_cum blobs : forall pre blen,
  blen = lenN (pre ++ concat blobs) ->
  slices (pre ++ concat blobs) blen (cum (lenN pre) (map lenN blobs)) = Ok blobs.
Proof.
  induction blobs as [|b bs IH]; intros pre blen Hl.
  - reflexivity.
  - cbn [map]. rewrite (cum_eq (lenN pre)). cbn [cum_tail].
    rewrite (cum_eq (lenN pre + lenN b)). rewrite slices_cons2.
    rewrite <- (cum_eq (lenN pre + lenN b)).
    cbn [concat] in *.
    unfold slice.
    assert (Hb : (lenN pre <=? lenN pre + lenN b) && (lenN pre + lenN b <=? blen) = true).
    { rewrite Hl, !lenN_app. apply andb_true_intro; split; apply N.leb_le; lia. }
    rewrite Hb. rewrite dropN_app.
    replace (lenN pre + lenN b - lenN pre) with (lenN b) by lia.
    rewrite takeN_app. cbn [obind].
    pose proof (IH (pre ++ b) blen) as IH'.
    rewrite <- app_assoc in IH'. specialize (IH' Hl).
    rewrite lenN_app in IH'. rewrite IH'. reflexivity.
Qed.

Lemma off_size_range body : body + 1 < 4294967296 ->
  exists k, (1 <= k <= 4)%nat /\ off_size body = N.of_nat k /\ body + 1 < pow256 k.
Proof.
  intros H. unfold off_size.
  destruct (N.ltb_spec (body + 1) 256); [exists 1%nat; cbn; repeat split; lia|].
  destruct (N.ltb_spec (body + 1) 65536); [exists 2%nat; cbn; repeat split; lia|].
  destruct (N.ltb_spec (body + 1) 16777216); [exists 3%nat; cbn; repeat split; lia|].
  destruct (N.ltb_spec (body + 1) 4294967296); [exists 4%nat; cbn; repeat split; lia|lia].
Qed.

(* offSize is the least k in 1..4 with body+1 < 256^k *)
Lemma off_size_minimal body : body + 1 < 4294967296 ->
  1 <= off_size body <= 4 /\
  body + 1 < 256 ^ off_size body /\
  (1 < off_size body -> 256 ^ (off_size body - 1) <= body + 1).
Proof.
  intros H. unfold off_size.
  destruct (N.ltb_spec (body + 1) 256); [cbn; lia|].
  destruct (N.ltb_spec (body + 1) 65536); [cbn; lia|].
  destruct (N.ltb_spec (body + 1) 16777216); [cbn; lia|].
  destruct (N.ltb_spec (body + 1) 4294967296); [cbn; lia|lia].
Qed.

Lemma index_encode_ok blobs :
  lenN blobs < 65536 -> sumN (map lenN blobs) + 1 < 4294967296 ->
  exists bs, M_index_encode blobs = Ok bs.
Proof.
  intros Hc Hb. unfold M_index_encode, M_index_header. rewrite lenN_map.
  destruct (N.leb_spec 65536 (lenN blobs)); [lia|].
  destruct (N.eqb_spec (lenN blobs) 0); [cbn; eauto|].
  destruct (off_size_range _ Hb) as (k & Hk & -> & _).
  destruct (N.ltb_spec 4 (N.of_nat k)); [lia|]. cbn. eauto.
Qed.

Lemma index_roundtrip_gen blobs bs :
  lenN blobs < 65536 -> sumN (map lenN blobs) + 1 < 4294967296 ->
  M_index_encode blobs = Ok bs ->
  forall size tail, lenN bs <= size ->
    M_index_read size (bs ++ tail) = Ok (blobs, tail).
Proof.
  intros Hc Hb. unfold M_index_encode, M_index_header. rewrite lenN_map.
  destruct (N.leb_spec 65536 (lenN blobs)); [lia|].
  destruct (N.eqb_spec (lenN blobs) 0) as [E|E].
  - apply lenN_zero in E. subst blobs. cbn. intros Henc; inversion Henc; subst.
    intros size tail _. reflexivity.
  - destruct (off_size_range _ Hb) as (k & Hk & -> & Hlt).
    destruct (N.ltb_spec 4 (N.of_nat k)); [lia|]. cbn [obind].
    intros Henc; inversion Henc; subst bs; clear Henc. intros size tail Hsz.
    unfold M_index_read, M_index_read_a.
    set (c := lenN blobs) in *.
    cbn [app rd_u16].
    replace (c / 256 mod 256 * 256 + c mod 256) with c by lia.
    destruct (N.eqb_spec c 0); [lia|].
    cbn [rd_u8].
    rewrite <- !app_assoc.
    replace (S (N.to_nat c)) with (S (length (map lenN blobs)))
      by (unfold c; rewrite map_length, lenN_length; lia).
    rewrite Nat2N.id.
    rewrite Nat2N.id in Hsz. cbn [lenN] in Hsz.
    rewrite lenN_app, lenN_enc_offsets, lenN_concat, lenN_map in Hsz. fold c in Hsz.
    rewrite read_offsets_enc by (try assumption; lia).
    change (1 - 1) with 0.
    rewrite lastN_cum. rewrite N.add_0_l.
    rewrite <- lenN_concat. rewrite splitN_app.
    pose proof (slices_cum blobs [] (lenN (concat blobs)) eq_refl) as Hsl.
    cbn [app lenN] in Hsl. rewrite Hsl. reflexivity.
Qed.

(* ---------- totality of the reader ---------- *)

(* non-decreasing from p *)
Fixpoint mono (p : N) (l : list N) : Prop :=
  match l with [] => True | x :: r => p <= x /\ mono x r end.

Lemma read_offsets_mono k : forall size os prev inp offs r,
  1 <= prev ->
  read_offsets size os k prev inp = Some (offs, r) ->
  mono (prev - 1) offs /\ length offs = k /\ (k <> O -> lastN 0 offs + 1 < size).
Proof.
  induction k as [|k IH]; intros size os prev inp offs r Hp; cbn [read_offsets].
  - intros H; inversion H; subst. cbn. repeat split; congruence.
  - destruct (splitN inp os) as [[blob r1]|]; [|discriminate].
    destruct (N.ltb_spec (be_val blob) prev); [discriminate|].
    destruct (N.leb_spec size (be_val blob)); [discriminate|]. cbn [orb].
    destruct (read_offsets size os k (be_val blob) r1) as [[l r2]|] eqn:R; [|discriminate].
    intros Hx; inversion Hx; subst. clear Hx.
    assert (Hge : 1 <= be_val blob) by lia.
    destruct (IH _ _ _ _ _ _ Hge R) as (Hm & Hl & Hlast).
    cbn [mono length lastN]. repeat split; try lia; try assumption.
    intros _. destruct k as [|k'].
    + destruct l; [|discriminate]. cbn. lia.
    + destruct l as [|y l']; [discriminate|]. cbn [lastN] in *.
      specialize (Hlast ltac:(congruence)).
      exact Hlast.
Qed.

Lemma mono_lastN p l : mono p l -> p <= lastN p l.
Proof.
  revert p; induction l as [|x l IH]; intros p; cbn [mono lastN]; [lia|].
  intros [H1 H2]. specialize (IH _ H2). lia.
Qed.

Lemma slices_eq offs : forall buf blen o0,
  lenN buf = blen -> mono o0 offs -> lastN o0 offs <= blen ->
  slices buf blen (o0 :: offs) = Ok (split_seq (dropN buf o0) o0 offs).
Proof.
  induction offs as [|b tl IH]; intros buf blen o0 Hl Hm Hlast.
  - reflexivity.
  - cbn [mono] in Hm. destruct Hm as [H1 H2]. cbn [lastN] in Hlast.
    pose proof (mono_lastN _ _ H2) as Hb.
    rewrite slices_cons2. cbn [split_seq]. unfold slice.
    assert (Hc : (o0 <=? b) && (b <=? blen) = true)
      by (apply andb_true_intro; split; apply N.leb_le; lia).
    rewrite Hc. cbn [obind].
    rewrite splitN_some by (rewrite lenN_dropN by lia; lia).
    rewrite dropN_dropN. replace (o0 + (b - o0)) with b by lia.
    rewrite (IH buf blen b Hl H2 Hlast). reflexivity.
Qed.

Lemma lastN_default_irrel d d' x l : lastN d (x :: l) = lastN d' (x :: l).
Proof. reflexivity. Qed.

Lemma index_read_fast_eq size inp : M_index_read_fast size inp = M_index_read size inp.
Proof.
  unfold M_index_read_fast, M_index_read, M_index_read_a.
  destruct (rd_u16 inp) as [[count r1]|]; [|reflexivity].
  destruct (count =? 0); [reflexivity|].
  destruct (rd_u8 r1) as [[os r2]|]; [|reflexivity].
  destruct (read_offsets size os (S (N.to_nat count)) 1 r2) as [[offs r3]|] eqn:R; [|reflexivity].
  destruct (read_offsets_mono _ _ _ _ _ _ _ (N.le_refl 1) R) as (Hm & Hl & _).
  destruct (splitN r3 (lastN 0 offs)) as [[buf r4]|] eqn:S; [|reflexivity].
  cbn [fst].
  destruct offs as [|o0 tl]; [discriminate|].
  apply splitN_inv in S. destruct S as [_ Sl].
  cbn [mono] in Hm. destruct Hm as [_ Hm].
  rewrite (slices_eq tl buf (lastN 0 (o0 :: tl)) o0 Sl Hm) by (cbn [lastN]; lia).
  reflexivity.
Qed.

Lemma index_read_total size inp :
  bytes_ok inp = true ->
  fst (M_index_read_a size inp) <> Panic /\
  fst (M_index_read_a size inp) <> OutOfFuel /\
  snd (M_index_read_a size inp) <= size + 28 * 65536.
Proof.
  intros Hbytes. unfold M_index_read_a.
  destruct (rd_u16 inp) as [[count r1]|] eqn:U; [|cbn [fst snd]; repeat split; try congruence; lia].
  assert (Hcount : count < 65536).
  { unfold rd_u16 in U. destruct inp as [|a [|b r]]; try discriminate. inversion U; subst.
    unfold bytes_ok in Hbytes. cbn [forallb] in Hbytes. unfold byte_ok in Hbytes.
    apply andb_prop in Hbytes. destruct Hbytes as [Ha Hb].
    apply andb_prop in Hb. destruct Hb as [Hb _].
    apply N.ltb_lt in Ha. apply N.ltb_lt in Hb. lia. }
  destruct (count =? 0); [cbn [fst snd]; repeat split; try congruence; lia|].
  destruct (rd_u8 r1) as [[os r2]|]; [|cbn [fst snd]; repeat split; try congruence; lia].
  destruct (read_offsets size os (S (N.to_nat count)) 1 r2) as [[offs r3]|] eqn:R;
    [|cbn [fst snd]; repeat split; try congruence; lia].
  destruct (read_offsets_mono _ _ _ _ _ _ _ (N.le_refl 1) R) as (Hm & Hl & Hlast).
  specialize (Hlast ltac:(congruence)).
  destruct (splitN r3 (lastN 0 offs)) as [[buf r4]|] eqn:S; cbn [fst snd];
    [|repeat split; try congruence; lia].
  destruct offs as [|o0 tl]; [discriminate|].
  apply splitN_inv in S. destruct S as [_ Sl].
  cbn [mono] in Hm. destruct Hm as [_ Hm].
  rewrite (slices_eq tl buf (lastN 0 (o0 :: tl)) o0 Sl Hm) by (cbn [lastN]; lia).
  cbn [obind]. repeat split; try congruence; lia.
Qed.
