(* C13/Spec.v — tables written from the CFF specification (Appendix C,
   "Predefined Charsets"), as SIDs. *)
From Coq Require Import List NArith.
From C13 Require Import Model ModelTables.
Import ListNotations.
Local Open Scope N_scope.

(* a..b inclusive *)
Definition rng (a b : N) : list N := seqN a (N.to_nat (b + 1 - a)).

(* ISOAdobe: SIDs 0-228 *)
Definition S_isoadobe_charset : list N := rng 0 228.

(* Expert *)
Definition S_expert_charset : list N :=
  [0; 1] ++ rng 229 238 ++ [13; 14; 15; 99] ++ rng 239 248 ++ [27; 28] ++ rng 249 266 ++
  [109; 110] ++ rng 267 318 ++ [158; 155; 163] ++ rng 319 326 ++ [150; 164; 169] ++ rng 327 378.

(* ExpertSubset *)
Definition S_expertsubset_charset : list N :=
  [0; 1; 231; 232] ++ rng 235 238 ++ [13; 14; 15; 99] ++ rng 239 248 ++ [27; 28] ++
  rng 249 251 ++ rng 253 266 ++ [109; 110] ++ rng 267 270 ++ [272; 300; 301; 302; 305; 314; 315;
  158; 155; 163] ++ rng 320 326 ++ [150; 164; 169] ++ rng 327 346.
