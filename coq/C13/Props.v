(* C13/Props.v — the property theorems.  Nothing else. *)
From Coq Require Import List NArith ZArith Bool Arith Lia.
From Common Require Import Bytes Outcome.
From C13 Require Import Model Util Proofs_index.
Import ListNotations.
Local Open Scope N_scope.

(* ---------- INDEX ---------- *)

(* Every INDEX with fewer than 65536 entries and fewer than 2^32-1 bytes of
   data is encoded (no panic), and wherever the encoding is placed in a file
   (any bytes after it, any file size that contains it) readIndex returns
   exactly the entries and stops exactly at the end of the INDEX. *)
Theorem index_roundtrip :
  forall blobs : list (list N),
    lenN blobs < 65536 -> sumN (map lenN blobs) < 4294967295 ->
    exists bs, M_index_encode blobs = Ok bs /\
      forall size tail, lenN bs <= size ->
        M_index_read size (bs ++ tail) = Ok (blobs, tail).
Proof.
  intros blobs Hc Hb.
  destruct (index_encode_ok blobs Hc ltac:(lia)) as [bs E].
  exists bs. split; [exact E|]. exact (index_roundtrip_gen blobs bs Hc ltac:(lia) E).
Qed.
Print Assumptions index_roundtrip.

(* The offset size written is the least k in 1..4 with body+1 < 256^k. *)
Theorem index_offsize_minimal :
  forall body, body < 4294967295 ->
    1 <= off_size body <= 4 /\
    body + 1 < 256 ^ off_size body /\
    (1 < off_size body -> 256 ^ (off_size body - 1) <= body + 1).
Proof. intros body H. apply off_size_minimal. lia. Qed.
Print Assumptions index_offsize_minimal.

(* readIndex is total: on any bytes and any claimed file size it never panics,
   needs no fuel, and allocates at most size + 28*65536 bytes. *)
Theorem index_read_total :
  forall size inp, bytes_ok inp = true ->
    fst (M_index_read_a size inp) <> Panic /\
    fst (M_index_read_a size inp) <> OutOfFuel /\
    snd (M_index_read_a size inp) <= size + 28 * 65536.
Proof. exact Proofs_index.index_read_total. Qed.
Print Assumptions index_read_total.

(* The linear-time reader run by the extracted driver is the same function. *)
Theorem index_read_fast_correct :
  forall size inp, M_index_read_fast size inp = M_index_read size inp.
Proof. exact index_read_fast_eq. Qed.
Print Assumptions index_read_fast_correct.

(* ---------- DICT integer operands ---------- *)
From Gen Require Import C13.
From C13 Require Import ModelDict Proofs_dict.
Local Open Scope Z_scope.

(* Every int32 written by the encoder translated from cffDict.encode is read
   back as the same integer by decodeDict's operand reader, whatever follows;
   the bytes are bytes; the size classes switch exactly at +-107, +-1131 and
   the int16 limits. *)
Theorem dict_int_roundtrip :
  forall (a : Z) (rest : list N),
    -2147483648 <= a <= 2147483647 ->
    dict_token (M_dict_int_encode a ++ rest) = Ok (TVal (DInt a), rest) /\
    bytes_ok (M_dict_int_encode a) = true /\
    length (M_dict_int_encode a) =
      (if (-107 <=? a) && (a <=? 107) then 1%nat
       else if (-1131 <=? a) && (a <=? 1131) then 2%nat
       else if (-32768 <=? a) && (a <=? 32767) then 3%nat
       else 5%nat).
Proof.
  intros a rest H. split; [|split].
  - exact (dict_int_roundtrip_gen a rest H).
  - exact (dict_int_bytes_ok a H).
  - exact (dict_int_size a H).
Qed.
Print Assumptions dict_int_roundtrip.

(* offsSize (header offset size): the least k in 1..4 with i < 256^k. *)
Theorem offs_size_minimal :
  forall i, 0 <= i <= 2147483647 ->
    (1 <= M_offs_size i <= 4)%N /\
    i < 256 ^ Z.of_N (M_offs_size i) /\
    ((1 < M_offs_size i)%N -> 256 ^ (Z.of_N (M_offs_size i) - 1) <= i).
Proof. exact offs_size_spec. Qed.
Print Assumptions offs_size_minimal.
