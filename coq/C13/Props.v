(* C13/Props.v — the property theorems of C13 (CFF structures and numbers
   survive write/read).  Nothing else: every proof is an instantiation of a
   lemma of Proofs_*.v. *)
From Coq Require Import List NArith ZArith Bool Arith Lia.
From Common Require Import Bytes Outcome.
From Gen Require Import C13.
From C13 Require Import Model Util ModelDict ModelTables ModelLayout Spec.
From C13 Require Import Proofs_index Proofs_dict Proofs_real Proofs_charset Proofs_fdselect
  Proofs_encoding Proofs_layout Proofs_width Proofs_misc.
Import ListNotations.
Local Open Scope N_scope.

(* ---------- INDEX ---------- *)

(* Every INDEX with fewer than 65536 entries and fewer than 2^32-1 bytes of
   data is encoded (no panic), and wherever the encoding is placed in a file
   (any bytes after it, any file size that contains it) readIndex returns
   exactly the entries and stops exactly at the end of the INDEX. *)
Theorem index_roundtrip :
  forall blobs : list (list N),
    lenN blobs < 65536 -> sumN (map lenN blobs) < 4294967295 ->
    exists bs, M_index_encode blobs = Ok bs /\
      forall size tail, lenN bs <= size ->
        M_index_read size (bs ++ tail) = Ok (blobs, tail).
Proof.
  intros blobs Hc Hb.
  destruct (index_encode_ok blobs Hc ltac:(lia)) as [bs E].
  exists bs. split; [exact E|]. exact (index_roundtrip_gen blobs bs Hc ltac:(lia) E).
Qed.
Print Assumptions index_roundtrip.

(* The offset size written is the least k in 1..4 with body+1 < 256^k. *)
Theorem index_offsize_minimal :
  forall body, body < 4294967295 ->
    1 <= off_size body <= 4 /\
    body + 1 < 256 ^ off_size body /\
    (1 < off_size body -> 256 ^ (off_size body - 1) <= body + 1).
Proof. intros body H. apply off_size_minimal. lia. Qed.
Print Assumptions index_offsize_minimal.

(* readIndex is total: on any bytes and any claimed file size it never panics,
   needs no fuel, and allocates at most size + 28*65536 bytes. *)
Theorem index_read_total :
  forall size inp, bytes_ok inp = true ->
    fst (M_index_read_a size inp) <> Panic /\
    fst (M_index_read_a size inp) <> OutOfFuel /\
    snd (M_index_read_a size inp) <= size + 28 * 65536.
Proof. exact Proofs_index.index_read_total. Qed.
Print Assumptions index_read_total.

(* The linear-time reader run by the extracted driver is the same function. *)
Theorem index_read_fast_correct :
  forall size inp, M_index_read_fast size inp = M_index_read size inp.
Proof. exact index_read_fast_eq. Qed.
Print Assumptions index_read_fast_correct.

(* ---------- DICT integer operands ---------- *)
Local Open Scope Z_scope.

(* Every int32 written by the encoder translated from cffDict.encode is read
   back as the same integer by decodeDict's operand reader, whatever follows;
   the bytes are bytes; the size classes switch exactly at +-107, +-1131 and
   the int16 limits. *)
Theorem dict_int_roundtrip :
  forall (a : Z) (rest : list N),
    -2147483648 <= a <= 2147483647 ->
    dict_token (M_dict_int_encode a ++ rest) = Ok (TVal (DInt a), rest) /\
    bytes_ok (M_dict_int_encode a) = true /\
    length (M_dict_int_encode a) =
      (if (-107 <=? a) && (a <=? 107) then 1%nat
       else if (-1131 <=? a) && (a <=? 1131) then 2%nat
       else if (-32768 <=? a) && (a <=? 32767) then 3%nat
       else 5%nat).
Proof.
  intros a rest H. split; [|split].
  - exact (dict_int_roundtrip_gen a rest H).
  - exact (dict_int_bytes_ok a H).
  - exact (dict_int_size a H).
Qed.
Print Assumptions dict_int_roundtrip.

(* offsSize (header offset size): the least k in 1..4 with i < 256^k. *)
Theorem offs_size_minimal :
  forall i, 0 <= i <= 2147483647 ->
    (1 <= M_offs_size i <= 4)%N /\
    i < 256 ^ Z.of_N (M_offs_size i) /\
    ((1 < M_offs_size i)%N -> 256 ^ (Z.of_N (M_offs_size i) - 1) <= i).
Proof. exact offs_size_spec. Qed.
Print Assumptions offs_size_minimal.

(* ---------- charset, encoding, FDSelect ---------- *)
Local Open Scope N_scope.

(* Every list of 16-bit identifiers (SIDs or CIDs) starting with 0 for
   .notdef, of at most 65535 entries, is encoded (whichever of the three
   formats the length rule selects), and readCharset returns the same list and
   stops at the end of the data, whatever follows. *)
Theorem charset_roundtrip :
  forall ns : list N,
    Forall (fun x => x < 65536) ns -> lenN ns < 65535 ->
    exists bs, M_charset_encode (0%Z :: map Z.of_N ns) = Ok bs /\
      forall tail, M_charset_read (Z.of_nat (S (length ns))) (bs ++ tail) = Ok (0 :: ns, tail).
Proof. exact charset_roundtrip_gen. Qed.
Print Assumptions charset_roundtrip.

(* The selection rule of encodeCharset picks a shortest of the three formats:
   the length written is the minimum of the lengths of formats 0, 1 and 2
   (format 0 on ties, then format 2 unless format 1 is strictly shorter). *)
Theorem charset_format_shortest :
  forall (ns bs : list N),
    Forall (fun x => x < 65536) ns ->
    M_charset_encode (0%Z :: map Z.of_N ns) = Ok bs ->
    let names := map Z.of_N ns in
    let l0 := cs_length0 names in
    let l1 := cs_length1 (M_runs names) in
    let l2 := cs_length2 (M_runs names) in
    lenN bs = N.min l0 (N.min l1 l2) /\
    (nth 0 bs 0 = 0 -> lenN bs = l0) /\ (nth 0 bs 0 = 1 -> lenN bs = l1) /\ (nth 0 bs 0 = 2 -> lenN bs = l2).
Proof. exact charset_format_shortest_gen. Qed.
Print Assumptions charset_format_shortest.

(* readCharset is total: never a panic, the loop needs at most nGlyphs
   rounds, and an accepted charset has exactly nGlyphs entries. *)
Theorem charset_read_total :
  forall nGlyphs inp,
    match M_charset_read nGlyphs inp with
    | Ok (l, _) => Z.of_N (lenN l) = nGlyphs /\ (1 <= nGlyphs < 65536)%Z
    | Err => True
    | Panic | OutOfFuel => False
    end.
Proof. exact charset_read_total_gen. Qed.
Print Assumptions charset_read_total.

(* Encodings: for every vector of 256 glyph ids over a font whose glyph names
   have distinct 16-bit SIDs, if encodeEncoding accepts it (the documented
   contiguity rule holds and at most 255 ranges are needed), readEncoding
   returns the same vector — format 0 or 1, with or without supplements for
   multiply-encoded glyphs — and stops at the end of the data. *)
Theorem encoding_roundtrip :
  forall (enc : list N) (names : list Z) (bs tail : list N),
    lenN enc = 256 -> (forall g, In g enc -> g < lenN names) ->
    lenN names <= 65536 -> NoDup (map sidN names) ->
    M_encoding_encode enc names = Ok bs ->
    M_encoding_read (bs ++ tail) names = Ok (enc, tail).
Proof. exact encoding_roundtrip_gen. Qed.
Print Assumptions encoding_roundtrip.

(* readEncoding is total and an accepted encoding has 256 entries. *)
Theorem encoding_read_total :
  forall inp cs,
    match M_encoding_read inp cs with
    | Ok (r, _) => length r = 256%nat
    | Err => True
    | Panic | OutOfFuel => False
    end.
Proof. exact encoding_read_total_gen. Qed.
Print Assumptions encoding_read_total.

(* FDSelect: any assignment of up to 65535 glyphs to up to 256 font
   dictionaries survives, in format 0 or 3; the function returned by
   readFDSelect (a binary search over the range ends) gives back the
   dictionary of every glyph. *)
Theorem fdselect_roundtrip :
  forall (fds : list N) (np : N) (tail : list N),
    Forall (fun x => x < 256) fds -> Forall (fun x => x < np) fds -> lenN fds < 65536 ->
    M_fdselect_read (lenN fds) np (M_fdselect_encode fds ++ tail) = Ok (fds, tail).
Proof. exact fdselect_roundtrip_gen. Qed.
Print Assumptions fdselect_roundtrip.

(* readFDSelect and the function it returns are total for nGlyphs < 65536:
   never a panic, and every glyph is mapped to an existing dictionary. *)
Theorem fdselect_read_total :
  forall n np inp, n < 65536 ->
    match M_fdselect_read n np inp with
    | Ok (tbl, _) => lenN tbl = n /\ Forall (fun fd => fd < np) tbl
    | Err => True
    | Panic | OutOfFuel => False
    end.
Proof. exact fdselect_read_total_gen. Qed.
Print Assumptions fdselect_read_total.

(* ---------- DICT reals ---------- *)
Local Open Scope Z_scope.

(* For every sign, every non-empty digit string d1..dm (any m, in particular
   the 1..9 significant digits encodeFloat extracts) and every position l of
   the decimal point, the nibble string encodeFloat lays out is made of bytes,
   is consumed exactly by decodeFloat's nibble reader (terminator and padding
   are in place: what follows is left untouched), is accepted by the decimal
   grammar of strconv.ParseFloat, carries the sign, and denotes exactly
   D * 10^(l-m) = 0.d1...dm * 10^l  (dec_equiv m1 e1 m2 e2 says
   m1*10^e1 = m2*10^e2, cross-multiplied to stay in the integers). *)
Theorem dict_real_value :
  forall (neg : bool) (ds : list N) (l : Z) (rest : list N),
    Forall (fun d => (d < 10)%N) ds -> ds <> [] ->
    Forall (fun b => (b < 256)%N) (M_real_layout neg ds l) /\
    exists cs d,
      M_real_chars (M_real_layout neg ds l ++ rest) [] = Ok (cs, rest) /\
      S_real_parse cs = Some d /\
      d_neg d = neg /\
      dec_equiv (d_mant d) (d_exp d - d_nfrac d) (digits_value ds) (l - Z.of_nat (length ds)).
Proof.
  intros neg ds l rest Hd Hne. split.
  - apply real_layout_bytes_ok. exact Hd.
  - exact (real_layout_value neg ds l rest Hd Hne).
Qed.
Print Assumptions dict_real_value.

(* ---------- the offset loop of Font.Write ---------- *)
Local Open Scope N_scope.

(* For every list of sections whose layout operands refer to existing
   sections (wf: offsets of sections 0..n, differences offs[a]-offs[b] with
   b <= a, sizes of Private DICT sections), and whose largest possible total
   size (all operands five bytes long) fits an int32:
   the loop "for { encode; newOffs := cumsum(); if same { break } }" stops
   within 4*(number of layout operands)+2 rounds, no 32-bit sum wraps, the
   sections as written are the ones encoded with the final offsets, every
   offset used equals the position of its section (the sum of the sizes of the
   sections written before it), and every Private DICT size operand equals the
   size of that Private DICT as written. *)
Theorem layout_fixpoint_terminates_consistent :
  forall secs : list section,
    Forall (wf secs) (all_ops secs) ->
    (Z.of_N (sumN (smax secs)) < 2147483648)%Z ->
    exists offs sizes,
      M_layout_loop secs (4 * length (all_ops secs) + 2) (cumsum (init_sizes secs)) = Ok (offs, sizes) /\
      sizes = round_sizes secs offs /\
      (Z.of_N (sumN sizes) < 2147483648)%Z /\
      (forall j, (j < length secs)%nat -> nth_offs offs j = Z.of_N (sumN (firstn j sizes))) /\
      (forall j d, nth j secs (SFixed 0) = SDict d -> Forall (wf0 secs) (d_ops d) ->
         opval secs offs (OSize j) = Z.of_N (nth j sizes 0)).
Proof. exact layout_main. Qed.
Print Assumptions layout_fixpoint_terminates_consistent.

(* The size the loop assumes for an INDEX is the length cffIndex.encode writes. *)
Theorem layout_index_len :
  forall blobs bs, M_index_encode blobs = Ok bs -> lenN bs = index_len (map lenN blobs).
Proof. exact index_len_correct. Qed.
Print Assumptions layout_index_len.

(* ---------- widths ---------- *)
Local Open Scope Z_scope.

(* With the same default and nominal width on both sides, every width on the
   16.16 grid (as an integer number of 1/65536 units) whose distance from the
   nominal width fits the 16.16 range is recovered exactly, whether it is the
   default width (no operand) or not (integer or 16.16 operand). *)
Theorem width_recovered :
  forall def nom w,
    -2147483648 <= w - nom < 2147483648 ->
    M_width_decode def nom (M_width_encode def nom w) = w.
Proof. exact width_recovered_gen. Qed.
Print Assumptions width_recovered.

(* The repaired writer (default / nominal width truncated to integers before
   the charstrings are encoded, the same integers stored in the Private DICT)
   recovers every width however selectWidths chose the two values. *)
Theorem width_recovered_repaired :
  forall def nom w,
    -2147483648 <= w - trunc_grid nom < 2147483648 ->
    M_width_roundtrip def nom w = w.
Proof. exact width_roundtrip_fixed. Qed.
Print Assumptions width_recovered_repaired.

(* The code before the repair (5.A-12): charstrings relative to the unrounded
   values, Private DICT with the truncated ones. *)
Theorem width_recovered_refuted :
  exists def nom w,
    -2147483648 <= w - nom < 2147483648 /\ M_width_roundtrip_old def nom w <> w.
Proof. exact width_old_refuted. Qed.
Print Assumptions width_recovered_refuted.

(* The FontMatrix of the Top DICT (simple or CID-keyed) and of every Font DICT
   is read back as written, both when it is stored and when it is omitted
   because it equals the default of its place (identity for the Top DICT of a
   CID-keyed font, [0.001 0 0 0.001 0 0] for a simple font and for Font DICTs):
   the writer omits against the same default the reader substitutes. *)
Theorem fontmatrix_roundtrip :
  forall (p : fm_place) (fm : list Z), M_fm_read p (M_fm_write p fm) = fm.
Proof. exact fontmatrix_roundtrip_gen. Qed.
Print Assumptions fontmatrix_roundtrip.

(* ---------- predefined charsets; the DICT decoder as a whole ---------- *)
Local Open Scope N_scope.

(* The glyph-name tables of the three predefined charsets in cff/charset.go,
   resolved through the standard strings of cff/strings.go (391 of them), are
   exactly the SID lists of Appendix C of the specification; a font using
   charset id 0, 1 or 2 gets the first nGlyphs entries and is rejected when it
   has more glyphs than the table. *)
Theorem predefined_charsets_match_spec :
  forall id n,
    M_predefined_charset id n =
    let table := if id =? 0 then S_isoadobe_charset
                 else if id =? 1 then S_expert_charset else S_expertsubset_charset in
    if lenN table <? n then Err else Ok (takeN table n).
Proof. exact predefined_charset_spec. Qed.
Print Assumptions predefined_charsets_match_spec.

(* decodeDict never panics and its loop always terminates, on any bytes. *)
Theorem dict_decode_total :
  forall nstr buf,
    M_dict_decode_top nstr buf <> Panic /\ M_dict_decode_top nstr buf <> OutOfFuel.
Proof. exact Proofs_misc.dict_decode_total. Qed.
Print Assumptions dict_decode_total.

(* A DICT entry with any number of int32 operands (BlueValues deltas, offsets,
   sizes ...) under a one-byte operator is read back as the same operands. *)
Theorem dict_ints_roundtrip :
  forall (vs : list Z) (op nstr : N),
    Forall (fun a => (-2147483648 <= a <= 2147483647)%Z) vs ->
    op <= 21 -> op <> 12 -> op_is_string op = false ->
    M_dict_decode_top nstr (ints_dict vs op) = Ok [(op, map DInt vs)].
Proof. intros. apply ints_dict_decode; assumption. Qed.
Print Assumptions dict_ints_roundtrip.
