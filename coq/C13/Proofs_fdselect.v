(* C13/Proofs_fdselect.v — FDSelect: both formats written by
   FDSelectFn.encode are read back by readFDSelect (including the binary
   search of the returned closure); the reader and the closure are total. *)
From Coq Require Import List NArith ZArith Bool Arith Lia.
From Coq Require Import ZifyBool ZifyNat ZifyN.
From Common Require Import Bytes Outcome.
From C13 Require Import Model Util ModelTables Proofs_charset.
Import ListNotations.
Ltac Zify.zify_post_hook ::= Z.div_mod_to_equations.
Local Open Scope N_scope.

(* ---------- binary search ---------- *)

Lemma bsearch_threshold fuel : forall (f : N -> bool) i j r,
  i <= r <= j -> j - i < 2 ^ N.of_nat fuel ->
  (forall x, i <= x < r -> f x = false) ->
  (forall x, r <= x < j -> f x = true) ->
  bsearch fuel f i j = r.
Proof.
  induction fuel as [|k IH]; intros f i j r Hr Hsz Hlo Hhi.
  - cbn [bsearch]. cbn in Hsz. lia.
  - cbn [bsearch]. destruct (N.ltb_spec i j) as [Hij|Hij]; [|lia].
    assert (Hpow : 2 ^ N.of_nat (S k) = 2 * 2 ^ N.of_nat k).
    { rewrite Nat2N.inj_succ, N.pow_succ_r'. reflexivity. }
    rewrite Hpow in Hsz. clear Hpow. set (P := 2 ^ N.of_nat k) in *.
    set (h := (i + j) / 2).
    assert (Hh : i <= h < j) by (unfold h; lia).
    destruct (f h) eqn:Fh.
    + assert (r <= h).
      { destruct (N.le_gt_cases r h); [assumption|]. rewrite Hlo in Fh by lia. discriminate. }
      apply IH; try (unfold h in *; lia).
      * intros x Hx. apply Hlo. lia.
      * intros x Hx. apply Hhi. lia.
    + assert (h < r).
      { destruct (N.le_gt_cases r h); [|assumption]. rewrite Hhi in Fh by lia. discriminate. }
      apply IH; try (unfold h in *; lia).
      * intros x Hx. apply Hlo. lia.
      * intros x Hx. apply Hhi. lia.
Qed.

(* without any assumption on f: the result is in range, and it is < n as
   soon as f (n-1) holds — which is why the closure never indexes fdIdx out
   of range for gid < nGlyphs *)
Lemma bsearch_inv fuel : forall (f : N -> bool) i j n,
  i <= j <= n -> j - i < 2 ^ N.of_nat fuel ->
  (i = 0 \/ f (i - 1) = false) -> (j = n \/ f j = true) ->
  let r := bsearch fuel f i j in
  i <= r <= j /\ (r = 0 \/ f (r - 1) = false) /\ (r = n \/ f r = true).
Proof.
  induction fuel as [|k IH]; intros f i j n Hij Hsz Hi Hj.
  - cbn [bsearch]. cbn in Hsz. assert (i = j) by lia. subst. cbn zeta. repeat split; try lia; assumption.
  - cbn [bsearch]. destruct (N.ltb_spec i j) as [Hlt|Hge].
    + assert (Hpow : 2 ^ N.of_nat (S k) = 2 * 2 ^ N.of_nat k).
      { rewrite Nat2N.inj_succ, N.pow_succ_r'. reflexivity. }
      rewrite Hpow in Hsz. clear Hpow. set (P := 2 ^ N.of_nat k) in *.
      set (h := (i + j) / 2).
      assert (Hh : i <= h < j) by (unfold h; lia).
      destruct (f h) eqn:Fh.
      * destruct (IH f i h n ltac:(lia) ltac:(unfold h in *; lia) Hi (or_intror Fh)) as (A & B & C).
        cbn zeta. repeat split; try lia; assumption.
      * assert (Hi' : h + 1 = 0 \/ f (h + 1 - 1) = false) by (right; replace (h + 1 - 1) with h by lia; exact Fh).
        destruct (IH f (h + 1) j n ltac:(lia) ltac:(unfold h in *; lia) Hi' Hj) as (A & B & C).
        cbn zeta. repeat split; try lia; assumption.
    + assert (i = j) by lia. subst. cbn zeta. repeat split; try lia; assumption.
Qed.

Lemma size_pow n : n < 2 ^ N.of_nat (S (N.to_nat (N.size n))).
Proof.
  rewrite Nat2N.inj_succ, N2Nat.id, N.pow_succ_r'.
  pose proof (N.size_gt n). lia.
Qed.

(* ---------- lists of segments ---------- *)

(* strictly increasing, starting above p *)
Fixpoint incr (p : N) (l : list N) : Prop :=
  match l with [] => True | x :: r => p < x /\ incr x r end.

Fixpoint first_idx (g : N) (E : list N) : N :=
  match E with [] => 0 | e :: r => if g <? e then 0 else 1 + first_idx g r end.

Definition lookup_pred (ends : list N) (gid : N) (i : N) : bool :=
  match nthN ends i with Some e => gid <? e | None => false end.

Lemma nthN_cons_succ {x : N} {l : list N} i : nthN (x :: l) (1 + i) = nthN l i.
Proof. unfold nthN. replace (N.to_nat (1 + i)) with (S (N.to_nat i)) by lia. reflexivity. Qed.

Lemma nthN_zero (x : N) l : nthN (x :: l) 0 = Some x.
Proof. reflexivity. Qed.

Lemma nthN_nil i : nthN [] i = None.
Proof. unfold nthN. destruct (N.to_nat i); reflexivity. Qed.

Lemma incr_all E : forall p y v, incr p E -> nthN E y = Some v -> p < v.
Proof.
  induction E as [|a E IH]; intros p y v Hinc Hv.
  - rewrite nthN_nil in Hv. discriminate.
  - cbn [incr] in Hinc. destruct Hinc as [Hpa Hinc].
    destruct (N.eq_dec y 0) as [->|Hy].
    + rewrite nthN_zero in Hv. inversion Hv; subst. exact Hpa.
    + replace y with (1 + (y - 1)) in Hv by lia. rewrite nthN_cons_succ in Hv.
      specialize (IH a (y - 1) v Hinc Hv). lia.
Qed.

Lemma nthN_some_lt (E : list N) y : y < lenN E -> exists v, nthN E y = Some v.
Proof.
  intros H. unfold nthN. rewrite lenN_length in H.
  destruct (nth_error E (N.to_nat y)) as [v|] eqn:En; [eauto|].
  apply nth_error_None in En. lia.
Qed.

Lemma first_idx_threshold E : forall p g,
  incr p E ->
  let r := first_idx g E in
  r <= lenN E /\
  (forall x, x < r -> lookup_pred E g x = false) /\
  (forall x, r <= x < lenN E -> lookup_pred E g x = true).
Proof.
  induction E as [|e E IH]; intros p g Hinc; cbn [first_idx lenN].
  - cbn zeta. repeat split; try lia; intros x Hx; lia.
  - cbn [incr] in Hinc. destruct Hinc as [Hpe Hinc].
    destruct (N.ltb_spec g e) as [Hge|Hge]; cbn zeta.
    + repeat split; try lia.
      intros x Hx. unfold lookup_pred.
      destruct (N.eq_dec x 0) as [->|Hx0].
      * rewrite nthN_zero. apply N.ltb_lt. exact Hge.
      * replace x with (1 + (x - 1)) by lia. rewrite nthN_cons_succ.
        destruct (nthN_some_lt E (x - 1) ltac:(lia)) as [v Hv]. rewrite Hv.
        pose proof (incr_all E e (x - 1) v Hinc Hv). apply N.ltb_lt. lia.
    + destruct (IH e g Hinc) as (A & B & C). repeat split; try lia.
      * intros x Hx. unfold lookup_pred. destruct (N.eq_dec x 0) as [->|Hx0].
        -- rewrite nthN_zero. apply N.ltb_ge. exact Hge.
        -- replace x with (1 + (x - 1)) by lia. rewrite nthN_cons_succ. apply B. lia.
      * intros x Hx. unfold lookup_pred. replace x with (1 + (x - 1)) by lia.
        rewrite nthN_cons_succ. apply C. lia.
Qed.

(* ---------- the writer's segments ---------- *)

(* value of the last segment starting at or before p; d if there is none *)
Fixpoint value_at (p : N) (segs : list (N * N)) (d : N) : N :=
  match segs with
  | [] => d
  | (s, v) :: r => if s <=? p then value_at p r v else d
  end.

(* starts strictly increasing inside [lo, hi) *)
Fixpoint sorted_from (lo hi : N) (ss : list N) : Prop :=
  match ss with [] => True | s :: r => lo <= s < hi /\ sorted_from (s + 1) hi r end.

Lemma value_at_before p segs d lo hi :
  sorted_from lo hi (map fst segs) -> p < lo -> value_at p segs d = d.
Proof.
  destruct segs as [|[s v] r]; cbn [map fst sorted_from value_at]; [reflexivity|].
  intros [H _] Hp. destruct (N.leb_spec s p); [lia|reflexivity].
Qed.

Lemma sorted_from_weaken ss : forall lo lo' hi, sorted_from lo hi ss -> lo' <= lo -> sorted_from lo' hi ss.
Proof. destruct ss as [|s r]; cbn [sorted_from]; intros; [exact I|]. split; [lia|tauto]. Qed.

Lemma nth_succ {A} (x : A) l g d : 0 < g -> nth (N.to_nat g) (x :: l) d = nth (N.to_nat (g - 1)) l d.
Proof. intros H. replace (N.to_nat g) with (S (N.to_nat (g - 1))) by lia. reflexivity. Qed.

Lemma fd_segs_spec l : forall i cur blen n1 segs,
  fd_segs i cur blen n1 l = Some segs ->
  sorted_from i (i + lenN l) (map fst segs) /\
  (forall g, g < lenN l -> nth (N.to_nat g) l 0 = value_at (i + g) segs cur) /\
  (forall v, In v (map snd segs) -> In v l) /\
  (i = 0 -> l <> [] -> exists v r, segs = (0, v) :: r).
Proof.
  induction l as [|fd r IH]; intros i cur blen n1 segs; cbn [fd_segs].
  - intros H; inversion H; subst. cbn. repeat split; try tauto. intros g Hg; lia.
  - destruct (negb (i =? 0) && (fd =? cur)) eqn:C.
    + (* the glyph continues the current segment *)
      apply andb_prop in C. destruct C as [C1 C2].
      apply negb_true_iff in C1. apply N.eqb_neq in C1. apply N.eqb_eq in C2. subst fd.
      intros H. destruct (IH _ _ _ _ _ H) as (S1 & S2 & S3 & _).
      cbn [lenN]. repeat split.
      * replace (i + N.succ (lenN r)) with (i + 1 + lenN r) by lia.
        eapply sorted_from_weaken; [exact S1|lia].
      * intros g Hg. destruct (N.eq_dec g 0) as [->|Hg0].
        -- cbn [N.to_nat nth]. rewrite N.add_0_r.
           symmetry. eapply value_at_before; [exact S1|lia].
        -- rewrite nth_succ by lia. rewrite S2 by lia. f_equal. lia.
      * intros v Hv. right. apply S3. exact Hv.
      * intros Hi. lia.
    + destruct (N.leb_spec n1 (blen + 5)); [discriminate|].
      destruct (fd_segs (i + 1) fd (blen + 3) n1 r) as [s'|] eqn:E; [|discriminate].
      intros Heq; inversion Heq; subst segs; clear Heq.
      destruct (IH _ _ _ _ _ E) as (S1 & S2 & S3 & _).
      cbn [lenN map fst snd sorted_from]. repeat split; try lia.
      * replace (i + N.succ (lenN r)) with (i + 1 + lenN r) by lia. exact S1.
      * intros g Hg. cbn [value_at]. destruct (N.leb_spec i (i + g)); [|lia].
        destruct (N.eq_dec g 0) as [->|Hg0].
        -- cbn [N.to_nat nth]. rewrite N.add_0_r.
           symmetry. eapply value_at_before; [exact S1|lia].
        -- rewrite nth_succ by lia. rewrite S2 by lia. f_equal. lia.
      * intros v [Hv|Hv]; [left; exact Hv|right; apply S3; exact Hv].
      * intros Hi _. subst i. eauto.
Qed.

(* ---------- the reader on the writer's segments ---------- *)

Definition seg_bytes (segs : list (N * N)) : list N :=
  concat (map (fun s => [nhi8 (fst s); nlo8 (fst s); nlo8 (snd s)]) segs).

Fixpoint chain (i prev np : N) (segs : list (N * N)) : Prop :=
  match segs with
  | [] => True
  | (s, v) :: r =>
    (if i =? 0 then s = 0 else prev < s) /\ s < 65536 /\ v < 256 /\ v < np /\ chain (i + 1) s np r
  end.

Lemma fd3_ranges_enc segs : forall i prev np rest,
  chain i prev np segs ->
  fd3_ranges (length segs) i prev np (seg_bytes segs ++ rest)
  = Ok (if i =? 0 then map fst (tl segs) else map fst segs, map snd segs, rest).
Proof.
  induction segs as [|[s v] r IH]; intros i prev np rest Hc.
  - cbn. destruct (i =? 0); reflexivity.
  - cbn [chain] in Hc. destruct Hc as (H1 & H2 & H3 & H4 & H5).
    cbn [length fd3_ranges]. unfold seg_bytes. cbn [map concat fst snd]. rewrite <- app_assoc.
    cbn [app rd_u16]. rewrite nhi_lo by exact H2.
    assert (Hchk : (negb (i =? 0) && (s <=? prev)) || ((i =? 0) && negb (s =? 0)) = false).
    { destruct (N.eqb_spec i 0) as [Hi|Hi]; cbn [negb andb orb].
      - subst s. reflexivity.
      - rewrite orb_false_r. apply N.leb_gt. exact H1. }
    rewrite Hchk. cbn [rd_u8].
    replace (nlo8 v) with v by (unfold nlo8; lia).
    destruct (N.leb_spec np v); [lia|].
    fold (seg_bytes r). rewrite (IH (i + 1) s np rest H5).
    destruct (N.eqb_spec (i + 1) 0); [lia|]. cbn [obind tl map fst snd].
    destruct (i =? 0); reflexivity.
Qed.

(* the closure finds the segment containing gid *)
Lemma nth_first_idx rest : forall s0 v0 g n d,
  sorted_from s0 n (s0 :: map fst rest) -> s0 <= g < n ->
  nthN (map snd ((s0, v0) :: rest)) (first_idx g (map fst rest ++ [n]))
  = Some (value_at g ((s0, v0) :: rest) d).
Proof.
  induction rest as [|[s1 v1] rest IH]; intros s0 v0 g n d Hs Hg.
  - cbn [map app first_idx]. destruct (N.ltb_spec g n); [|lia].
    cbn [value_at]. destruct (N.leb_spec s0 g); [|lia]. reflexivity.
  - cbn [map fst app first_idx]. cbn [sorted_from map fst] in Hs.
    destruct Hs as (Hs0 & Hs1 & Hs2).
    cbn [value_at]. destruct (N.leb_spec s0 g); [|lia].
    destruct (N.ltb_spec g s1) as [Hlt|Hge].
    + destruct (N.leb_spec s1 g); [lia|]. reflexivity.
    + destruct (N.leb_spec s1 g); [|lia].
      cbn [map snd]. rewrite nthN_cons_succ.
      specialize (IH s1 v1 g n v0).
      cbn [map snd value_at] in IH. destruct (N.leb_spec s1 g) in IH; [|lia].
      apply IH; [|lia]. cbn [sorted_from]. split; [lia|exact Hs2].
Qed.

Lemma sorted_incr ss : forall lo hi p,
  sorted_from lo hi ss -> p < lo -> p < hi -> incr p (ss ++ [hi]).
Proof.
  induction ss as [|s r IH]; intros lo hi p H Hp Hh; cbn [app incr sorted_from] in *.
  - split; [exact Hh|exact I].
  - destruct H as [H1 H2]. split; [lia|]. eapply IH; [exact H2|lia|lia].
Qed.

Lemma fd3_lookup_ok v0 rest n g :
  sorted_from 0 n (0 :: map fst rest) -> g < n ->
  fd3_lookup (lenN ((0, v0) :: rest)) (map fst rest ++ [n]) (map snd ((0, v0) :: rest)) g
  = Ok (value_at g ((0, v0) :: rest) 0).
Proof.
  intros Hs Hg. unfold fd3_lookup.
  set (E := map fst rest ++ [n]).
  set (nR := lenN ((0, v0) :: rest)).
  assert (HlenE : lenN E = nR).
  { unfold E, nR. rewrite lenN_app, lenN_map. cbn [lenN]. lia. }
  cbn [sorted_from] in Hs. destruct Hs as [Hs0 Hs1].
  assert (Hinc : incr 0 E).
  { unfold E. eapply sorted_incr; [exact Hs1|lia|lia]. }
  destruct (first_idx_threshold E 0 g Hinc) as (A & B & C).
  change (fun i : N => match nthN E i with Some e => g <? e | None => false end) with (lookup_pred E g).
  rewrite (bsearch_threshold _ (lookup_pred E g) 0 nR (first_idx g E)).
  - unfold E. rewrite (nth_first_idx rest 0 v0 g n 0); [reflexivity| |lia].
    cbn [sorted_from]. split; [lia|exact Hs1].
  - lia.
  - pose proof (size_pow nR). lia.
  - intros x Hx. apply B. lia.
  - intros x Hx. apply C. lia.
Qed.

Lemma map_outcome_nth (f : N -> outcome N) l : forall base,
  (forall g, g < lenN l -> f (base + g) = Ok (nth (N.to_nat g) l 0)) ->
  map_outcome f (seqN base (length l)) = Ok l.
Proof.
  induction l as [|x l IH]; intros base H; cbn [length seqN map_outcome].
  - reflexivity.
  - pose proof (H 0 ltac:(cbn [lenN]; lia)) as H0. rewrite N.add_0_r in H0. rewrite H0.
    cbn [N.to_nat nth obind].
    rewrite (IH (base + 1)).
    + reflexivity.
    + intros g Hg. specialize (H (1 + g) ltac:(cbn [lenN]; lia)).
      replace (base + 1 + g) with (base + (1 + g)) by lia. rewrite H.
      rewrite nth_succ by lia. do 3 f_equal. lia.
Qed.

Lemma forallb_lt fds np : Forall (fun x => x < np) fds -> forallb (fun b => b <? np) fds = true.
Proof.
  induction 1 as [|x l Hx Hl IH]; cbn [forallb]; [reflexivity|].
  rewrite IH, andb_true_r. apply N.ltb_lt. exact Hx.
Qed.

Lemma map_nlo8 fds : Forall (fun x => x < 256) fds -> map nlo8 fds = fds.
Proof.
  induction 1 as [|x l Hx Hl IH]; cbn [map]; [reflexivity|].
  rewrite IH. f_equal. unfold nlo8. lia.
Qed.

Lemma chain_of_sorted segs : forall i prev np n,
  sorted_from (if i =? 0 then 0 else prev + 1) n (map fst segs) ->
  (i = 0 -> segs <> [] -> exists v r, segs = (0, v) :: r) ->
  n <= 65536 ->
  (forall v, In v (map snd segs) -> v < 256 /\ v < np) ->
  chain i prev np segs.
Proof.
  induction segs as [|[s v] r IH]; intros i prev np n Hs Hfirst Hn Hv; cbn [chain]; [exact I|].
  cbn [map fst sorted_from] in Hs. destruct Hs as [Hs1 Hs2].
  destruct (Hv v ltac:(left; reflexivity)) as [Hv1 Hv2].
  repeat split; try lia.
  - destruct (N.eqb_spec i 0) as [Hi|Hi].
    + destruct (Hfirst Hi ltac:(congruence)) as (v' & r' & E). inversion E. reflexivity.
    + lia.
  - apply (IH (i + 1) s np n).
    + destruct (N.eqb_spec (i + 1) 0); [lia|]. exact Hs2.
    + intros; lia.
    + exact Hn.
    + intros w Hw. apply Hv. right. exact Hw.
Qed.

Lemma sorted_from_len ss : forall lo n, sorted_from lo n ss -> lenN ss <= n - lo.
Proof.
  induction ss as [|s r IH]; intros lo n H; cbn [lenN sorted_from] in *; [lia|].
  destruct H as [H1 H2]. specialize (IH (s + 1) n H2). lia.
Qed.

Lemma fdselect_roundtrip_gen fds np tail :
  Forall (fun x => x < 256) fds -> Forall (fun x => x < np) fds ->
  lenN fds < 65536 ->
  M_fdselect_read (lenN fds) np (M_fdselect_encode fds ++ tail) = Ok (fds, tail).
Proof.
  intros H256 Hnp Hn. unfold M_fdselect_encode.
  destruct (fd_segs 0 0 3 (lenN fds + 1) fds) as [segs|] eqn:E.
  - (* format 3 *)
    destruct (fd_segs_spec _ _ _ _ _ _ E) as (S1 & S2 & S3 & S4).
    rewrite N.add_0_l in S1.
    unfold M_fdselect_read. cbn [app rd_u8]. cbn [N.eqb Pos.eqb].
    assert (Hsegs : lenN segs <= lenN fds).
    { (* the starts are distinct positions below the number of glyphs *)
      pose proof (sorted_from_len _ _ _ S1) as Hl. rewrite lenN_map in Hl. lia. }
    rewrite <- !app_assoc. cbn [app rd_u16]. rewrite nhi_lo by lia.
    destruct fds as [|fd0 fr].
    + (* no glyphs: an empty format 3 table *)
      cbn in E. inversion E; subst segs. cbn. reflexivity.
    + destruct (S4 eq_refl ltac:(congruence)) as (v0 & rest & ->).
      set (fds := fd0 :: fr) in *.
      assert (Hnz : (0 <? lenN fds) && (lenN ((0, v0) :: rest) =? 0) = false).
      { cbn [lenN]. destruct (N.eqb_spec (N.succ (lenN rest)) 0); [lia|]. apply andb_false_r. }
      rewrite Hnz.
      replace (N.to_nat (lenN ((0, v0) :: rest))) with (length ((0, v0) :: rest))
        by (rewrite lenN_length; lia).
      fold (seg_bytes ((0, v0) :: rest)).
      rewrite (fd3_ranges_enc ((0, v0) :: rest) 0 0 np).
      * cbn [N.eqb tl]. cbn [obind rd_u16]. rewrite nhi_lo by lia.
        rewrite N.eqb_refl. cbn [negb].
        replace (lenN fds mod 65536) with (lenN fds) by lia.
        replace (N.to_nat (lenN fds)) with (length fds) by (rewrite lenN_length; lia).
        rewrite (map_outcome_nth _ fds 0).
        -- reflexivity.
        -- intros g Hg. rewrite N.add_0_l.
           rewrite (fd3_lookup_ok v0 rest (lenN fds) g); [|exact S1|exact Hg].
           rewrite (S2 g Hg). rewrite N.add_0_l. reflexivity.
      * apply (chain_of_sorted _ 0 0 np (lenN fds)).
        -- cbn [N.eqb]. exact S1.
        -- intros _ _. eauto.
        -- lia.
        -- intros v Hv. specialize (S3 v Hv).
           rewrite Forall_forall in H256, Hnp. split; [apply H256|apply Hnp]; exact S3.
  - (* format 0 *)
    unfold M_fdselect_read. cbn [app rd_u8]. cbn [N.eqb].
    rewrite map_nlo8 by exact H256. rewrite splitN_app.
    rewrite forallb_lt by exact Hnp. reflexivity.
Qed.

(* ---------- totality ---------- *)

Lemma fd3_ranges_shape k : forall i prev np inp ends fdIdx r,
  fd3_ranges k i prev np inp = Ok (ends, fdIdx, r) ->
  length fdIdx = k /\
  length ends = (if i =? 0 then Nat.pred k else k) /\
  Forall (fun fd => fd < np) fdIdx.
Proof.
  induction k as [|k IH]; intros i prev np inp ends fdIdx r; cbn [fd3_ranges].
  - intros H; inversion H; subst. destruct (i =? 0); repeat split; constructor.
  - destruct (rd_u16 inp) as [[first r1]|]; [|discriminate].
    destruct ((negb (i =? 0) && (first <=? prev)) || ((i =? 0) && negb (first =? 0))); [discriminate|].
    destruct (rd_u8 r1) as [[fd r2]|]; [|discriminate].
    destruct (N.leb_spec np fd); [discriminate|].
    destruct (fd3_ranges k (i + 1) first np r2) as [[[e f] r3]| | |] eqn:E; cbn [obind]; try discriminate.
    intros Hx; inversion Hx; subst; clear Hx.
    destruct (IH _ _ _ _ _ _ _ E) as (A & B & C).
    destruct (N.eqb_spec (i + 1) 0); [lia|].
    cbn [length]. repeat split.
    + lia.
    + destruct (i =? 0); cbn [length Nat.pred]; lia.
    + constructor; assumption.
Qed.

Lemma nthN_app_last (l : list N) x : nthN (l ++ [x]) (lenN l) = Some x.
Proof.
  unfold nthN. rewrite lenN_length, Nat2N.id.
  rewrite nth_error_app2 by lia. rewrite Nat.sub_diag. reflexivity.
Qed.

Lemma fd3_lookup_total nR ends0 fdIdx n np g :
  1 <= nR -> lenN ends0 = nR - 1 -> lenN fdIdx = nR -> g < n ->
  Forall (fun fd => fd < np) fdIdx ->
  exists fd, fd3_lookup nR (ends0 ++ [n]) fdIdx g = Ok fd /\ fd < np.
Proof.
  intros HnR He Hf Hg Hall. unfold fd3_lookup.
  set (f := fun i : N => match nthN (ends0 ++ [n]) i with Some e => g <? e | None => false end).
  pose proof (bsearch_inv (S (N.to_nat (N.size nR))) f 0 nR nR ltac:(lia)
                ltac:(pose proof (size_pow nR); lia) (or_introl eq_refl) (or_introl eq_refl)) as (A & B & C).
  cbn zeta in *.
  set (r := bsearch (S (N.to_nat (N.size nR))) f 0 nR) in *.
  assert (Hr : r < nR).
  { destruct (N.eq_dec r nR) as [Er|Er]; [|lia].
    destruct B as [B|B]; [lia|].
    rewrite Er in B. unfold f in B. rewrite <- He in B. rewrite nthN_app_last in B.
    apply N.ltb_ge in B. lia. }
  unfold nthN. destruct (nth_error fdIdx (N.to_nat r)) as [fd|] eqn:En.
  - exists fd. split; [reflexivity|]. rewrite Forall_forall in Hall. apply Hall.
    eapply nth_error_In; exact En.
  - apply nth_error_None in En. rewrite lenN_length in Hf. lia.
Qed.

Lemma map_outcome_total (f : N -> outcome N) (P : N -> Prop) l :
  (forall g, In g l -> exists v, f g = Ok v /\ P v) ->
  exists t, map_outcome f l = Ok t /\ length t = length l /\ Forall P t.
Proof.
  induction l as [|x l IH]; intros H; cbn [map_outcome].
  - exists []. repeat split. constructor.
  - destruct (H x ltac:(left; reflexivity)) as (v & Hv & Pv). rewrite Hv. cbn [obind].
    destruct IH as (t & Ht & Hl & Hp); [intros g Hg; apply H; right; exact Hg|].
    rewrite Ht. cbn [obind]. exists (v :: t). repeat split; [cbn [length]; lia|constructor; assumption].
Qed.

Lemma in_seqN g first k : In g (seqN first k) -> first <= g < first + N.of_nat k.
Proof.
  revert first; induction k as [|k IH]; intros first; cbn [seqN In]; [tauto|].
  intros [<-|H]; [lia|]. specialize (IH _ H). lia.
Qed.

Lemma fd3_ranges_no_panic k : forall i prev np inp,
  fd3_ranges k i prev np inp <> Panic /\ fd3_ranges k i prev np inp <> OutOfFuel.
Proof.
  induction k as [|k IH]; intros i prev np inp; cbn [fd3_ranges]; [split; discriminate|].
  destruct (rd_u16 inp) as [[first q1]|]; [|split; discriminate].
  destruct ((negb (i =? 0) && (first <=? prev)) || ((i =? 0) && negb (first =? 0))); [split; discriminate|].
  destruct (rd_u8 q1) as [[fd q2]|]; [|split; discriminate].
  destruct (np <=? fd); [split; discriminate|].
  destruct (IH (i + 1) first np q2) as [A B].
  destruct (fd3_ranges k (i + 1) first np q2) as [[[e f] q3]| | |]; cbn [obind];
    split; try discriminate; congruence.
Qed.

(* nGlyphs is the length of the CharStrings INDEX, hence below 65536 *)
Lemma fdselect_read_total_gen n np inp :
  n < 65536 ->
  match M_fdselect_read n np inp with
  | Ok (tbl, _) => lenN tbl = n /\ Forall (fun fd => fd < np) tbl
  | Err => True
  | Panic | OutOfFuel => False
  end.
Proof.
  intros Hn. unfold M_fdselect_read.
  destruct (rd_u8 inp) as [[format r0]|]; [|exact I].
  destruct (format =? 0).
  - destruct (splitN r0 n) as [[buf r1]|] eqn:S; [|exact I].
    destruct (forallb (fun b => b <? np) buf) eqn:F; [|exact I].
    apply splitN_inv in S. destruct S as [_ S]. split; [exact S|].
    rewrite forallb_forall in F. apply Forall_forall. intros x Hx. apply N.ltb_lt. apply F. exact Hx.
  - destruct (format =? 3); [|exact I].
    destruct (rd_u16 r0) as [[nRanges r1]|]; [|exact I].
    destruct ((0 <? n) && (nRanges =? 0)) eqn:Z; [exact I|].
    destruct (fd3_ranges_no_panic (N.to_nat nRanges) 0 0 np r1) as [NP NF].
    destruct (fd3_ranges (N.to_nat nRanges) 0 0 np r1) as [[[ends0 fdIdx] r2]| | |] eqn:E;
      cbn [obind]; try exact I; try congruence.
    destruct (fd3_ranges_shape _ _ _ _ _ _ _ _ E) as (A & B & C). cbn [N.eqb] in B.
    destruct (rd_u16 r2) as [[sentinel r3]|]; [|exact I].
    destruct (N.eqb_spec sentinel n) as [->|]; cbn [negb]; [|exact I].
    destruct (N.eq_dec n 0) as [->|Hn0].
    + cbn. split; [reflexivity|constructor].
    + assert (HnR : 1 <= nRanges).
      { destruct (N.eqb_spec nRanges 0) as [->|]; [|lia].
        destruct (N.ltb_spec 0 n); [discriminate|lia]. }
      replace (n mod 65536) with n by lia.
      destruct (map_outcome_total (fd3_lookup nRanges (ends0 ++ [n]) fdIdx)
                  (fun fd => fd < np) (seqN 0 (N.to_nat n))) as (t & Ht & Hl & Hp).
      * intros g Hg. apply in_seqN in Hg.
        apply fd3_lookup_total; try lia; try assumption.
        -- rewrite lenN_length, B. lia.
        -- rewrite lenN_length, A. lia.
      * rewrite Ht. cbn [obind]. split; [|exact Hp].
        rewrite lenN_length, Hl, seqN_length. lia.
Qed.
