(* C13/Proofs_fdselect.v — FDSelect: both formats written by
   FDSelectFn.encode are read back by readFDSelect (including the binary
   search of the returned closure); the reader and the closure are total. *)
From Coq Require Import List NArith ZArith Bool Arith Lia.
From Coq Require Import ZifyBool ZifyNat ZifyN.
From Common Require Import Bytes Outcome.
From C13 Require Import Model Util ModelTables Proofs_charset.
Import ListNotations.
Ltac Zify.zify_post_hook ::= Z.div_mod_to_equations.
Local Open Scope N_scope.

(* ---------- binary search ---------- *)

Lemma bsearch_threshold fuel : forall (f : N -> bool) i j r,
  i <= r <= j -> j - i < 2 ^ N.of_nat fuel ->
  (forall x, i <= x < r -> f x = false) ->
  (forall x, r <= x < j -> f x = true) ->
  bsearch fuel f i j = r.
Proof.
  induction fuel as [|k IH]; intros f i j r Hr Hsz Hlo Hhi.
  - cbn [bsearch]. cbn in Hsz. lia.
  - cbn [bsearch]. destruct (N.ltb_spec i j) as [Hij|Hij]; [|lia].
    assert (Hpow : 2 ^ N.of_nat (S k) = 2 * 2 ^ N.of_nat k).
    { rewrite Nat2N.inj_succ, N.pow_succ_r'. reflexivity. }
    rewrite Hpow in Hsz. clear Hpow. set (P := 2 ^ N.of_nat k) in *.
    set (h := (i + j) / 2).
    assert (Hh : i <= h < j) by (unfold h; lia).
    destruct (f h) eqn:Fh.
    + assert (r <= h).
      { destruct (N.le_gt_cases r h); [assumption|]. rewrite Hlo in Fh by lia. discriminate. }
      apply IH; try lia.
      * unfold h in *. lia.
      * intros x Hx. apply Hlo. lia.
      * intros x Hx. apply Hhi. lia.
    + assert (h < r).
      { destruct (N.le_gt_cases r h); [|assumption]. rewrite Hhi in Fh by lia. discriminate. }
      apply IH; try lia.
      * unfold h in *. lia.
      * intros x Hx. apply Hlo. lia.
      * intros x Hx. apply Hhi. lia.
Qed.

(* without any assumption on f: the result is in range, and it is < n as
   soon as f (n-1) holds — which is why the closure never indexes fdIdx out
   of range for gid < nGlyphs *)
Lemma bsearch_inv fuel : forall (f : N -> bool) i j n,
  i <= j <= n -> j - i < 2 ^ N.of_nat fuel ->
  (i = 0 \/ f (i - 1) = false) -> (j = n \/ f j = true) ->
  let r := bsearch fuel f i j in
  i <= r <= j /\ (r = 0 \/ f (r - 1) = false) /\ (r = n \/ f r = true).
Proof.
  induction fuel as [|k IH]; intros f i j n Hij Hsz Hi Hj.
  - cbn [bsearch]. cbn in Hsz. assert (i = j) by lia. subst. cbn zeta. repeat split; try lia; assumption.
  - cbn [bsearch]. destruct (N.ltb_spec i j) as [Hlt|Hge].
    + assert (Hpow : 2 ^ N.of_nat (S k) = 2 * 2 ^ N.of_nat k).
      { rewrite Nat2N.inj_succ, N.pow_succ_r'. reflexivity. }
      rewrite Hpow in Hsz. clear Hpow. set (P := 2 ^ N.of_nat k) in *.
      set (h := (i + j) / 2).
      assert (Hh : i <= h < j) by (unfold h; lia).
      destruct (f h) eqn:Fh.
      * destruct (IH f i h n ltac:(lia) ltac:(unfold h in *; lia) Hi (or_intror Fh)) as (A & B & C).
        cbn zeta. repeat split; try lia; assumption.
      * assert (Hi' : h + 1 = 0 \/ f (h + 1 - 1) = false) by (right; replace (h + 1 - 1) with h by lia; exact Fh).
        destruct (IH f (h + 1) j n ltac:(lia) ltac:(unfold h in *; lia) Hi' Hj) as (A & B & C).
        cbn zeta. repeat split; try lia; assumption.
    + assert (i = j) by lia. subst. cbn zeta. repeat split; try lia; assumption.
Qed.

Lemma size_pow n : n < 2 ^ N.of_nat (S (N.to_nat (N.size n))).
Proof.
  rewrite Nat2N.inj_succ, N2Nat.id, N.pow_succ_r'.
  pose proof (N.size_gt n). lia.
Qed.

(* ---------- lists of segments ---------- *)

(* strictly increasing, starting above p *)
Fixpoint incr (p : N) (l : list N) : Prop :=
  match l with [] => True | x :: r => p < x /\ incr x r end.

Fixpoint first_idx (g : N) (E : list N) : N :=
  match E with [] => 0 | e :: r => if g <? e then 0 else 1 + first_idx g r end.

Definition lookup_pred (ends : list N) (gid : N) (i : N) : bool :=
  match nthN ends i with Some e => gid <? e | None => false end.

Lemma nthN_cons_succ {x : N} {l : list N} i : nthN (x :: l) (1 + i) = nthN l i.
Proof. unfold nthN. replace (N.to_nat (1 + i)) with (S (N.to_nat i)) by lia. reflexivity. Qed.

Lemma nthN_zero (x : N) l : nthN (x :: l) 0 = Some x.
Proof. reflexivity. Qed.

Lemma nthN_nil i : nthN [] i = None.
Proof. unfold nthN. destruct (N.to_nat i); reflexivity. Qed.

Lemma incr_all E : forall p y v, incr p E -> nthN E y = Some v -> p < v.
Proof.
  induction E as [|a E IH]; intros p y v Hinc Hv.
  - rewrite nthN_nil in Hv. discriminate.
  - cbn [incr] in Hinc. destruct Hinc as [Hpa Hinc].
    destruct (N.eq_dec y 0) as [->|Hy].
    + rewrite nthN_zero in Hv. inversion Hv; subst. exact Hpa.
    + replace y with (1 + (y - 1)) in Hv by lia. rewrite nthN_cons_succ in Hv.
      specialize (IH a (y - 1) v Hinc Hv). lia.
Qed.

Lemma nthN_some_lt (E : list N) y : y < lenN E -> exists v, nthN E y = Some v.
Proof.
  intros H. unfold nthN. rewrite lenN_length in H.
  destruct (nth_error E (N.to_nat y)) as [v|] eqn:En; [eauto|].
  apply nth_error_None in En. lia.
Qed.

Lemma first_idx_threshold E : forall p g,
  incr p E ->
  let r := first_idx g E in
  r <= lenN E /\
  (forall x, x < r -> lookup_pred E g x = false) /\
  (forall x, r <= x < lenN E -> lookup_pred E g x = true).
Proof.
  induction E as [|e E IH]; intros p g Hinc; cbn [first_idx lenN].
  - cbn zeta. repeat split; try lia; intros x Hx; lia.
  - cbn [incr] in Hinc. destruct Hinc as [Hpe Hinc].
    destruct (N.ltb_spec g e) as [Hge|Hge]; cbn zeta.
    + repeat split; try lia.
      intros x Hx. unfold lookup_pred.
      destruct (N.eq_dec x 0) as [->|Hx0].
      * rewrite nthN_zero. apply N.ltb_lt. exact Hge.
      * replace x with (1 + (x - 1)) by lia. rewrite nthN_cons_succ.
        destruct (nthN_some_lt E (x - 1) ltac:(lia)) as [v Hv]. rewrite Hv.
        pose proof (incr_all E e (x - 1) v Hinc Hv). apply N.ltb_lt. lia.
    + destruct (IH e g Hinc) as (A & B & C). repeat split; try lia.
      * intros x Hx. unfold lookup_pred. destruct (N.eq_dec x 0) as [->|Hx0].
        -- rewrite nthN_zero. apply N.ltb_ge. exact Hge.
        -- replace x with (1 + (x - 1)) by lia. rewrite nthN_cons_succ. apply B. lia.
      * intros x Hx. unfold lookup_pred. replace x with (1 + (x - 1)) by lia.
        rewrite nthN_cons_succ. apply C. lia.
Qed.
