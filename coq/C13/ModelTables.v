(* C13/ModelTables.v — charset, encoding and FDSelect: mirrors of
   cff/charset.go, cff/encoding.go, cff/fdselect.go.  Definitions only. *)
From Coq Require Import List NArith ZArith Bool Arith Lia.
From Common Require Import Bytes Outcome.
From Gen Require Import C13.
From C13 Require Import Model.
Import ListNotations.
Local Open Scope N_scope.

(* ---------- helpers ---------- *)

(* byte(x >> 8), byte(x) of a Go integer *)
Definition zhi8 (z : Z) : N := Z.to_N ((z / 256) mod 256)%Z.
Definition zlo8 (z : Z) : N := Z.to_N (z mod 256)%Z.
Definition nhi8 (n : N) : N := (n / 256) mod 256.
Definition nlo8 (n : N) : N := n mod 256.

Definition wrap_i32 (z : Z) : Z := ((z + 2147483648) mod 4294967296 - 2147483648)%Z.

(* first, first+1, ..., k entries *)
Fixpoint seqN (first : N) (k : nat) : list N :=
  match k with O => [] | S k' => first :: seqN (first + 1) k' end.

Fixpoint rd_u16s (k : nat) (inp : list N) : option (list N * list N) :=
  match k with
  | O => Some ([], inp)
  | S k' =>
    match rd_u16 inp with
    | None => None
    | Some (x, r) =>
      match rd_u16s k' r with
      | None => None
      | Some (l, r') => Some (x :: l, r')
      end
    end
  end.

(* ================= charset ================= *)

(* --- writer (encodeCharset) --- *)

(* runs of consecutive names: (first name, length).  The Go code keeps the
   run boundaries as indices; for an empty list its boundary list is [0,0],
   i.e. one run of length 0. *)
Fixpoint runs_from (first prev : Z) (len : N) (l : list Z) : list (Z * N) :=
  match l with
  | [] => [(first, len)]
  | x :: r =>
    if (x =? wrap_i32 (prev + 1))%Z then runs_from first x (len + 1) r
    else (first, len) :: runs_from x x 1 r
  end.

Definition M_runs (names : list Z) : list (Z * N) :=
  match names with
  | [] => [(0%Z, 0)]
  | x :: r => runs_from x x 1 r
  end.

(* "for d > 256 { length1 += 3; d -= 256 }" adds (d-1)/256 triples *)
Definition extra_chunks (d : N) : N := (d - 1) / 256.

Definition cs_length0 (names : list Z) : N := 1 + 2 * lenN names.
Definition cs_length1 (runs : list (Z * N)) : N :=
  1 + 3 * lenN runs + 3 * sumN (map (fun r => extra_chunks (snd r)) runs).
Definition cs_length2 (runs : list (Z * N)) : N := 1 + 4 * lenN runs.

(* 0, 1 or 2 *)
Definition cs_format (names : list Z) : N :=
  let runs := M_runs names in
  let l0 := cs_length0 names in
  let l1 := cs_length1 runs in
  let l2 := cs_length2 runs in
  if (l0 <=? l1) && (l0 <=? l2) then 0 else if l1 <? l2 then 1 else 2.

(* one run in format 1: chunks of at most 256 names *)
Fixpoint fmt1_run (fuel : nat) (name : Z) (length : N) : list N :=
  match fuel with
  | O => []
  | S f =>
    if length =? 0 then []
    else
      let chunk := if 256 <? length then 256 else length in
      [zhi8 name; zlo8 name; nlo8 (chunk - 1)] ++
      fmt1_run f (wrap_i32 (name + Z.of_N chunk)) (length - chunk)
  end.

Definition fmt1_fuel (length : N) : nat := S (N.to_nat (length / 256)).

Definition M_charset_encode (names0 : list Z) : outcome (list N) :=
  match names0 with
  | [] => Panic                       (* names[0] on an empty slice *)
  | n0 :: names =>
    if negb (n0 =? 0)%Z then Err else
    (* guard added by fixes/C13-charset-sid-range.diff: identifiers must fit 16 bits *)
    if existsb (fun x => (x <? 0)%Z || (65535 <? x)%Z) names then Err else
    let runs := M_runs names in
    match cs_format names with
    | 0 => Ok (0 :: concat (map (fun x => [zhi8 x; zlo8 x]) names))
    | 1 => Ok (1 :: concat (map (fun r => fmt1_run (fmt1_fuel (snd r)) (fst r) (snd r)) runs))
    | _ => Ok (2 :: concat (map (fun r => [zhi8 (fst r); zlo8 (fst r);
                                             nhi8 (snd r - 1); nlo8 (snd r - 1)]) runs))
    end
  end.

(* --- reader (readCharset) --- *)

(* formats 1 and 2: ranges until nGlyphs names are there; need = names still
   missing.  A range that overshoots makes the final length test fail. *)
Fixpoint read_ranges (fuel : nat) (wide : bool) (need : N) (inp : list N)
  : outcome (list N * list N) :=
  if need =? 0 then Ok ([], inp) else
  match fuel with
  | O => OutOfFuel
  | S f =>
    match rd_u16 inp with
    | None => Err
    | Some (first, r1) =>
      match (if wide then rd_u16 r1 else rd_u8 r1) with
      | None => Err
      | Some (nLeft, r2) =>
        if 65535 <? first + nLeft then Err          (* code > 0xFFFF *)
        else if need <? nLeft + 1 then Err           (* len(charset) != nGlyphs *)
        else
          x <- read_ranges f wide (need - (nLeft + 1)) r2 ;;
          Ok (seqN first (N.to_nat (nLeft + 1)) ++ fst x, snd x)
      end
    end
  end.

(* result: the SIDs/CIDs including the leading 0, and the remaining input *)
Definition M_charset_read (nGlyphs : Z) (inp : list N) : outcome (list N * list N) :=
  if ((nGlyphs <? 1) || (65536 <=? nGlyphs))%Z then Err else
  let n := Z.to_N nGlyphs in
  match rd_u8 inp with
  | None => Err
  | Some (format, r) =>
    if format =? 0 then
      match rd_u16s (N.to_nat (n - 1)) r with
      | None => Err
      | Some (l, r') => Ok (0 :: l, r')
      end
    else if format =? 1 then
      x <- read_ranges (N.to_nat n) false (n - 1) r ;; Ok (0 :: fst x, snd x)
    else if format =? 2 then
      x <- read_ranges (N.to_nat n) true (n - 1) r ;; Ok (0 :: fst x, snd x)
    else Err
  end.

(* predefined charsets (read.go: charset offsets 0, 1, 2): the glyph names
   are the first nGlyphs entries of the table; as SIDs *)
Definition M_predefined_charset (id : N) (nGlyphs : N) : outcome (list N) :=
  let table := if id =? 0 then cff_isoAdobeCharset_sids
               else if id =? 1 then cff_expertCharset_sids
               else cff_expertSubsetCharset_sids in
  if lenN table <? nGlyphs then Err else Ok (takeN table nGlyphs).

(* ================= encoding ================= *)

(* --- writer (encodeEncoding) --- *)

(* The Go code makes one pass over the encoding vector filling a map
   codes[gid] = first code of the glyph, a list extra of the later codes of
   already seen glyphs, and maxGid.  The model states the same three results
   position by position. *)

(* position of the first occurrence of g *)
Fixpoint first_pos (g : N) (l : list N) : option N :=
  match l with
  | [] => None
  | x :: r =>
    if x =? g then Some 0
    else match first_pos g r with Some p => Some (p + 1) | None => None end
  end.

(* codes[gid] (c8 := uint8(code)) *)
Definition code_of (enc : list N) (g : N) : option N :=
  match first_pos g enc with Some p => Some (p mod 256) | None => None end.

(* extra: (code, gid) for every position holding a glyph seen earlier *)
Fixpoint extras_from (pos : N) (l : list N) (enc : list N) : list (N * N) :=
  match l with
  | [] => []
  | g :: r =>
    let rest := extras_from (pos + 1) r enc in
    if g =? 0 then rest
    else match first_pos g enc with
         | Some p => if p =? pos then rest else (pos mod 256, g) :: rest
         | None => rest
         end
  end.
Definition extras (enc : list N) : list (N * N) := extras_from 0 enc enc.

Definition max_gid (enc : list N) : N := fold_left N.max enc 0.

(* "for gid := 1; gid <= maxGid; gid++": n iterations from gid; segments are
   collected in reverse *)
Fixpoint seg_loop (n : nat) (gid startGid startCode : N) (enc : list N)
    (ss : list (N * N)) : outcome (list (N * N) * N * N) :=
  match n with
  | O => Ok (ss, startGid, startCode)
  | S n' =>
    match code_of enc gid with
    | None => Err                      (* encoded glyphs not contiguous *)
    | Some code =>
      if (Z.of_N (gid - startGid) =? Z.of_N code - Z.of_N startCode)%Z
      then seg_loop n' (gid + 1) startGid startCode enc ss
      else seg_loop n' (gid + 1) gid code enc
             ((startCode, (gid - startGid - 1) mod 256) :: ss)
    end
  end.

Definition nth_names (names : list Z) (gid : N) : option Z :=
  nth_error names (N.to_nat gid).

Fixpoint enc_extra_bytes (extra : list (N * N)) (names : list Z) : outcome (list N) :=
  match extra with
  | [] => Ok []
  | (code, gid) :: r =>
    match nth_names names gid with
    | None => Panic                    (* glyphNames[s.gid] out of range *)
    | Some name =>
      let sid := (name mod 65536)%Z in
      tl <- enc_extra_bytes r names ;;
      Ok ([code; zhi8 sid; zlo8 sid] ++ tl)
    end
  end.

Definition code_or0 (enc : list N) (g : N) : N :=
  match code_of enc g with Some c => c | None => 0 end.

Definition M_encoding_encode (enc : list N) (names : list Z) : outcome (list N) :=
  let extra := extras enc in
  let maxGid := max_gid enc in
  r <- seg_loop (N.to_nat maxGid) 1 1 (code_or0 enc 1) enc [] ;;
  let '(ssrev, startGid, startCode') := r in
  (* uint8(maxGid - startGid) on uint16 operands *)
  let lastLeft := ((maxGid + 65536 - startGid) mod 65536) mod 256 in
  let ss := rev ((startCode', lastLeft) :: ssrev) in
  if 255 <? lenN ss then Err else
  let format0Len := 2 + maxGid in
  let format1Len := 2 + 2 * lenN ss in
  let flag := if lenN extra =? 0 then 0 else 128 in
  let main :=
    if (format0Len <=? format1Len) && (maxGid <=? 255) then
      [flag; maxGid mod 256] ++ map (code_or0 enc) (seqN 1 (N.to_nat maxGid))
    else
      [1 + flag; lenN ss mod 256] ++ concat (map (fun s => [fst s; snd s]) ss) in
  if lenN extra =? 0 then Ok main
  else
    eb <- enc_extra_bytes extra names ;;
    Ok (main ++ [lenN extra mod 256] ++ eb).

(* --- reader (readEncoding) --- *)

Fixpoint set_nth (l : list N) (i : nat) (v : N) : list N :=
  match l, i with
  | [], _ => []
  | _ :: r, O => v :: r
  | x :: r, S i' => x :: set_nth r i' v
  end.

Definition get_nth (l : list N) (i : N) : N := nth (N.to_nat i) l 0.

(* format 0: res[c] = currentGid++ for each code *)
Fixpoint enc_fmt0 (codes : list N) (res : list N) (cur : N) : outcome (list N * N) :=
  match codes with
  | [] => Ok (res, cur)
  | c :: r =>
    if negb (get_nth res c =? 0) then Err
    else enc_fmt0 r (set_nth res (N.to_nat c) cur) (cur + 1)
  end.

(* one range of format 1: codes first .. first+nLeft *)
Fixpoint enc_range (k : nat) (j : N) (ncs : N) (res : list N) (cur : N) : outcome (list N * N) :=
  match k with
  | O => Ok (res, cur)
  | S k' =>
    if ncs <=? cur then Err                 (* format 1 encoding too long *)
    else if negb (get_nth res j =? 0) then Err
    else enc_range k' (j + 1) ncs (set_nth res (N.to_nat j) cur) (cur + 1)
  end.

Fixpoint enc_fmt1 (nRanges : nat) (ncs : N) (inp : list N) (res : list N) (cur : N)
  : outcome (list N * N * list N) :=
  match nRanges with
  | O => Ok (res, cur, inp)
  | S n' =>
    match rd_u8 inp with
    | None => Err
    | Some (first, r1) =>
      match rd_u8 r1 with
      | None => Err
      | Some (nLeft, r2) =>
        if 255 <? first + nLeft then Err
        else
          x <- enc_range (N.to_nat (nLeft + 1)) first ncs res cur ;;
          enc_fmt1 n' ncs r2 (fst x) (snd x)
      end
    end
  end.

(* lookup[uint16(sid)] = gid over the charset; a later glyph wins *)
Fixpoint sid_lookup (sid : N) (gid : N) (charset : list Z) (found : N) : N :=
  match charset with
  | [] => found
  | s :: r => sid_lookup sid (gid + 1) r (if (Z.to_N (s mod 65536)%Z =? sid) then gid mod 65536 else found)
  end.

Fixpoint enc_sups (n : nat) (charset : list Z) (inp : list N) (res : list N) (cur : N)
  : outcome (list N * list N) :=
  match n with
  | O => Ok (res, inp)
  | S n' =>
    match rd_u8 inp with
    | None => Err
    | Some (code, r1) =>
      if negb (get_nth res code =? 0) then Err else
      match rd_u16 r1 with
      | None => Err
      | Some (sid, r2) =>
        let gid := sid_lookup sid 0 charset 0 in
        if cur <=? gid then Err
        else enc_sups n' charset r2 (if gid =? 0 then res else set_nth res (N.to_nat code) gid) cur
      end
    end
  end.

Definition M_encoding_read (inp : list N) (charset : list Z) : outcome (list N * list N) :=
  match rd_u8 inp with
  | None => Err
  | Some (format, r0) =>
    let res0 := repeat 0 256 in
    let ncs := lenN charset in
    main <-
      (if format mod 128 =? 0 then
         match rd_u8 r0 with
         | None => Err
         | Some (nCodes, r1) =>
           if ncs <=? nCodes then Err else
           match splitN r1 nCodes with
           | None => Err
           | Some (codes, r2) => x <- enc_fmt0 codes res0 1 ;; Ok (fst x, snd x, r2)
           end
         end
       else if format mod 128 =? 1 then
         match rd_u8 r0 with
         | None => Err
         | Some (nRanges, r1) => enc_fmt1 (N.to_nat nRanges) ncs r1 res0 1
         end
       else Err) ;;
    let '(res, cur, r3) := main in
    if 128 <=? format then
      match rd_u8 r3 with
      | None => Err
      | Some (nSups, r4) => enc_sups (N.to_nat nSups) charset r4 res cur
      end
    else Ok (res, r3)
  end.

(* ================= FDSelect ================= *)

(* --- writer (FDSelectFn.encode); fds = the function's values for gid 0..n-1 --- *)

(* the segments of format 3, or None when the code jumps to format 0 *)
Fixpoint fd_segs (i cur blen n1 : N) (l : list N) : option (list (N * N)) :=
  match l with
  | [] => Some []
  | fd :: r =>
    if negb (i =? 0) && (fd =? cur) then fd_segs (i + 1) cur blen n1 r
    else if n1 <=? blen + 5 then None
    else match fd_segs (i + 1) fd (blen + 3) n1 r with
         | Some s => Some ((i, fd) :: s)
         | None => None
         end
  end.

Definition M_fdselect_encode (fds : list N) : list N :=
  let n := lenN fds in
  match fd_segs 0 0 3 (n + 1) fds with
  | Some segs =>
    [3; nhi8 (lenN segs); nlo8 (lenN segs)] ++
    concat (map (fun s => [nhi8 (fst s); nlo8 (fst s); nlo8 (snd s)]) segs) ++
    [nhi8 n; nlo8 n]
  | None => 0 :: map nlo8 fds
  end.

(* --- reader (readFDSelect) --- *)

(* sort.Search(n, f) *)
Fixpoint bsearch (fuel : nat) (f : N -> bool) (i j : N) : N :=
  match fuel with
  | O => i
  | S k =>
    if i <? j then
      let h := (i + j) / 2 in
      if f h then bsearch k f i h else bsearch k f (h + 1) j
    else i
  end.

Definition nthN (l : list N) (i : N) : option N := nth_error l (N.to_nat i).

(* the closure returned for format 3 *)
Definition fd3_lookup (nRanges : N) (ends fdIdx : list N) (gid : N) : outcome N :=
  let idx := bsearch (S (N.to_nat (N.size nRanges))) (fun i =>
               match nthN ends i with Some e => gid <? e | None => false end) 0 nRanges in
  match nthN fdIdx idx with
  | Some fd => Ok fd
  | None => Panic
  end.

(* the range records of format 3: (ends without the sentinel, fdIdx) *)
Fixpoint fd3_ranges (n : nat) (i : N) (prev : N) (nPrivate : N) (inp : list N)
  : outcome (list N * list N * list N) :=
  match n with
  | O => Ok ([], [], inp)
  | S n' =>
    match rd_u16 inp with
    | None => Err
    | Some (first, r1) =>
      if (negb (i =? 0) && (first <=? prev)) || ((i =? 0) && negb (first =? 0)) then Err else
      match rd_u8 r1 with
      | None => Err
      | Some (fd, r2) =>
        if nPrivate <=? fd then Err else
        x <- fd3_ranges n' (i + 1) first nPrivate r2 ;;
        let '(ends, fdIdx, r3) := x in
        Ok (if i =? 0 then ends else first :: ends, fd :: fdIdx, r3)
      end
    end
  end.

Fixpoint map_outcome {A B} (f : A -> outcome B) (l : list A) : outcome (list B) :=
  match l with
  | [] => Ok []
  | x :: r => y <- f x ;; t <- map_outcome f r ;; Ok (y :: t)
  end.

(* result: the value of the returned function on gid 0..nGlyphs-1 *)
Definition M_fdselect_read (nGlyphs nPrivate : N) (inp : list N) : outcome (list N * list N) :=
  match rd_u8 inp with
  | None => Err
  | Some (format, r0) =>
    if format =? 0 then
      match splitN r0 nGlyphs with
      | None => Err
      | Some (buf, r1) =>
        if forallb (fun b => b <? nPrivate) buf then Ok (buf, r1) else Err
      end
    else if format =? 3 then
      match rd_u16 r0 with
      | None => Err
      | Some (nRanges, r1) =>
        if (0 <? nGlyphs) && (nRanges =? 0) then Err else
        x <- fd3_ranges (N.to_nat nRanges) 0 0 nPrivate r1 ;;
        let '(ends0, fdIdx, r2) := x in
        match rd_u16 r2 with
        | None => Err
        | Some (sentinel, r3) =>
          if negb (sentinel =? nGlyphs) then Err else
          let ends := ends0 ++ [nGlyphs mod 65536] in
          tbl <- map_outcome (fd3_lookup nRanges ends fdIdx) (seqN 0 (N.to_nat nGlyphs)) ;;
          Ok (tbl, r3)
        end
      end
    else Err
  end.
