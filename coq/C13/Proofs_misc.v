(* C13/Proofs_misc.v — predefined charsets against the specification's
   tables; totality of the DICT decoder; DICTs of integer operands. *)
From Coq Require Import List NArith ZArith Bool Arith Lia.
From Coq Require Import ZifyBool ZifyNat ZifyN.
From Common Require Import Bytes Outcome.
From Gen Require Import C13.
From C13 Require Import Model Util ModelDict ModelTables Spec Proofs_dict.
Import ListNotations.
Local Open Scope N_scope.

(* the tables of glyph names in cff/charset.go, looked up in the standard
   strings of cff/strings.go, are the SIDs Appendix C of the specification lists *)
Lemma predefined_tables :
  cff_isoAdobeCharset_sids = S_isoadobe_charset /\
  cff_expertCharset_sids = S_expert_charset /\
  cff_expertSubsetCharset_sids = S_expertsubset_charset /\
  cff_nStdString = 391.
Proof. vm_compute. repeat split. Qed.

Lemma predefined_charset_spec id n :
  M_predefined_charset id n =
  let table := if id =? 0 then S_isoadobe_charset
               else if id =? 1 then S_expert_charset else S_expertsubset_charset in
  if lenN table <? n then Err else Ok (takeN table n).
Proof.
  destruct predefined_tables as (A & B & C & _). unfold M_predefined_charset. rewrite A, B, C. reflexivity.
Qed.

(* ---------- the DICT decoder is total ---------- *)

Lemma real_chars_shorter buf : forall acc cs rest,
  M_real_chars buf acc = Ok (cs, rest) -> (length rest < length buf)%nat.
Proof.
  induction buf as [|b r IH]; intros acc cs rest; cbn [M_real_chars]; [discriminate|].
  destruct (nib_step (b / 16)); try discriminate.
  - destruct (nib_step (b mod 16)); try discriminate.
    + intros H. apply IH in H. cbn [length]. lia.
    + intros H; inversion H; subst. cbn [length]. lia.
  - intros H; inversion H; subst. cbn [length]. lia.
Qed.

Lemma real_chars_no_panic buf : forall acc,
  M_real_chars buf acc <> Panic /\ M_real_chars buf acc <> OutOfFuel.
Proof.
  induction buf as [|b r IH]; intros acc; cbn [M_real_chars]; [split; discriminate|].
  destruct (nib_step (b / 16)); try (split; discriminate).
  destruct (nib_step (b mod 16)); try (split; discriminate). apply IH.
Qed.

Lemma dict_token_shorter buf t rest :
  dict_token buf = Ok (t, rest) -> (length rest < length buf)%nat.
Proof.
  unfold dict_token. destruct buf as [|b0 r]; [discriminate|].
  repeat match goal with
         | |- context [if ?c then _ else _] => destruct c
         end;
  repeat match goal with
         | |- context [match ?l with [] => _ | _ :: _ => _ end] => destruct l
         end;
  try discriminate; try (intros H; inversion H; subst; cbn [length]; lia).
  unfold M_real_decode.
  destruct (M_real_chars r []) as [[cs r']| | |] eqn:E; try discriminate.
  destruct (S_real_parse cs); try discriminate. destruct (S_real_overflow d); try discriminate.
  intros H; inversion H; subst. apply real_chars_shorter in E. cbn [length]. lia.
Qed.

Lemma dict_token_no_panic buf : dict_token buf <> Panic /\ dict_token buf <> OutOfFuel.
Proof.
  unfold dict_token. destruct buf as [|b0 r]; [split; discriminate|].
  repeat match goal with
         | |- context [if ?c then _ else _] => destruct c
         end;
  repeat match goal with
         | |- context [match ?l with [] => _ | _ :: _ => _ end] => destruct l
         end;
  try (split; discriminate).
  unfold M_real_decode. destruct (real_chars_no_panic r []) as [A B].
  destruct (M_real_chars r []) as [[cs r']| | |]; try (split; discriminate); try congruence.
  destruct (S_real_parse cs); try (split; discriminate). destruct (S_real_overflow d); split; discriminate.
Qed.

Lemma map_first_no_panic k f : forall l,
  (forall v, f v <> Panic /\ f v <> OutOfFuel) ->
  map_first k f l <> Panic /\ map_first k f l <> OutOfFuel.
Proof.
  induction k as [|k IH]; intros l Hf; cbn [map_first]; [destruct l; split; discriminate|].
  destruct l as [|v r]; [split; discriminate|].
  destruct (Hf v) as [A B]. destruct (f v); cbn [obind]; try (split; discriminate); try congruence.
  destruct (IH r Hf) as [C D]. destruct (map_first k f r); cbn [obind]; try (split; discriminate); congruence.
Qed.

Lemma flush_no_panic nstr op stack res :
  flush nstr op stack res <> Panic /\ flush nstr op stack res <> OutOfFuel.
Proof.
  unfold flush. destruct (op_is_string op); [|split; discriminate].
  assert (Hf : forall v, to_sid nstr v <> Panic /\ to_sid nstr v <> OutOfFuel).
  { intros v. unfold to_sid. destruct v; try (split; discriminate).
    - destruct (sid_ok nstr z); split; discriminate.
    - destruct (decimal_int d); [|split; discriminate].
      destruct ((-2147483648 <=? z)%Z && (z <=? 2147483647)%Z && sid_ok nstr z); split; discriminate. }
  match goal with |- context [map_first ?k _ _] => destruct (map_first_no_panic k (to_sid nstr) stack Hf) as [A B] end.
  destruct (map_first _ (to_sid nstr) stack); cbn [obind]; try (split; discriminate); congruence.
Qed.

Lemma dict_decode_total_fuel fuel : forall nstr buf stack res,
  (length buf < fuel)%nat ->
  M_dict_decode fuel nstr buf stack res <> Panic /\ M_dict_decode fuel nstr buf stack res <> OutOfFuel.
Proof.
  induction fuel as [|f IH]; intros nstr buf stack res Hl; [lia|].
  cbn [M_dict_decode]. destruct buf as [|b r]; [destruct stack; split; discriminate|].
  destruct (dict_token_no_panic (b :: r)) as [A B].
  destruct (dict_token (b :: r)) as [[t rest]| | |] eqn:E; cbn [obind]; try (split; discriminate); try congruence.
  apply dict_token_shorter in E. cbn [fst snd].
  destruct t as [op|v].
  - destruct (flush_no_panic nstr op stack res) as [C D].
    destruct (flush nstr op stack res); cbn [obind]; try (split; discriminate); try congruence.
    apply IH. cbn [length] in *. lia.
  - apply IH. cbn [length] in *. lia.
Qed.

Lemma dict_decode_total nstr buf :
  M_dict_decode_top nstr buf <> Panic /\ M_dict_decode_top nstr buf <> OutOfFuel.
Proof. unfold M_dict_decode_top. apply dict_decode_total_fuel. lia. Qed.

(* ---------- a DICT of integer operands under one operator ---------- *)

(* operands then a one-byte operator that does not take string ids *)
Definition ints_dict (vs : list Z) (op : N) : list N :=
  concat (map M_dict_int_encode vs) ++ [op].

Lemma ints_dict_decode_gen vs : forall fuel nstr op stack res,
  Forall (fun a => (-2147483648 <= a <= 2147483647)%Z) vs ->
  op <= 21 -> op <> 12 -> op_is_string op = false ->
  (length (ints_dict vs op) < fuel)%nat ->
  M_dict_decode fuel nstr (ints_dict vs op) stack res
  = Ok (dict_set op (stack ++ map DInt vs) res).
Proof.
  induction vs as [|a vs IH]; intros fuel nstr op stack res Hv Hop Hop12 Hstr Hf.
  - unfold ints_dict in *. cbn [map concat app length] in *.
    destruct fuel as [|[|f]]; try lia. cbn [M_dict_decode].
    assert (Ht : dict_token [op] = Ok (TOp op, [])).
    { unfold dict_token. destruct (N.eqb_spec op 12); [congruence|].
      destruct (N.leb_spec op 21); [reflexivity|lia]. }
    rewrite Ht. cbn [obind fst snd]. unfold flush. rewrite Hstr. cbn [obind M_dict_decode].
    rewrite app_nil_r. reflexivity.
  - inversion Hv as [|? ? Ha Hvs]; subst.
    unfold ints_dict in *. cbn [map concat] in *. rewrite <- app_assoc in *.
    destruct fuel as [|f]; [lia|]. cbn [M_dict_decode].
    pose proof (dict_int_roundtrip_gen a (concat (map M_dict_int_encode vs) ++ [op]) Ha) as Hr.
    destruct (M_dict_int_encode a ++ concat (map M_dict_int_encode vs) ++ [op]) as [|b r] eqn:Eb.
    { destruct (M_dict_int_encode a) eqn:Ea; [|discriminate].
      pose proof (dict_int_size a Ha) as Hs. rewrite Ea in Hs. cbn [length] in Hs.
      destruct ((-107 <=? a)%Z && (a <=? 107)%Z); [discriminate|].
      destruct ((-1131 <=? a)%Z && (a <=? 1131)%Z); [discriminate|].
      destruct ((-32768 <=? a)%Z && (a <=? 32767)%Z); discriminate. }
    rewrite Hr. cbn [obind fst snd].
    rewrite (IH f nstr op (stack ++ [DInt a]) res); try assumption; try reflexivity.
    + rewrite <- app_assoc. reflexivity.
    + rewrite <- Eb in Hf. rewrite app_length in Hf.
      pose proof (dict_int_size a Ha) as Hs.
      destruct ((-107 <=? a)%Z && (a <=? 107)%Z); [lia|].
      destruct ((-1131 <=? a)%Z && (a <=? 1131)%Z); [lia|].
      destruct ((-32768 <=? a)%Z && (a <=? 32767)%Z); lia.
Qed.

Lemma ints_dict_decode vs op nstr :
  Forall (fun a => (-2147483648 <= a <= 2147483647)%Z) vs ->
  op <= 21 -> op <> 12 -> op_is_string op = false ->
  M_dict_decode_top nstr (ints_dict vs op) = Ok [(op, map DInt vs)].
Proof.
  intros Hv H1 H2 H3. unfold M_dict_decode_top.
  rewrite (ints_dict_decode_gen vs _ nstr op [] []); try assumption; try reflexivity. lia.
Qed.
