(* C13/ModelDict.v — DICT operands: the integer encoder regenerated from
   cff/dict.go by the translator (Gen/C13.v), the mirror of decodeDict /
   decodeFloat, and the mirror of encodeFloat's nibble layout.  Definitions
   only. *)
From Coq Require Import List NArith ZArith Bool Arith Lia.
From Common Require Import Bytes Outcome.
From Gen Require Import C13.
From C13 Require Import Model.
Import ListNotations.
Local Open Scope Z_scope.

(* ---------- integers: writer ---------- *)

(* the bytes cffDict.encode writes for an int32 operand *)
Definition M_dict_int_encode (a : Z) : list N := map Z.to_N (cff_dict_encode_int a).

(* cff.offsSize *)
Definition M_offs_size (i : Z) : N := Z.to_N (cff_offsSize i).

(* ---------- reals: reader (decodeFloat) ---------- *)

(* Text handed to strconv.ParseFloat, as character codes:
   0..9 digits, 10 '.', 11 'e', 14 '-'. *)
Definition ch_dot : N := 10%N.
Definition ch_e : N := 11%N.
Definition ch_minus : N := 14%N.

Inductive nib_result := NChars (cs : list N) | NEnd | NReserved.

Definition nib_step (n : N) : nib_result :=
  if (n <? 10)%N then NChars [n]
  else if (n =? 10)%N then NChars [ch_dot]
  else if (n =? 11)%N then NChars [ch_e]
  else if (n =? 12)%N then NChars [ch_e; ch_minus]
  else if (n =? 13)%N then NReserved
  else if (n =? 14)%N then NChars [ch_minus]
  else NEnd.

(* decodeFloat up to the call of ParseFloat: the text and the remaining
   bytes.  acc holds the text read so far in reverse order. *)
Fixpoint M_real_chars (buf : list N) (acc : list N) : outcome (list N * list N) :=
  match buf with
  | [] => Err
  | b :: r =>
    match nib_step (b / 16)%N with
    | NReserved => Err
    | NEnd => Ok (rev acc, r)
    | NChars c1 =>
      let acc1 := rev c1 ++ acc in
      match nib_step (b mod 16)%N with
      | NReserved => Err
      | NEnd => Ok (rev acc1, r)
      | NChars c2 => M_real_chars r (rev c2 ++ acc1)
      end
    end
  end.

(* ---------- reals: the decimal text (specification side) ---------- *)

(* A parsed decimal: sign, all mantissa digits read as one integer, number of
   digits after the point, explicit exponent.  Value = +-mant * 10^(exp-nfrac). *)
Record decimal := { d_neg : bool; d_mant : Z; d_nfrac : Z; d_exp : Z }.

Definition is_digit (c : N) : bool := (c <? 10)%N.

(* digits* -> (value, count, rest) continuing from (acc, cnt) *)
Fixpoint take_digits (l : list N) (acc cnt : Z) : Z * Z * list N :=
  match l with
  | c :: r => if is_digit c then take_digits r (acc * 10 + Z.of_N c) (cnt + 1) else (acc, cnt, l)
  | [] => (acc, cnt, [])
  end.

(* The grammar strconv.ParseFloat accepts over the alphabet {0-9 . e -}:
     [-] (digits ['.' digits] | '.' digits) [e [-] digits]
   with at least one mantissa digit and at least one exponent digit. *)
(* the optional exponent part: e [-] digits, up to the end of the text *)
Definition S_real_exp (l2 : list N) (m2 n2 : Z) : option (Z * Z * Z) :=
  match l2 with
  | [] => Some (m2, n2, 0)
  | c :: r =>
    if (c =? ch_e)%N then
      let '(eneg, l3) := match r with
                         | c' :: r' => if (c' =? ch_minus)%N then (true, r') else (false, r)
                         | [] => (false, [])
                         end in
      let '(e, ne, l4) := take_digits l3 0 0 in
      if (ne =? 0) then None else
      match l4 with
      | [] => Some (m2, n2, if eneg then - e else e)
      | _ :: _ => None
      end
    else None
  end.

(* mantissa, number of fraction digits, exponent — after the sign *)
Definition S_real_body (l0 : list N) : option (Z * Z * Z) :=
  let '(m1, n1, l1) := take_digits l0 0 0 in
  let '(m2, n2, l2) := match l1 with
                       | c :: r => if (c =? ch_dot)%N then take_digits r m1 0 else (m1, 0, l1)
                       | [] => (m1, 0, [])
                       end in
  if (n1 + n2 =? 0) then None else S_real_exp l2 m2 n2.

Definition S_real_parse (cs : list N) : option decimal :=
  let '(neg, l0) := match cs with
                    | c :: r => if (c =? ch_minus)%N then (true, r) else (false, cs)
                    | [] => (false, [])
                    end in
  match S_real_body l0 with
  | Some (m, n, e) => Some {| d_neg := neg; d_mant := m; d_nfrac := n; d_exp := e |}
  | None => None
  end.

(* number of decimal digits of a non-negative integer (0 for 0) *)
Fixpoint ndigits_fuel (fuel : nat) (z : Z) : Z :=
  match fuel with
  | O => 0
  | S f => if z <=? 0 then 0 else 1 + ndigits_fuel f (z / 10)
  end.
Definition ndigits (z : Z) : Z := ndigits_fuel (S (Z.to_nat (Z.log2 z))) z.

(* ParseFloat reports ErrRange exactly when the value rounds to infinity:
   |value| >= 2^1024 - 2^970 *)
Definition float_overflow_threshold : Z := 2 ^ 1024 - 2 ^ 970.

Definition S_real_overflow (d : decimal) : bool :=
  if d_mant d =? 0 then false else
  let e := d_exp d - d_nfrac d in
  let o := ndigits (d_mant d) + e in
  if 320 <? o then true
  else if o <? 300 then false
  else if 0 <=? e then float_overflow_threshold <=? d_mant d * 10 ^ e
  else float_overflow_threshold * 10 ^ (- e) <=? d_mant d.

(* decodeFloat: error when the nibbles are malformed or ParseFloat fails *)
Definition M_real_decode (buf : list N) : outcome (decimal * list N) :=
  match M_real_chars buf [] with
  | Ok (cs, r) =>
    match S_real_parse cs with
    | Some d => if S_real_overflow d then Err else Ok (d, r)
    | None => Err
    end
  | Err => Err | Panic => Panic | OutOfFuel => OutOfFuel
  end.

(* an integer-valued decimal as an integer (for string operators, which
   accept a float64 operand holding an exact int32); None when not an integer
   or clearly out of the int32 range *)
Definition decimal_int (d : decimal) : option Z :=
  let e := d_exp d - d_nfrac d in
  let sgn := if d_neg d then -1 else 1 in
  if d_mant d =? 0 then Some 0
  else if 0 <=? e then (if 10 <? e then None else Some (sgn * d_mant d * 10 ^ e))
  else if 400 <? - e then None
  else if (d_mant d) mod 10 ^ (- e) =? 0 then Some (sgn * (d_mant d / 10 ^ (- e))) else None.

(* ---------- DICT decoder (decodeDict) ---------- *)

Inductive dictval :=
| DInt (z : Z)
| DReal (d : decimal)
| DStr (sid : Z).

(* operators whose operands are string ids (dictOp.isString) *)
Definition opROS : N := 3102%N. (* 0x0C1E *)
Definition op_is_string (op : N) : bool :=
  existsb (N.eqb op) [0; 1; 3072; 2; 3; 4; 3093; 3094; 3102; 3110]%N.
(* opVersion opNotice opCopyright opFullName opFamilyName opWeight
   opPostScript opBaseFontName opROS opFontName *)

(* ss.get(idx): valid iff 0 <= idx < nStdString + number of custom strings *)
Definition sid_ok (nstr : N) (idx : Z) : bool :=
  (0 <=? idx) && (idx <? Z.of_N (cff_nStdString + nstr)).

Definition to_sid (nstr : N) (v : dictval) : outcome dictval :=
  match v with
  | DInt z => if sid_ok nstr z then Ok (DStr z) else Err
  | DReal d =>
    match decimal_int d with
    | Some z => if (-2147483648 <=? z) && (z <=? 2147483647) && sid_ok nstr z then Ok (DStr z) else Err
    | None => Err
    end
  | DStr _ => Err
  end.

Fixpoint map_first (k : nat) (f : dictval -> outcome dictval) (l : list dictval) : outcome (list dictval) :=
  match k, l with
  | S k', v :: r => v' <- f v ;; r' <- map_first k' f r ;; Ok (v' :: r')
  | _, _ => Ok l
  end.

(* res[op] = stack on a map, kept as an association list sorted by operator *)
Fixpoint dict_set (op : N) (v : list dictval) (res : list (N * list dictval)) : list (N * list dictval) :=
  match res with
  | [] => [(op, v)]
  | (o, w) :: r =>
    if (op <? o)%N then (op, v) :: res
    else if (op =? o)%N then (op, v) :: r
    else (o, w) :: dict_set op v r
  end.

Definition flush (nstr : N) (op : N) (stack : list dictval) (res : list (N * list dictval))
  : outcome (list (N * list dictval)) :=
  if op_is_string op then
    let l := if (op =? opROS)%N then Nat.min (length stack) 2 else length stack in
    st <- map_first l (to_sid nstr) stack ;; Ok (dict_set op st res)
  else Ok (dict_set op stack res).

(* one token of a DICT: an operator or an operand *)
Inductive token := TOp (op : N) | TVal (v : dictval).

Definition zb (b : N) : Z := Z.of_N b.

Definition dict_token (buf : list N) : outcome (token * list N) :=
  match buf with
  | [] => Err
  | b0 :: r =>
    if (b0 =? 12)%N then
      match r with
      | b1 :: r' => Ok (TOp (12 * 256 + b1)%N, r')
      | [] => Err
      end
    else if (b0 <=? 21)%N then Ok (TOp b0, r)
    else if (b0 <=? 27)%N then Err
    else if (b0 =? 28)%N then
      match r with
      | b1 :: b2 :: r' => Ok (TVal (DInt (to_i16 (b1 * 256 + b2)%N)), r')
      | _ => Err
      end
    else if (b0 =? 29)%N then
      match r with
      | b1 :: b2 :: b3 :: b4 :: r' =>
        Ok (TVal (DInt (to_i32 (b1 * 16777216 + b2 * 65536 + b3 * 256 + b4)%N)), r')
      | _ => Err
      end
    else if (b0 =? 30)%N then
      match M_real_decode r with
      | Ok (d, r') => Ok (TVal (DReal d), r')
      | Err => Err | Panic => Panic | OutOfFuel => OutOfFuel
      end
    else if (b0 =? 31)%N then Err
    else if (b0 <=? 246)%N then Ok (TVal (DInt (zb b0 - 139)), r)
    else if (b0 <=? 250)%N then
      match r with
      | b1 :: r' => Ok (TVal (DInt (zb b0 * 256 + zb b1 + (108 - 247 * 256))), r')
      | [] => Err
      end
    else if (b0 <=? 254)%N then
      match r with
      | b1 :: r' => Ok (TVal (DInt (- zb b0 * 256 - zb b1 - (108 - 251 * 256))), r')
      | [] => Err
      end
    else Err
  end.

(* decodeDict; stack holds the operands in order of appearance *)
Fixpoint M_dict_decode (fuel : nat) (nstr : N) (buf : list N) (stack : list dictval)
    (res : list (N * list dictval)) : outcome (list (N * list dictval)) :=
  match fuel with
  | O => OutOfFuel
  | S f =>
    match buf with
    | [] => match stack with [] => Ok res | _ :: _ => Err end
    | _ :: _ =>
      tr <- dict_token buf ;;
      match fst tr with
      | TOp op => res' <- flush nstr op stack res ;; M_dict_decode f nstr (snd tr) [] res'
      | TVal v => M_dict_decode f nstr (snd tr) (stack ++ [v]) res
      end
    end
  end.

Definition M_dict_decode_top (nstr : N) (buf : list N) : outcome (list (N * list dictval)) :=
  M_dict_decode (S (length buf)) nstr buf [] [].

(* ---------- reals: writer layout (encodeFloat after digit extraction) ---------- *)

(* itoaBinary: decimal digits of x, most significant first; empty for x <= 0 *)
Fixpoint itoa_fuel (fuel : nat) (x : Z) (acc : list N) : list N :=
  match fuel with
  | O => acc
  | S f => if x <=? 0 then acc else itoa_fuel f (x / 10) (Z.to_N (x mod 10) :: acc)
  end.
Definition itoa (x : Z) : list N := itoa_fuel (S (Z.to_nat x)) x [].

(* pack nibbles two per byte; a final 0xf (odd count) or 0xff (even count) *)
Fixpoint pack_nibbles (l : list N) : list N :=
  match l with
  | [] => [255%N]
  | [a] => [(a * 16 + 15)%N]
  | a :: b :: r => (a * 16 + b)%N :: pack_nibbles r
  end.

(* The nibble sequence encodeFloat builds from: the sign, the digits of i
   (after the trailing zeros were removed, most significant first) and l, the
   position of the decimal point counted from the start of the digits
   (value = 0.d1d2...dm * 10^l). *)
Definition M_real_nibbles (neg : bool) (digits : list N) (l : Z) : list N :=
  let m := Z.of_nat (length digits) in
  let head := if neg then [14%N] else [] in
  if m + 2 <? l then head ++ digits ++ [11%N] ++ itoa (l - m)
  else if l =? m + 2 then head ++ digits ++ [0%N; 0%N]
  else if l =? m + 1 then head ++ digits ++ [0%N]
  else if l =? m then head ++ digits
  else if 0 <? l then head ++ firstn (Z.to_nat l) digits ++ [10%N] ++ skipn (Z.to_nat l) digits
  else if l =? 0 then head ++ [10%N] ++ digits
  else if l =? -1 then head ++ [10%N; 0%N] ++ digits
  else head ++ digits ++ [12%N] ++ itoa (- l + m).

Definition M_real_layout (neg : bool) (digits : list N) (l : Z) : list N :=
  pack_nibbles (M_real_nibbles neg digits l).

(* value of a digit string *)
Definition digits_value (digits : list N) : Z :=
  fold_left (fun acc d => acc * 10 + Z.of_N d) digits 0.
