From Coq Require Import Extraction ExtrOcamlBasic.
From Common Require Import Conv.
From C13 Require Import Model ModelDict ModelTables ModelLayout.
Extraction "c13_model.ml" conv_anchor lenN dropN
  M_index_encode M_index_header M_index_read_fast
  M_dict_int_encode M_offs_size dict_token M_dict_decode_top M_real_layout
  M_charset_encode M_charset_read M_predefined_charset
  M_encoding_encode M_encoding_read M_fdselect_encode M_fdselect_read
  M_layout hdr_offsize M_width_encode M_width_decode M_width_roundtrip M_width_roundtrip_old M_fm_write M_fm_read.
