(* C13/ModelLayout.v — the offset fixed-point loop of Font.Write
   (cff/write.go, "offs := cumsum(); for { ... }") over abstract sections, and
   the width coding of charstrings.  Definitions only.

   A CFF file is a sequence of sections.  Some have a fixed size (header, Name
   INDEX, charset, CharStrings INDEX, ...); the others are DICTs, or INDEXes of
   DICTs, whose size depends on the section offsets because offsets are stored
   as variable-length DICT integers.  Write encodes all sections with the
   current guess of the offsets, recomputes the offsets from the sizes, and
   repeats until the offsets of all sections are unchanged. *)
From Coq Require Import List NArith ZArith Bool Arith Lia.
From Common Require Import Bytes Outcome.
From Gen Require Import C13.
From C13 Require Import Model ModelDict ModelTables.
Import ListNotations.
Local Open Scope N_scope.

(* an integer operand whose value depends on the layout *)
Inductive operand :=
| OOffs (j : nat)          (* offs[j]: the position of section j (j = number of sections: the total) *)
| ODiff (a b : nat)        (* offs[a] - offs[b]  (Subrs: relative to the Private DICT) *)
| OSize (j : nat).         (* len(blobs[j]) of a Private DICT section encoded in the same round *)

(* a DICT: bytes that do not depend on the layout, plus layout operands *)
Record dictd := { d_base : N; d_ops : list operand }.

Inductive section :=
| SFixed (n : N)             (* present with n bytes from the start *)
| SLate (n : N)              (* empty until the first round, then n bytes (String INDEX) *)
| SDict (d : dictd)          (* a DICT stored as such (Private DICT) *)
| SIndex (ds : list dictd).  (* an INDEX of DICTs (Top DICT INDEX, Font DICT INDEX) *)

(* size of a DICT integer operand: the translated encoder *)
Definition int_size (v : Z) : N := lenN (M_dict_int_encode v).

(* length of cffIndex.encode for blobs of the given sizes (cf. M_index_header) *)
Definition index_len (sizes : list N) : N :=
  if lenN sizes =? 0 then 2
  else 3 + (lenN sizes + 1) * off_size (sumN sizes) + sumN sizes.

Section Layout.
Variable secs : list section.

Definition nth_offs (offs : list Z) (j : nat) : Z := nth j offs 0%Z.

(* operand values from the offsets alone *)
Definition opval0 (offs : list Z) (op : operand) : Z :=
  match op with
  | OOffs j => nth_offs offs j
  | ODiff a b => wrap_i32 (nth_offs offs a - nth_offs offs b)
  | OSize _ => 0%Z
  end.

Definition dsize (osz : operand -> N) (d : dictd) : N :=
  d_base d + sumN (map osz (d_ops d)).

Definition osz0 (offs : list Z) (op : operand) : N := int_size (opval0 offs op).

(* operand values, with pdSize taken from the Private DICT just encoded *)
Definition opval (offs : list Z) (op : operand) : Z :=
  match op with
  | OSize j =>
    match nth j secs (SFixed 0) with
    | SDict d => Z.of_N (dsize (osz0 offs) d)
    | _ => 0%Z
    end
  | _ => opval0 offs op
  end.

Definition osz (offs : list Z) (op : operand) : N := int_size (opval offs op).

Definition sec_size (f : operand -> N) (s : section) : N :=
  match s with
  | SFixed n => n
  | SLate n => n
  | SDict d => dsize f d
  | SIndex ds => index_len (map (dsize f) ds)
  end.

(* the blobs of one round, as sizes *)
Definition round_sizes (offs : list Z) : list N := map (sec_size (osz offs)) secs.

(* blobs before the first round *)
Definition init_sizes : list N :=
  map (fun s => match s with SFixed n => n | _ => 0 end) secs.

(* cumsum(): res[i+1] = res[i] + int32(len(blobs[i])) *)
Fixpoint cumsum_from (acc : Z) (sizes : list N) : list Z :=
  acc :: match sizes with
         | [] => []
         | s :: r => cumsum_from (wrap_i32 (acc + Z.of_N s)) r
         end.
Definition cumsum (sizes : list N) : list Z := cumsum_from 0%Z sizes.

Fixpoint list_eqbZ (a b : list Z) : bool :=
  match a, b with
  | [], [] => true
  | x :: a', y :: b' => (x =? y)%Z && list_eqbZ a' b'
  | _, _ => false
  end.

(* the loop: result = the offsets the sections were encoded with, and the
   sizes of the sections as written *)
Fixpoint M_layout_loop (fuel : nat) (offs : list Z) : outcome (list Z * list N) :=
  match fuel with
  | O => OutOfFuel
  | S f =>
    let sizes := round_sizes offs in
    let newOffs := cumsum sizes in
    let n := length secs in
    if list_eqbZ (firstn n newOffs) (firstn n offs) then Ok (offs, sizes)
    else M_layout_loop f newOffs
  end.

Definition all_ops : list operand :=
  concat (map (fun s => match s with
                        | SDict d => d_ops d
                        | SIndex ds => concat (map d_ops ds)
                        | _ => []
                        end) secs).

(* rounds that always suffice (proved in Proofs_layout.v) *)
Definition layout_fuel : nat := 4 * length all_ops + 2.

Definition M_layout : outcome (list Z * list N) :=
  M_layout_loop layout_fuel (cumsum init_sizes).

(* the header's offSize byte: offsSize(offs[numSections]) *)
Definition hdr_offsize (offs : list Z) : N := M_offs_size (nth_offs offs (length secs)).

End Layout.

(* ---------- width coding (t2encode.go / t2decode.go), 16.16 grid ---------- *)

(* widths are integers counting 1/65536 units *)

(* encodeNumber on a grid value d with |d| < 2^31: an integer is written as
   such, anything else as a 16.16 fixed number; both are read back as d *)
Definition M_encode_number (d : Z) : Z :=
  if ((d mod 65536 =? 0) && (-32768 <=? d / 65536) && (d / 65536 <=? 32767))%Z then d
  else wrap_i32 d.

(* the width operand of a charstring: absent when the width is the default *)
Definition M_width_encode (def nom w : Z) : option Z :=
  if (w =? def)%Z then None else Some (M_encode_number (w - nom)).

Definition M_width_decode (def nom : Z) (o : option Z) : Z :=
  match o with None => def | Some d => (d + nom)%Z end.

(* what the Private DICT stores: int32(x) of a float *)
Definition trunc_grid (x : Z) : Z := (Z.quot x 65536 * 65536)%Z.

(* the code as it was: charstrings use (def, nom), the reader gets the
   truncated values from the Private DICT *)
Definition M_width_roundtrip_old (def nom w : Z) : Z :=
  M_width_decode (trunc_grid def) (trunc_grid nom) (M_width_encode def nom w).

(* the repaired code: both sides use the truncated values *)
Definition M_width_roundtrip (def nom w : Z) : Z :=
  let def' := trunc_grid def in
  let nom' := trunc_grid nom in
  M_width_decode def' nom' (M_width_encode def' nom' w).

(* ---------- the FontMatrix omission rule (setFontMatrix / getFontMatrix) ---------- *)

(* matrix entries in units of 10^-6 *)
Inductive fm_place := FmTopSimple | FmTopCID | FmFontDict.

Definition fm_default (identity : bool) : list Z :=
  if identity then [1000000; 0; 0; 1000000; 0; 0]%Z else [1000; 0; 0; 1000; 0; 0]%Z.

(* the default the writer compares against (third argument of setFontMatrix):
   the identity for the Top DICT of a CID-keyed font, [0.001 0 0 0.001 0 0]
   for the Top DICT of a simple font and for every Font DICT *)
Definition fm_write_identity (p : fm_place) : bool :=
  match p with FmTopCID => true | _ => false end.

(* the default the reader substitutes (second argument of getFontMatrix) *)
Definition fm_read_identity (p : fm_place) : bool :=
  match p with FmTopCID => true | _ => false end.

(* Some fm: the FontMatrix entry is written; None: it is omitted *)
Definition M_fm_write (p : fm_place) (fm : list Z) : option (list Z) :=
  if list_eqbZ fm (fm_default (fm_write_identity p)) then None else Some fm.

Definition M_fm_read (p : fm_place) (o : option (list Z)) : list Z :=
  match o with Some fm => fm | None => fm_default (fm_read_identity p) end.
