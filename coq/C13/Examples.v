(* C13/Examples.v — non-vacuity: concrete values meeting the hypotheses of the
   theorems in Props.v, evaluated by vm_compute. *)
From Coq Require Import List NArith ZArith Bool Arith Lia.
From Common Require Import Bytes Outcome.
From C13 Require Import Model.
Import ListNotations.
Local Open Scope N_scope.

(* INDEX: three entries, one empty *)
Example ex_index_enc :
  M_index_encode [[1;2;3]; []; [255]] = Ok [0;3;1; 1;4;4;5; 1;2;3;255].
Proof. vm_compute. reflexivity. Qed.

Example ex_index_read :
  M_index_read 13 ([0;3;1; 1;4;4;5; 1;2;3;255] ++ [7;7]) = Ok ([[1;2;3]; []; [255]], [7;7]).
Proof. vm_compute. reflexivity. Qed.

(* a body of 255 bytes needs two-byte offsets, 254 bytes need one *)
Example ex_index_offsize :
  off_size 254 = 1 /\ off_size 255 = 2 /\ off_size 65534 = 2 /\ off_size 65535 = 3 /\
  off_size 16777214 = 3 /\ off_size 16777215 = 4 /\ off_size 4294967294 = 4 /\ off_size 4294967295 = 5.
Proof. vm_compute. repeat split. Qed.

(* an offset past the end of the file is rejected, not a panic *)
Example ex_index_read_err :
  M_index_read 7 [0;1;1; 1;200; 9;9] = Err.
Proof. vm_compute. reflexivity. Qed.

(* too many entries: cffIndex.encode panics *)
Example ex_index_enc_panic :
  M_index_header (repeat 0 (N.to_nat 65536)) = Panic.
Proof. vm_compute. reflexivity. Qed.

(* ---------- DICT integers: one value at each side of every size boundary ---------- *)
From Gen Require Import C13.
From C13 Require Import ModelDict ModelTables ModelLayout Proofs_layout.

Example ex_dict_int_forms :
  map M_dict_int_encode [0; 107; 108; -107; -108; 1131; 1132; -1131; -1132; 32767; 32768; -32768; -32769;
                          2147483647; -2147483648]%Z =
  [[139]; [246]; [247; 0]; [32]; [251; 0]; [250; 255]; [28; 4; 108]; [254; 255]; [28; 251; 148];
   [28; 127; 255]; [29; 0; 0; 128; 0]; [28; 128; 0]; [29; 255; 255; 127; 255]; [29; 127; 255; 255; 255];
   [29; 128; 0; 0; 0]].
Proof. vm_compute. reflexivity. Qed.

Example ex_dict_token : dict_token ([28; 251; 148] ++ [12; 255]) = Ok (TVal (DInt (-1132)), [12; 255]).
Proof. vm_compute. reflexivity. Qed.

Example ex_dict_decode :
  M_dict_decode_top 0 [139; 247; 0; 5; 30; 160; 57; 98; 95; 12; 9] =
  Ok [(5, [DInt 0; DInt 108]); (3081, [DReal {| d_neg := false; d_mant := 39625; d_nfrac := 6; d_exp := 0 |}])].
Proof. vm_compute. reflexivity. Qed.

(* reserved operand byte, operands without operator, truncated operand *)
Example ex_dict_decode_err :
  M_dict_decode_top 0 [22] = Err /\ M_dict_decode_top 0 [139] = Err /\ M_dict_decode_top 0 [28; 1] = Err.
Proof. vm_compute. repeat split. Qed.

(* ---------- DICT reals ---------- *)
Example ex_real_layouts :
  (M_real_layout false [3;9;6;2;5] (-1), M_real_layout true [1;2;5] 2, M_real_layout false [1] 10,
   M_real_layout false [5] (-7), M_real_layout false [1;2] 4, M_real_layout false [1;2] 3,
   M_real_layout false [1;2] 2, M_real_layout false [1;2] 0) =
  ([160; 57; 98; 95], [225; 42; 95], [27; 159], [92; 143], [18; 0; 255], [18; 15], [18; 255], [161; 47]).
Proof. vm_compute. reflexivity. Qed.

(* the reserved nibble d, a missing terminator and "1e" are rejected *)
Example ex_real_err :
  M_real_decode [29; 255] = Err /\ M_real_decode [18] = Err /\ M_real_decode [27; 255] = Err.
Proof. vm_compute. repeat split. Qed.

(* 1e309 overflows a float64: ParseFloat reports ErrRange *)
Example ex_real_overflow : M_real_decode [27; 48; 159] = Err /\ is_ok (M_real_decode [27; 48; 143]) = true.
Proof. vm_compute. split; reflexivity. Qed.

(* ---------- charset: each format is chosen by some list ---------- *)
Example ex_charset_formats :
  M_charset_encode [0; 5; 9; 12]%Z = Ok [0; 0; 5; 0; 9; 0; 12] /\
  M_charset_encode [0; 1; 2; 3; 4; 5; 6; 7; 8; 9]%Z = Ok [1; 0; 1; 8] /\
  M_charset_encode (0%Z :: map Z.of_N (seqN 1 600)) = Ok [2; 0; 1; 2; 87].
Proof. vm_compute. repeat split. Qed.

Example ex_charset_read :
  M_charset_read 4 [0; 0;5; 0;9; 0;12; 77] = Ok ([0; 5; 9; 12], [77]) /\
  M_charset_read 10 [1; 0;1; 8; 77] = Ok ([0; 1; 2; 3; 4; 5; 6; 7; 8; 9], [77]).
Proof. vm_compute. split; reflexivity. Qed.

(* identifiers beyond 16 bits, a missing .notdef, a range running past 0xFFFF,
   a range overshooting the number of glyphs *)
Example ex_charset_err :
  M_charset_encode [0; 65536]%Z = Err /\ M_charset_encode [1; 2]%Z = Err /\
  M_charset_read 5 [1; 255;254; 3] = Err /\ M_charset_read 3 [2; 0;1; 0;9] = Err.
Proof. vm_compute. repeat split. Qed.

(* ---------- encoding ---------- *)
Definition ex_enc0 := set_nth (set_nth (set_nth (repeat 0 256) 65 1) 66 2) 97 1.
Definition ex_enc1 := set_nth (set_nth (set_nth (set_nth (repeat 0 256) 65 1) 66 2) 67 3) 68 4.

(* format 0 with one supplement (glyph 1 at codes 65 and 97); format 1 with one range *)
Example ex_encoding_encode :
  M_encoding_encode ex_enc0 [0; 34; 35]%Z = Ok [128; 2; 65; 66; 1; 97; 0; 34] /\
  M_encoding_encode ex_enc1 [0; 34; 35; 36; 37]%Z = Ok [1; 1; 65; 3].
Proof. vm_compute. split; reflexivity. Qed.

Example ex_encoding_read :
  M_encoding_read [128; 2; 65; 66; 1; 97; 0; 34; 9] [0; 34; 35]%Z = Ok (ex_enc0, [9]) /\
  M_encoding_read [1; 1; 65; 3] [0; 34; 35; 36; 37]%Z = Ok (ex_enc1, []).
Proof. vm_compute. split; reflexivity. Qed.

(* glyph 2 encoded, glyph 1 not: the contiguity rule is violated *)
Example ex_encoding_gap : M_encoding_encode (set_nth (repeat 0 256) 65 2) [0; 34; 35]%Z = Err.
Proof. vm_compute. reflexivity. Qed.

(* ---------- FDSelect ---------- *)
Example ex_fdselect :
  M_fdselect_encode [0;0;0;0;0;0;0;0;0;0;1;1;1;1;1;1;1;1;1;1] = [3; 0; 2; 0; 0; 0; 0; 10; 1; 0; 20] /\
  M_fdselect_encode [0;1;0;1] = [0; 0; 1; 0; 1] /\
  M_fdselect_read 20 2 [3; 0; 2; 0; 0; 0; 0; 10; 1; 0; 20; 7] =
    Ok ([0;0;0;0;0;0;0;0;0;0;1;1;1;1;1;1;1;1;1;1], [7]).
Proof. vm_compute. repeat split. Qed.

(* a dictionary index beyond the private dictionaries; a wrong sentinel *)
Example ex_fdselect_err :
  M_fdselect_read 4 1 [0; 0; 1; 0; 1] = Err /\ M_fdselect_read 21 2 [3; 0; 2; 0; 0; 0; 0; 10; 1; 0; 20] = Err.
Proof. vm_compute. split; reflexivity. Qed.

(* ---------- the offset loop ---------- *)
(* header, Name INDEX, Top DICT INDEX (charset, CharStrings, Private size and
   offset), String INDEX, Global Subr INDEX, charset, CharStrings, empty Font
   DICT INDEX, Private DICT (Subrs), Subrs INDEX *)
Definition ex_secs : list section :=
  [SFixed 4; SFixed 9;
   SIndex [{| d_base := 20; d_ops := [OOffs 5; OOffs 6; OSize 8; OOffs 8] |}];
   SLate 30; SFixed 2; SFixed 10; SFixed 200; SFixed 0;
   SDict {| d_base := 12; d_ops := [ODiff 9 8] |}; SFixed 2].

Example ex_layout_wf : Forall (wf ex_secs) (all_ops ex_secs) /\ (Z.of_N (sumN (smax ex_secs)) < 2147483648)%Z.
Proof.
  split; [|vm_compute; reflexivity].
  repeat constructor; cbn; try lia.
  exists {| d_base := 12; d_ops := [ODiff 9 8] |}. split; [reflexivity|]. repeat constructor; cbn; lia.
Qed.

Example ex_layout_result :
  exists offs sizes, M_layout ex_secs = Ok (offs, sizes) /\
    nth_offs offs 5 = 75%Z /\ nth_offs offs 8 = 285%Z /\ nth 2 sizes 0 = 30 /\ nth 8 sizes 0 = 13.
Proof. eexists. eexists. vm_compute. repeat split. Qed.

(* ---------- widths ---------- *)
(* default width 500.5: lost by the old code, kept by the repaired one *)
Example ex_width :
  M_width_roundtrip_old 32800768 0 32800768 = 32768000%Z /\
  M_width_roundtrip 32800768 0 32800768 = 32800768%Z /\
  M_width_encode 0 6553600 (6553600 + 3 * 65536) = Some 196608%Z /\
  M_width_encode 0 6553600 (6553600 + 1) = Some 1%Z.
Proof. vm_compute. repeat split. Qed.

(* ---------- FontMatrix omission ---------- *)
(* an identity matrix in a Font DICT is written (the default there is 0.001),
   in the Top DICT of a CID-keyed font it is omitted; both read back *)
Example ex_fontmatrix :
  M_fm_write FmFontDict [1000000; 0; 0; 1000000; 0; 0]%Z = Some [1000000; 0; 0; 1000000; 0; 0]%Z /\
  M_fm_write FmTopCID [1000000; 0; 0; 1000000; 0; 0]%Z = None /\
  M_fm_write FmFontDict [1000; 0; 0; 1000; 0; 0]%Z = None /\
  M_fm_read FmFontDict None = [1000; 0; 0; 1000; 0; 0]%Z.
Proof. vm_compute. repeat split. Qed.
