(* C13/Examples.v — non-vacuity: concrete values meeting the hypotheses of the
   theorems in Props.v, evaluated by vm_compute. *)
From Coq Require Import List NArith ZArith Bool Arith Lia.
From Common Require Import Bytes Outcome.
From C13 Require Import Model.
Import ListNotations.
Local Open Scope N_scope.

(* INDEX: three entries, one empty *)
Example ex_index_enc :
  M_index_encode [[1;2;3]; []; [255]] = Ok [0;3;1; 1;4;4;5; 1;2;3;255].
Proof. vm_compute. reflexivity. Qed.

Example ex_index_read :
  M_index_read 13 ([0;3;1; 1;4;4;5; 1;2;3;255] ++ [7;7]) = Ok ([[1;2;3]; []; [255]], [7;7]).
Proof. vm_compute. reflexivity. Qed.

(* a body of 255 bytes needs two-byte offsets, 254 bytes need one *)
Example ex_index_offsize :
  off_size 254 = 1 /\ off_size 255 = 2 /\ off_size 65534 = 2 /\ off_size 65535 = 3 /\
  off_size 16777214 = 3 /\ off_size 16777215 = 4 /\ off_size 4294967294 = 4 /\ off_size 4294967295 = 5.
Proof. vm_compute. repeat split. Qed.

(* an offset past the end of the file is rejected, not a panic *)
Example ex_index_read_err :
  M_index_read 7 [0;1;1; 1;200; 9;9] = Err.
Proof. vm_compute. reflexivity. Qed.

(* too many entries: cffIndex.encode panics *)
Example ex_index_enc_panic :
  M_index_header (repeat 0 (N.to_nat 65536)) = Panic.
Proof. vm_compute. reflexivity. Qed.
