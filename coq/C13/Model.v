(* C13/Model.v — executable models of the CFF INDEX codec and the shared
   reading primitives (mirror of cff/index.go).  Definitions only.

   Conventions
   * bytes are [N] (< 256), byte strings [list N];
   * a decoder reads from the *remaining input* (a suffix of the file); the
     absolute file size, which readIndex uses in its offset check, is a
     separate argument [size];
   * sizes and offsets are [N]; [nat] is used only for small loop counters;
   * [Err] = the Go function returns a non-nil error, [Panic] = it would panic. *)
From Coq Require Import List NArith ZArith Bool Arith Lia.
From Common Require Import Bytes Outcome.
Import ListNotations.
Local Open Scope N_scope.

(* ---------- list helpers counted in N ---------- *)

Fixpoint lenN {A} (l : list A) : N :=
  match l with [] => 0 | _ :: r => N.succ (lenN r) end.

Fixpoint takeN {A} (l : list A) (n : N) : list A :=
  match l with
  | [] => []
  | x :: r => if n =? 0 then [] else x :: takeN r (N.pred n)
  end.

Fixpoint dropN {A} (l : list A) (n : N) : list A :=
  match l with
  | [] => []
  | x :: r => if n =? 0 then l else dropN r (N.pred n)
  end.

Fixpoint sumN (l : list N) : N :=
  match l with [] => 0 | x :: r => x + sumN r end.

(* last element, d for the empty list *)
Fixpoint lastN (d : N) (l : list N) : N :=
  match l with [] => d | x :: r => lastN x r end.

(* [splitN l n]: the next n bytes and what follows; None when fewer than n
   bytes are left.  A read of 0 bytes always succeeds (parser.ReadBytes(0),
   parser.Read of an empty buffer and io.ReadFull of an empty buffer do). *)
Fixpoint splitN {A} (l : list A) (n : N) {struct l} : option (list A * list A) :=
  match l with
  | [] => if n =? 0 then Some ([], []) else None
  | x :: r =>
    if n =? 0 then Some ([], l)
    else match splitN r (N.pred n) with
         | Some (a, b) => Some (x :: a, b)
         | None => None
         end
  end.

(* ---------- reading primitives (parser.ReadUint8 / ReadUint16) ---------- *)

Definition rd_u8 (inp : list N) : option (N * list N) :=
  match inp with x :: r => Some (x, r) | [] => None end.

Definition rd_u16 (inp : list N) : option (N * list N) :=
  match inp with a :: b :: r => Some (a * 256 + b, r) | _ => None end.

(* ---------- INDEX: reader (cff/index.go readIndex) ---------- *)

(* offs = offs<<8 | uint32(x) over the offSize bytes of one offset: the value
   modulo 2^32 (offSize is a byte taken from the file and may exceed 4) *)
Definition be_val (blob : list N) : N :=
  fold_left (fun acc x => (acc * 256 + x) mod 4294967296) blob 0.

(* the loop "for i := 0; i <= int(count); i++": k = count+1 offsets; each must
   be >= the previous one (initially 1) and < size; offs-1 is stored *)
Fixpoint read_offsets (size offSize : N) (k : nat) (prev : N) (inp : list N)
  : option (list N * list N) :=
  match k with
  | O => Some ([], inp)
  | S k' =>
    match splitN inp offSize with
    | None => None
    | Some (blob, r) =>
      let offs := be_val blob in
      if (offs <? prev) || (size <=? offs) then None
      else match read_offsets size offSize k' offs r with
           | None => None
           | Some (l, r') => Some ((offs - 1) :: l, r')
           end
    end
  end.

(* buf[a:b] — panics unless a <= b <= len(buf) *)
Definition slice (buf : list N) (blen a b : N) : outcome (list N) :=
  if (a <=? b) && (b <=? blen) then Ok (takeN (dropN buf a) (b - a)) else Panic.

(* res[i] = buf[offsets[i]:offsets[i+1]] for i < count *)
Fixpoint slices (buf : list N) (blen : N) (offs : list N) : outcome (list (list N)) :=
  match offs with
  | a :: tl =>
    match tl with
    | b :: _ => x <- slice buf blen a b ;; r <- slices buf blen tl ;; Ok (x :: r)
    | [] => Ok []
    end
  | [] => Ok []
  end.

(* readIndex.  Result: (blobs, remaining input after the INDEX); the second
   component is the number of bytes allocated by the function's make/append
   calls: 4 per stored offset, offsets[count] for the data buffer, 24 per
   slice header of the result. *)
Definition M_index_read_a (size : N) (inp : list N)
  : outcome (list (list N) * list N) * N :=
  match rd_u16 inp with
  | None => (Err, 0)
  | Some (count, r1) =>
    if count =? 0 then (Ok ([], r1), 0) else
    match rd_u8 r1 with
    | None => (Err, 0)
    | Some (offSize, r2) =>
      match read_offsets size offSize (S (N.to_nat count)) 1 r2 with
      | None => (Err, 4 * (count + 1))
      | Some (offs, r3) =>
        let total := lastN 0 offs in
        let alloc := 4 * (count + 1) + total + 24 * count in
        match splitN r3 total with
        | None => (Err, alloc)
        | Some (buf, r4) => (bl <- slices buf total offs ;; Ok (bl, r4), alloc)
        end
      end
    end
  end.

Definition M_index_read (size : N) (inp : list N) : outcome (list (list N) * list N) :=
  fst (M_index_read_a size inp).

(* The same function with the slices cut sequentially (linear time); proved
   equal to M_index_read in Proofs_index.v and used by the extracted driver. *)
Fixpoint split_seq (rest : list N) (cur : N) (offs : list N) : list (list N) :=
  match offs with
  | [] => []
  | b :: tl =>
    match splitN rest (b - cur) with
    | Some (x, r) => x :: split_seq r b tl
    | None => []
    end
  end.

Definition M_index_read_fast (size : N) (inp : list N) : outcome (list (list N) * list N) :=
  match rd_u16 inp with
  | None => Err
  | Some (count, r1) =>
    if count =? 0 then Ok ([], r1) else
    match rd_u8 r1 with
    | None => Err
    | Some (offSize, r2) =>
      match read_offsets size offSize (S (N.to_nat count)) 1 r2 with
      | None => Err
      | Some (offs, r3) =>
        match splitN r3 (lastN 0 offs) with
        | None => Err
        | Some (buf, r4) =>
          match offs with
          | o0 :: tl => Ok (split_seq (dropN buf o0) o0 tl, r4)
          | [] => Ok ([], r4)
          end
        end
      end
    end
  end.

(* ---------- INDEX: writer (cffIndex.encode) ---------- *)

(* "offSize := 1; for bodyLength+1 >= 1<<(8*offSize) { offSize++ }";
   5 stands for every value above 4 (the function panics then) *)
Definition off_size (body : N) : N :=
  if body + 1 <? 256 then 1
  else if body + 1 <? 65536 then 2
  else if body + 1 <? 16777216 then 3
  else if body + 1 <? 4294967296 then 4
  else 5.

(* k bytes, most significant first: byte(pos >> (8*(k-j-1))), j = 0..k-1 *)
Fixpoint be_n (k : nat) (x : N) : list N :=
  match k with
  | O => []
  | S k' => be_n k' (x / 256) ++ [x mod 256]
  end.

(* offsets for i = 0..count; pos is a uint32 *)
Fixpoint enc_offsets (k : nat) (pos : N) (lens : list N) : list N :=
  be_n k pos ++
  match lens with
  | [] => []
  | l :: r => enc_offsets k ((pos + l) mod 4294967296) r
  end.

(* count, offSize and the offset array, from the blob lengths alone *)
Definition M_index_header (lens : list N) : outcome (list N) :=
  let count := lenN lens in
  if 65536 <=? count then Panic
  else if count =? 0 then Ok [0; 0]
  else
    let os := off_size (sumN lens) in
    if 4 <? os then Panic
    else Ok ([(count / 256) mod 256; count mod 256; os] ++ enc_offsets (N.to_nat os) 1 lens).

Definition M_index_encode (blobs : list (list N)) : outcome (list N) :=
  h <- M_index_header (map lenN blobs) ;;
  Ok (h ++ concat blobs).
