(* C13/Proofs_width.v — the advance width of a glyph is recovered exactly on
   the 16.16 grid when both sides use the same default / nominal width; the
   code as it was (Private DICT values truncated, charstrings not) loses it. *)
From Coq Require Import List NArith ZArith Bool Arith Lia.
From Coq Require Import ZifyBool ZifyNat ZifyN.
From Common Require Import Outcome.
From C13 Require Import Model ModelTables ModelLayout Proofs_layout.
Import ListNotations.
Ltac Zify.zify_post_hook ::= Z.div_mod_to_equations.
Local Open Scope Z_scope.

Lemma encode_number_id d : -2147483648 <= d < 2147483648 -> M_encode_number d = d.
Proof.
  intros H. unfold M_encode_number.
  destruct ((d mod 65536 =? 0) && (-32768 <=? d / 65536) && (d / 65536 <=? 32767)); [reflexivity|].
  unfold wrap_i32. lia.
Qed.

Lemma width_recovered_gen def nom w :
  -2147483648 <= w - nom < 2147483648 ->
  M_width_decode def nom (M_width_encode def nom w) = w.
Proof.
  intros H. unfold M_width_encode. destruct (Z.eqb_spec w def) as [->|Hne]; cbn [M_width_decode].
  - reflexivity.
  - rewrite encode_number_id by exact H. lia.
Qed.

Lemma width_roundtrip_fixed def nom w :
  -2147483648 <= w - trunc_grid nom < 2147483648 ->
  M_width_roundtrip def nom w = w.
Proof. intros H. unfold M_width_roundtrip. apply width_recovered_gen. exact H. Qed.

(* default width 500.5, nominal width 0, a glyph of width 500.5 *)
Lemma width_old_refuted :
  exists def nom w,
    -2147483648 <= w - nom < 2147483648 /\ M_width_roundtrip_old def nom w <> w.
Proof. exists 32800768, 0, 32800768. split; [lia|]. vm_compute. discriminate. Qed.

(* fractional nominal width 407.25: every explicit width is off by 0.25 *)
Lemma width_old_refuted_nominal :
  exists def nom w,
    w <> def /\ -2147483648 <= w - nom < 2147483648 /\ M_width_roundtrip_old def nom w <> w.
Proof. exists 65536000, 26689536, 19677184. split; [lia|]. split; [lia|]. vm_compute. discriminate. Qed.

(* the FontMatrix of the Top DICT and of every Font DICT survives, whether it
   is written or omitted: writer and reader use the same default in each place *)
Lemma fontmatrix_roundtrip_gen p fm : M_fm_read p (M_fm_write p fm) = fm.
Proof.
  unfold M_fm_write, M_fm_read.
  destruct (list_eqbZ fm (fm_default (fm_write_identity p))) eqn:E; [|reflexivity].
  apply list_eqbZ_true in E. rewrite E. destruct p; reflexivity.
Qed.
