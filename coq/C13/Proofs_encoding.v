(* C13/Proofs_encoding.v — encoding: what encodeEncoding writes (format 0 or
   1, with or without supplements) is read back by readEncoding as the same
   vector of 256 glyph ids, under the documented contiguity rule. *)
From Coq Require Import List NArith ZArith Bool Arith Lia.
From Coq Require Import ZifyBool ZifyNat ZifyN.
From Common Require Import Bytes Outcome.
From C13 Require Import Model Util ModelTables Proofs_charset Proofs_fdselect.
Import ListNotations.
Ltac Zify.zify_post_hook ::= Z.div_mod_to_equations.
Local Open Scope N_scope.

Lemma nodup_app {A} (l l' : list A) :
  NoDup (l ++ l') -> NoDup l /\ NoDup l' /\ (forall x, In x l -> In x l' -> False).
Proof.
  induction l as [|a l IH]; cbn [app]; intros H.
  - repeat split; [constructor|exact H|intros x []].
  - inversion H as [|? ? Hn Hd]; subst. destruct (IH Hd) as (A1 & A2 & A3).
    repeat split.
    + constructor; [|exact A1]. intros Hin. apply Hn. apply in_or_app. left. exact Hin.
    + exact A2.
    + intros x [->|Hx] Hx'; [apply Hn; apply in_or_app; right; exact Hx'|eapply A3; eassumption].
Qed.

Lemma nodup_app_intro {A} (l l' : list A) :
  NoDup l -> NoDup l' -> (forall x, In x l -> In x l' -> False) -> NoDup (l ++ l').
Proof.
  induction l as [|a l IH]; cbn [app]; intros H1 H2 H3; [exact H2|].
  inversion H1 as [|? ? Hn Hd]; subst. constructor.
  - intros Hin. apply in_app_or in Hin. destruct Hin as [Hin|Hin]; [tauto|].
    eapply H3; [left; reflexivity|exact Hin].
  - apply IH; [exact Hd|exact H2|]. intros x Hx Hx'. eapply H3; [right; exact Hx|exact Hx'].
Qed.

(* ---------- get_nth / set_nth ---------- *)

Lemma set_nth_length l i v : length (set_nth l i v) = length l.
Proof.
  revert i; induction l as [|x l IH]; intros i; cbn [set_nth length]; [reflexivity|].
  destruct i; cbn [length]; [reflexivity|]. rewrite IH. reflexivity.
Qed.

Lemma nth_set_nth_same l : forall i v, (i < length l)%nat -> nth i (set_nth l i v) 0 = v.
Proof.
  induction l as [|x l IH]; intros i v H; cbn [length] in H; [lia|].
  destruct i; cbn [set_nth nth]; [reflexivity|]. apply IH. lia.
Qed.

Lemma nth_set_nth_other l : forall i j v, i <> j -> nth j (set_nth l i v) 0 = nth j l 0.
Proof.
  induction l as [|x l IH]; intros i j v H; cbn [set_nth]; [reflexivity|].
  destruct i, j; cbn [nth]; try reflexivity; try congruence. apply IH. congruence.
Qed.

Lemma get_set_same l c v : c < lenN l -> get_nth (set_nth l (N.to_nat c) v) c = v.
Proof. intros H. unfold get_nth. apply nth_set_nth_same. rewrite lenN_length in H. lia. Qed.

Lemma get_set_other l c c' v : c <> c' -> get_nth (set_nth l (N.to_nat c) v) c' = get_nth l c'.
Proof. intros H. unfold get_nth. apply nth_set_nth_other. lia. Qed.

Lemma lenN_set_nth l i v : lenN (set_nth l i v) = lenN l.
Proof. rewrite !lenN_length, set_nth_length. reflexivity. Qed.

(* ---------- assignment lists ---------- *)

Fixpoint apply_assigns (A : list (N * N)) (res : list N) : list N :=
  match A with
  | [] => res
  | (c, g) :: r => apply_assigns r (set_nth res (N.to_nat c) g)
  end.

Lemma apply_assigns_app A B res : apply_assigns (A ++ B) res = apply_assigns B (apply_assigns A res).
Proof. revert res; induction A as [|[c g] A IH]; intros res; cbn [app apply_assigns]; [reflexivity|apply IH]. Qed.

Lemma lenN_apply A : forall res, lenN (apply_assigns A res) = lenN res.
Proof.
  induction A as [|[c g] A IH]; intros res; cbn [apply_assigns]; [reflexivity|].
  rewrite IH, lenN_set_nth. reflexivity.
Qed.

Lemma apply_not_in A : forall res c, ~ In c (map fst A) -> get_nth (apply_assigns A res) c = get_nth res c.
Proof.
  induction A as [|[c' g] A IH]; intros res c H; cbn [apply_assigns map fst In] in *; [reflexivity|].
  rewrite IH by tauto. apply get_set_other. intros ->. tauto.
Qed.

Lemma apply_in A : forall res c g,
  NoDup (map fst A) -> In (c, g) A -> c < lenN res -> get_nth (apply_assigns A res) c = g.
Proof.
  induction A as [|[c' g'] A IH]; intros res c g Hnd Hin Hc; cbn [apply_assigns map fst In] in *; [tauto|].
  inversion Hnd as [|? ? Hnotin Hnd']; subst.
  destruct Hin as [E|Hin].
  - inversion E; subst. rewrite apply_not_in by exact Hnotin. apply get_set_same. exact Hc.
  - apply IH; [exact Hnd'|exact Hin|]. rewrite lenN_set_nth. exact Hc.
Qed.

(* consecutive glyph ids attached to a list of codes *)
Fixpoint zipg (cs : list N) (cur : N) : list (N * N) :=
  match cs with [] => [] | c :: r => (c, cur) :: zipg r (cur + 1) end.

Lemma zipg_fst cs cur : map fst (zipg cs cur) = cs.
Proof. revert cur; induction cs as [|c r IH]; intros cur; cbn [zipg map fst]; [reflexivity|]. rewrite IH. reflexivity. Qed.

Lemma zipg_app a b cur : zipg (a ++ b) cur = zipg a cur ++ zipg b (cur + lenN a).
Proof.
  revert cur; induction a as [|x a IH]; intros cur; cbn [app zipg lenN].
  - rewrite N.add_0_r. reflexivity.
  - rewrite IH. do 3 f_equal. lia.
Qed.

(* ---------- the main table readers perform assignment lists ---------- *)

Lemma enc_fmt0_apply cs : forall res cur,
  NoDup cs -> (forall c, In c cs -> get_nth res c = 0 /\ c < lenN res) -> 1 <= cur ->
  enc_fmt0 cs res cur = Ok (apply_assigns (zipg cs cur) res, cur + lenN cs).
Proof.
  induction cs as [|c r IH]; intros res cur Hnd Hz Hcur; cbn [enc_fmt0 zipg apply_assigns lenN].
  - rewrite N.add_0_r. reflexivity.
  - inversion Hnd as [|? ? Hnotin Hnd']; subst.
    destruct (Hz c ltac:(left; reflexivity)) as [Hc0 Hcl]. rewrite Hc0. cbn [N.eqb negb].
    rewrite IH; try assumption; try lia.
    + do 2 f_equal. lia.
    + intros c' Hc'. destruct (Hz c' ltac:(right; exact Hc')) as [A B]. split.
      * rewrite get_set_other; [exact A|]. intros ->. tauto.
      * rewrite lenN_set_nth. exact B.
Qed.

Lemma enc_range_apply k : forall j ncs res cur,
  NoDup (seqN j k) -> (forall c, In c (seqN j k) -> get_nth res c = 0 /\ c < lenN res) ->
  1 <= cur -> cur + N.of_nat k <= ncs ->
  enc_range k j ncs res cur = Ok (apply_assigns (zipg (seqN j k) cur) res, cur + N.of_nat k).
Proof.
  induction k as [|k IH]; intros j ncs res cur Hnd Hz Hcur Hn; cbn [enc_range seqN zipg apply_assigns].
  - rewrite N.add_0_r. reflexivity.
  - cbn [seqN] in Hnd, Hz. inversion Hnd as [|? ? Hnotin Hnd']; subst.
    destruct (N.leb_spec ncs cur); [lia|].
    destruct (Hz j ltac:(left; reflexivity)) as [Hc0 Hcl]. rewrite Hc0. cbn [N.eqb negb].
    rewrite IH; try assumption; try lia.
    + do 2 f_equal. lia.
    + intros c' Hc'. destruct (Hz c' ltac:(right; exact Hc')) as [A B]. split.
      * rewrite get_set_other; [exact A|]. intros ->. tauto.
      * rewrite lenN_set_nth. exact B.
Qed.

(* the assignments a list of format 1 ranges stands for *)
Fixpoint seg_assign (ss : list (N * N)) (g : N) : list (N * N) :=
  match ss with
  | [] => []
  | (c, l) :: r => zipg (seqN c (N.to_nat (l + 1))) g ++ seg_assign r (g + l + 1)
  end.

Fixpoint seg_total (ss : list (N * N)) : N :=
  match ss with [] => 0 | (_, l) :: r => l + 1 + seg_total r end.

Definition seg_bytes1 (ss : list (N * N)) : list N := concat (map (fun s => [fst s; snd s]) ss).

Lemma enc_fmt1_apply ss : forall ncs rest res cur,
  NoDup (map fst (seg_assign ss cur)) ->
  (forall c, In c (map fst (seg_assign ss cur)) -> get_nth res c = 0 /\ c < lenN res) ->
  (forall s, In s ss -> fst s + snd s <= 255) ->
  1 <= cur -> cur + seg_total ss <= ncs ->
  enc_fmt1 (length ss) ncs (seg_bytes1 ss ++ rest) res cur
  = Ok (apply_assigns (seg_assign ss cur) res, cur + seg_total ss, rest).
Proof.
  induction ss as [|[c l] r IH]; intros ncs rest res cur Hnd Hz Hb Hcur Hn.
  - cbn. rewrite N.add_0_r. reflexivity.
  - cbn [length enc_fmt1]. unfold seg_bytes1. cbn [map concat fst snd]. rewrite <- app_assoc.
    cbn [app rd_u8]. fold (seg_bytes1 r).
    pose proof (Hb (c, l) ltac:(left; reflexivity)) as Hcl. cbn [fst snd] in Hcl.
    destruct (N.ltb_spec 255 (c + l)); [lia|].
    cbn [seg_assign seg_total] in *. rewrite map_app, zipg_fst in Hnd, Hz.
    destruct (nodup_app _ _ Hnd) as (Hnd1 & Hnd2 & Hdisj).
    rewrite (enc_range_apply (N.to_nat (l + 1)) c ncs res cur); try assumption; try lia.
    + cbn [obind fst snd]. rewrite apply_assigns_app.
      replace (cur + N.of_nat (N.to_nat (l + 1))) with (cur + l + 1) by lia.
      rewrite (IH ncs rest _ (cur + l + 1)).
      * do 3 f_equal. lia.
      * exact Hnd2.
      * intros c' Hc'. destruct (Hz c' ltac:(apply in_or_app; right; exact Hc')) as [A B]. split.
        -- rewrite apply_not_in; [exact A|]. rewrite zipg_fst. intros Hin.
           eapply Hdisj; eassumption.
        -- rewrite lenN_apply. exact B.
      * intros s Hs. apply Hb. right. exact Hs.
      * lia.
      * lia.
    + intros c' Hc'. apply Hz. apply in_or_app. left. exact Hc'.
Qed.

(* ---------- first positions, extras, maxGid ---------- *)

Lemma get_nth_succ (x : N) l p : get_nth (x :: l) (p + 1) = get_nth l p.
Proof. unfold get_nth. replace (N.to_nat (p + 1)) with (S (N.to_nat p)) by lia. reflexivity. Qed.

Lemma get_nth_zero (x : N) l : get_nth (x :: l) 0 = x.
Proof. reflexivity. Qed.

Lemma first_pos_some g l : forall p,
  first_pos g l = Some p ->
  p < lenN l /\ get_nth l p = g /\ forall q, q < p -> get_nth l q <> g.
Proof.
  induction l as [|x r IH]; intros p; cbn [first_pos]; [discriminate|].
  destruct (N.eqb_spec x g) as [->|Hx].
  - intros H; inversion H; subst. cbn [lenN]. split; [lia|]. split; [reflexivity|]. intros q Hq; lia.
  - destruct (first_pos g r) as [p'|]; [|discriminate].
    intros H; inversion H; subst. destruct (IH p' eq_refl) as (A & B & C).
    cbn [lenN]. repeat split; try lia.
    + rewrite get_nth_succ. exact B.
    + intros q Hq. destruct (N.eq_dec q 0) as [->|Hq0]; [rewrite get_nth_zero; exact Hx|].
      replace q with (q - 1 + 1) by lia. rewrite get_nth_succ. apply C. lia.
Qed.

Lemma first_pos_le g l : forall q,
  q < lenN l -> get_nth l q = g -> exists p, first_pos g l = Some p /\ p <= q.
Proof.
  induction l as [|x r IH]; intros q Hq Hg; cbn [lenN] in Hq; [lia|]. cbn [first_pos].
  destruct (N.eqb_spec x g) as [->|Hx]; [exists 0; split; [reflexivity|lia]|].
  destruct (N.eq_dec q 0) as [->|Hq0]; [rewrite get_nth_zero in Hg; congruence|].
  replace q with (q - 1 + 1) in Hg by lia. rewrite get_nth_succ in Hg.
  destruct (IH (q - 1) ltac:(lia) Hg) as (p & Hp & Hle). rewrite Hp.
  exists (p + 1). split; [reflexivity|lia].
Qed.

Lemma extras_from_in l : forall pos enc c g,
  In (c, g) (extras_from pos l enc) ->
  exists k, k < lenN l /\ get_nth l k = g /\ g <> 0 /\ c = (pos + k) mod 256 /\
            exists p, first_pos g enc = Some p /\ p <> pos + k.
Proof.
  induction l as [|x r IH]; intros pos enc c g; cbn [extras_from]; [intros []|].
  assert (Hrec : In (c, g) (extras_from (pos + 1) r enc) ->
    exists k, k < lenN (x :: r) /\ get_nth (x :: r) k = g /\ g <> 0 /\ c = (pos + k) mod 256 /\
              exists p, first_pos g enc = Some p /\ p <> pos + k).
  { intros H. destruct (IH _ _ _ _ H) as (k & A & B & C & D & p & F & G).
    exists (k + 1). cbn [lenN]. rewrite get_nth_succ.
    split; [lia|]. split; [exact B|]. split; [exact C|]. split.
    - rewrite D. f_equal. lia.
    - exists p. split; [exact F|lia]. }
  destruct (N.eqb_spec x 0) as [Hx0|Hx0]; [exact Hrec|].
  destruct (first_pos x enc) as [p|] eqn:Fp; [|exact Hrec].
  destruct (N.eqb_spec p pos) as [Hp|Hp]; [exact Hrec|].
  intros [H|H]; [|exact (Hrec H)].
  inversion H; subst. exists 0. cbn [lenN]. rewrite get_nth_zero, N.add_0_r.
  repeat split; try lia. exists p. split; [exact Fp|lia].
Qed.

Lemma extras_from_intro l : forall pos enc k g p,
  k < lenN l -> get_nth l k = g -> g <> 0 -> first_pos g enc = Some p -> p <> pos + k ->
  In ((pos + k) mod 256, g) (extras_from pos l enc).
Proof.
  induction l as [|x r IH]; intros pos enc k g p Hk Hg Hg0 Hp Hne; cbn [lenN] in Hk; [lia|].
  cbn [extras_from].
  destruct (N.eq_dec k 0) as [->|Hk0].
  - rewrite get_nth_zero in Hg. subst x. rewrite N.add_0_r in *.
    destruct (N.eqb_spec g 0); [congruence|]. rewrite Hp.
    destruct (N.eqb_spec p pos); [congruence|]. left. reflexivity.
  - replace k with (k - 1 + 1) in Hg by lia. rewrite get_nth_succ in Hg.
    assert (Hin : In ((pos + k) mod 256, g) (extras_from (pos + 1) r enc)).
    { replace (pos + k) with (pos + 1 + (k - 1)) by lia.
      apply (IH (pos + 1) enc (k - 1) g p); try assumption; lia. }
    destruct (x =? 0); [exact Hin|].
    destruct (first_pos x enc) as [p'|]; [|exact Hin].
    destruct (p' =? pos); [exact Hin|right; exact Hin].
Qed.

Lemma extras_from_sorted l : forall pos enc,
  pos + lenN l <= 256 -> sorted_from pos 256 (map fst (extras_from pos l enc)).
Proof.
  induction l as [|x r IH]; intros pos enc H; cbn [extras_from lenN] in *; [exact I|].
  assert (Hrec : sorted_from pos 256 (map fst (extras_from (pos + 1) r enc))).
  { eapply sorted_from_weaken; [apply IH; lia|lia]. }
  destruct (x =? 0); [exact Hrec|].
  destruct (first_pos x enc) as [p'|]; [|exact Hrec].
  destruct (p' =? pos); [exact Hrec|].
  cbn [map fst sorted_from]. replace (pos mod 256) with pos by lia.
  split; [lia|]. apply IH. lia.
Qed.

Lemma fold_max_spec l : forall a,
  a <= fold_left N.max l a /\ (forall x, In x l -> x <= fold_left N.max l a) /\
  (fold_left N.max l a = a \/ In (fold_left N.max l a) l).
Proof.
  induction l as [|x r IH]; intros a; cbn [fold_left In].
  - split; [lia|]. split; [intros x []|left; reflexivity].
  - destruct (IH (N.max a x)) as (A & B & C). split; [|split].
    + lia.
    + intros y [->|Hy]; [lia|apply B; exact Hy].
    + destruct C as [C|C]; [|right; right; exact C].
      rewrite C. destruct (N.max_spec a x) as [[_ ->]|[_ ->]]; [right; left; reflexivity|left; reflexivity].
Qed.

Lemma in_get_nth (l : list N) x : In x l -> exists q, q < lenN l /\ get_nth l q = x.
Proof.
  induction l as [|y r IH]; intros H; [destruct H|]. destruct H as [->|H].
  - exists 0. cbn [lenN]. split; [lia|reflexivity].
  - destruct (IH H) as (q & A & B). exists (q + 1). cbn [lenN]. rewrite get_nth_succ. split; [lia|exact B].
Qed.

Lemma get_nth_in (l : list N) q : q < lenN l -> In (get_nth l q) l.
Proof. intros H. unfold get_nth. apply nth_In. rewrite lenN_length in H. lia. Qed.

(* ---------- the segment loop ---------- *)

Section SegLoop.
Variable enc : list N.
Hypothesis Hlen : lenN enc = 256.

Lemma code_of_lt g c : code_of enc g = Some c -> c < 256.
Proof. unfold code_of. destruct (first_pos g enc); [|discriminate]. intros H; inversion H. lia. Qed.

Lemma code_of_pos g c : code_of enc g = Some c -> first_pos g enc = Some c.
Proof.
  unfold code_of. destruct (first_pos g enc) as [p|] eqn:F; [|discriminate].
  destruct (first_pos_some _ _ _ F) as (A & _). intros H; inversion H. f_equal. lia.
Qed.

Lemma code_of_get g c : code_of enc g = Some c -> get_nth enc c = g.
Proof. intros H. apply code_of_pos in H. destruct (first_pos_some _ _ _ H) as (_ & B & _). exact B. Qed.

Definition MA (a : N) (k : nat) : list (N * N) := map (fun g => (code_or0 enc g, g)) (seqN a k).

Lemma MA_app a k1 k2 : MA a (k1 + k2) = MA a k1 ++ MA (a + N.of_nat k1) k2.
Proof. unfold MA. rewrite seqN_app, map_app. reflexivity. Qed.

(* a linear stretch of codes *)
Lemma zipg_linear k : forall sC sG,
  (forall g, sG <= g < sG + N.of_nat k -> code_of enc g = Some (sC + (g - sG))) ->
  zipg (seqN sC k) sG = MA sG k.
Proof.
  induction k as [|k IH]; intros sC sG H; cbn [seqN zipg]; [reflexivity|].
  unfold MA. cbn [seqN map]. f_equal.
  - unfold code_or0. rewrite (H sG ltac:(lia)). f_equal. lia.
  - apply IH. intros g Hg. rewrite (H g ltac:(lia)). f_equal. lia.
Qed.

Lemma seg_assign_app a : forall b g,
  seg_assign (a ++ b) g = seg_assign a g ++ seg_assign b (g + seg_total a).
Proof.
  induction a as [|[c l] a IH]; intros b g; cbn [app seg_assign seg_total].
  - rewrite N.add_0_r. reflexivity.
  - rewrite IH, <- app_assoc. do 3 f_equal. lia.
Qed.

Lemma seg_total_app a b : seg_total (a ++ b) = seg_total a + seg_total b.
Proof. induction a as [|[c l] a IH]; cbn [app seg_total]; [reflexivity|]. rewrite IH. lia. Qed.

Definition SInv (gid sG sC : N) (ssrev : list (N * N)) : Prop :=
  1 <= sG <= gid /\
  (forall g, sG <= g < gid -> code_of enc g = Some (sC + (g - sG))) /\
  (gid = sG -> sC = code_or0 enc gid) /\
  seg_assign (rev ssrev) 1 = MA 1 (N.to_nat (sG - 1)) /\
  seg_total (rev ssrev) = sG - 1 /\
  (forall s, In s ssrev -> fst s + snd s <= 255).

Lemma seg_loop_spec n : forall gid sG sC ssrev ssrev' sG' sC',
  SInv gid sG sC ssrev ->
  seg_loop n gid sG sC enc ssrev = Ok (ssrev', sG', sC') ->
  SInv (gid + N.of_nat n) sG' sC' ssrev' /\
  (forall g, gid <= g < gid + N.of_nat n -> code_of enc g <> None) /\
  (n <> O -> sG' < gid + N.of_nat n).
Proof.
  induction n as [|n IH]; intros gid sG sC ssrev ssrev' sG' sC' Inv; cbn [seg_loop].
  - intros H; inversion H; subst. cbn [N.of_nat]. rewrite N.add_0_r.
    split; [exact Inv|]. split; [intros g Hg; lia|congruence].
  - destruct (code_of enc gid) as [code|] eqn:Cg; [|discriminate].
    destruct Inv as (I1 & I2 & I3 & I4 & I5 & I6).
    pose proof (code_of_lt _ _ Cg) as Hc256.
    destruct (Z.eqb_spec (Z.of_N (gid - sG)) (Z.of_N code - Z.of_N sC)) as [Heq|Hne].
    + (* the glyph continues the segment *)
      intros H.
      assert (Inv' : SInv (gid + 1) sG sC ssrev).
      { repeat split; try assumption; try lia.
        intros g Hg. destruct (N.eq_dec g gid) as [->|Hn]; [rewrite Cg; f_equal; lia|apply I2; lia]. }
      destruct (IH _ _ _ _ _ _ _ Inv' H) as (A & B & C).
      replace (gid + N.of_nat (S n)) with (gid + 1 + N.of_nat n) by lia.
      split; [exact A|]. split.
      * intros g Hg. destruct (N.eq_dec g gid) as [->|Hn]; [congruence|apply B; lia].
      * intros _. destruct n as [|n']; [|apply C; congruence].
        cbn [seg_loop] in H. inversion H; subst. lia.
    + (* a new segment starts at gid *)
      assert (Hgt : sG < gid).
      { destruct (N.eq_dec gid sG) as [E|E]; [|lia]. exfalso. apply Hne.
        rewrite (I3 E). unfold code_or0. rewrite Cg. subst. lia. }
      pose proof (I2 (gid - 1) ltac:(lia)) as Hprev. pose proof (code_of_lt _ _ Hprev) as Hprev256.
      intros H.
      assert (Inv' : SInv (gid + 1) gid code ((sC, (gid - sG - 1) mod 256) :: ssrev)).
      { replace ((gid - sG - 1) mod 256) with (gid - sG - 1) by lia.
        repeat split; try lia.
        - intros g Hg. replace g with gid by lia. rewrite Cg. f_equal. lia.
        - cbn [rev]. rewrite seg_assign_app, I4, I5. cbn [seg_assign]. rewrite app_nil_r.
          replace (N.to_nat (gid - 1)) with (N.to_nat (sG - 1) + N.to_nat (gid - sG))%nat by lia.
          rewrite MA_app. f_equal.
          replace (1 + N.of_nat (N.to_nat (sG - 1))) with sG by lia.
          replace (1 + (sG - 1)) with sG by lia.
          replace (N.to_nat (gid - sG - 1 + 1)) with (N.to_nat (gid - sG)) by lia.
          apply zipg_linear. intros g Hg. apply I2. lia.
        - cbn [rev]. rewrite seg_total_app, I5. cbn [seg_total]. lia.
        - intros s [<-|Hs]; [cbn [fst snd]; lia|apply I6; exact Hs]. }
      destruct (IH _ _ _ _ _ _ _ Inv' H) as (A & B & C).
      replace (gid + N.of_nat (S n)) with (gid + 1 + N.of_nat n) by lia.
      split; [exact A|]. split.
      * intros g Hg. destruct (N.eq_dec g gid) as [->|Hn]; [congruence|apply B; lia].
      * intros _. destruct n as [|n']; [|apply C; congruence].
        cbn [seg_loop] in H. inversion H; subst. lia.
Qed.

End SegLoop.

(* ---------- supplements ---------- *)

Definition sidN (z : Z) : N := Z.to_N (z mod 65536)%Z.

Lemma sid_lookup_none l : forall sid base found,
  ~ In sid (map sidN l) -> sid_lookup sid base l found = found.
Proof.
  induction l as [|s r IH]; intros sid base found H; cbn [sid_lookup map In] in *; [reflexivity|].
  fold (sidN s). destruct (N.eqb_spec (sidN s) sid) as [E|E]; [tauto|]. apply IH. tauto.
Qed.

Lemma sid_lookup_found l : forall sid base found g z,
  NoDup (map sidN l) -> nth_error l g = Some z -> sidN z = sid -> base + lenN l <= 65536 ->
  sid_lookup sid base l found = base + N.of_nat g.
Proof.
  induction l as [|s r IH]; intros sid base found g z Hnd Hg Hz Hb; [destruct g; discriminate|].
  cbn [map] in Hnd. inversion Hnd as [|? ? Hnotin Hnd']; subst. cbn [sid_lookup lenN] in *.
  fold (sidN s). destruct g as [|g]; cbn [nth_error] in Hg.
  - inversion Hg; subst. rewrite N.eqb_refl. rewrite sid_lookup_none by exact Hnotin.
    cbn [N.of_nat]. lia.
  - destruct (N.eqb_spec (sidN s) (sidN z)) as [E|E].
    + exfalso. apply Hnotin. rewrite E. apply in_map. eapply nth_error_In. exact Hg.
    + rewrite (IH _ (base + 1) found g z Hnd' Hg eq_refl) by lia. lia.
Qed.

Lemma sid_bytes sid : (0 <= sid < 65536)%Z -> zhi8 sid * 256 + zlo8 sid = Z.to_N sid.
Proof. intros H. unfold zhi8, zlo8. lia. Qed.

Lemma enc_sups_apply extra : forall names rest res cur eb,
  enc_extra_bytes extra names = Ok eb ->
  NoDup (map sidN names) -> lenN names <= 65536 ->
  NoDup (map fst extra) ->
  (forall c g, In (c, g) extra ->
     get_nth res c = 0 /\ c < lenN res /\ g <> 0 /\ g < cur /\ g < lenN names) ->
  enc_sups (length extra) names (eb ++ rest) res cur = Ok (apply_assigns extra res, rest).
Proof.
  induction extra as [|[c g] r IH]; intros names rest res cur eb He Hu Hl Hnd Hp.
  - cbn in He. inversion He; subst. reflexivity.
  - cbn [enc_extra_bytes] in He. unfold nth_names in He.
    destruct (nth_error names (N.to_nat g)) as [name|] eqn:Hn; [|discriminate].
    destruct (enc_extra_bytes r names) as [tl| | |] eqn:Et; cbn [obind] in He; try discriminate.
    inversion He; subst eb; clear He.
    destruct (Hp c g ltac:(left; reflexivity)) as (P1 & P2 & P3 & P4 & P5).
    cbn [map fst] in Hnd. inversion Hnd as [|? ? Hnotin Hnd']; subst.
    cbn [length enc_sups]. rewrite <- ?app_assoc. cbn [app rd_u8]. rewrite P1. cbn [N.eqb negb].
    cbn [rd_u16]. rewrite sid_bytes by lia.
    change (Z.to_N (name mod 65536)%Z) with (sidN name).
    rewrite (sid_lookup_found names _ 0 0 (N.to_nat g) name Hu Hn eq_refl) by lia.
    rewrite N2Nat.id, N.add_0_l.
    destruct (N.leb_spec cur g); [lia|]. destruct (N.eqb_spec g 0); [congruence|].
    cbn [apply_assigns]. apply IH; try assumption.
    intros c' g' Hin. destruct (Hp c' g' ltac:(right; exact Hin)) as (Q1 & Q2 & Q3 & Q4 & Q5).
    repeat split; try assumption.
    + rewrite get_set_other; [exact Q1|]. intros ->. apply Hnotin.
      change c' with (fst (c', g')). apply in_map. exact Hin.
    + rewrite lenN_set_nth. exact Q2.
Qed.

(* ---------- auxiliary facts for the final assembly ---------- *)

Lemma sorted_from_ge ss : forall lo hi x, sorted_from lo hi ss -> In x ss -> lo <= x < hi.
Proof.
  induction ss as [|a r IH]; intros lo hi x H Hx; [destruct Hx|].
  cbn [sorted_from] in H. destruct H as [A B]. destruct Hx as [->|Hx]; [lia|].
  specialize (IH _ _ _ B Hx). lia.
Qed.

Lemma sorted_from_nodup ss : forall lo hi, sorted_from lo hi ss -> NoDup ss.
Proof.
  induction ss as [|s r IH]; intros lo hi H; [constructor|].
  cbn [sorted_from] in H. destruct H as [H1 H2]. constructor; [|eapply IH; exact H2].
  intros Hin. pose proof (sorted_from_ge _ _ _ _ H2 Hin). lia.
Qed.

(* a strictly increasing list inside [lo, hi) that misses a point is shorter *)
Lemma sorted_from_len_missing ss : forall lo hi x,
  sorted_from lo hi ss -> lo <= x < hi -> ~ In x ss -> lenN ss + 1 <= hi - lo.
Proof.
  induction ss as [|s r IH]; intros lo hi x H Hx Hn; cbn [lenN sorted_from In] in *; [lia|].
  destruct H as [H1 H2].
  destruct (N.lt_ge_cases x (s + 1)) as [Hlt|Hge].
  - (* x < s: the gap is before s *)
    assert (x < s) by (destruct (N.eq_dec x s); [subst; tauto|lia]).
    pose proof (sorted_from_len _ _ _ H2). lia.
  - specialize (IH (s + 1) hi x H2 ltac:(lia) ltac:(tauto)). lia.
Qed.

Lemma seqN_nodup k : forall first, NoDup (seqN first k).
Proof.
  induction k as [|k IH]; intros first; cbn [seqN]; constructor; [|apply IH].
  intros H. apply in_seqN in H. lia.
Qed.

Lemma seqN_in g first k : first <= g < first + N.of_nat k -> In g (seqN first k).
Proof.
  revert first; induction k as [|k IH]; intros first H; cbn [seqN In]; [lia|].
  destruct (N.eq_dec first g); [left; assumption|right; apply IH; lia].
Qed.

Lemma nodup_map_inj {A B} (f : A -> B) l :
  NoDup l -> (forall x y, In x l -> In y l -> f x = f y -> x = y) -> NoDup (map f l).
Proof.
  induction 1 as [|a l Hn Hd IH]; intros Hinj; cbn [map]; constructor.
  - intros Hin. apply in_map_iff in Hin. destruct Hin as (y & Hy & Hyl).
    assert (y = a) by (apply Hinj; [right; exact Hyl|left; reflexivity|exact Hy]). subst. tauto.
  - apply IH. intros x y Hx Hy. apply Hinj; right; assumption.
Qed.

Lemma list_eq_get (l l' : list N) :
  lenN l = lenN l' -> (forall c, c < lenN l -> get_nth l c = get_nth l' c) -> l = l'.
Proof.
  intros Hl H. rewrite !lenN_length in Hl. apply (nth_ext l l' 0 0); [lia|].
  intros n Hn. specialize (H (N.of_nat n) ltac:(rewrite lenN_length; lia)).
  unfold get_nth in H. rewrite Nat2N.id in H. exact H.
Qed.

Lemma zipg_map (f : N -> N) k : forall a, zipg (map f (seqN a k)) a = map (fun g => (f g, g)) (seqN a k).
Proof.
  induction k as [|k IH]; intros a; cbn [seqN map zipg]; [reflexivity|]. rewrite IH. reflexivity.
Qed.

Section Final.
Variable enc : list N.
Variable names : list Z.
Hypothesis Hlen : lenN enc = 256.
Hypothesis Hgids : forall g, In g enc -> g < lenN names.
Hypothesis Hnames : lenN names <= 65536.
Hypothesis Huniq : NoDup (map sidN names).

Let M := max_gid enc.
Let X := extras enc.
Let res0 := repeat 0 256.
Let MAf := MA enc 1 (N.to_nat M).

Lemma M_ge x : In x enc -> x <= M.
Proof. intros H. destruct (fold_max_spec enc 0) as (_ & B & _). apply B. exact H. Qed.

Lemma M_in : M = 0 \/ In M enc.
Proof. destruct (fold_max_spec enc 0) as (_ & _ & C). exact C. Qed.

Lemma M_lt_names : M < lenN names.
Proof.
  destruct M_in as [E|Hin]; [|apply Hgids; exact Hin].
  rewrite E. destruct enc as [|g r]; [cbn in Hlen; lia|].
  specialize (Hgids g ltac:(left; reflexivity)). lia.
Qed.

Lemma get_res0 c : get_nth res0 c = 0.
Proof. unfold get_nth, res0. apply nth_repeat. Qed.

Lemma lenN_res0 : lenN res0 = 256.
Proof. unfold res0. rewrite lenN_length, repeat_length. reflexivity. Qed.

Lemma X_in c g : In (c, g) X ->
  c < 256 /\ get_nth enc c = g /\ g <> 0 /\ exists p, first_pos g enc = Some p /\ p <> c.
Proof.
  intros H. destruct (extras_from_in _ _ _ _ _ H) as (k & A & B & C & D & p & F & G).
  rewrite N.add_0_l in D, G. rewrite Hlen in A. replace (k mod 256) with k in D by lia. subst c.
  repeat split; try assumption. exists p. split; assumption.
Qed.

Lemma X_intro c g p : c < 256 -> get_nth enc c = g -> g <> 0 -> first_pos g enc = Some p -> p <> c ->
  In (c, g) X.
Proof.
  intros Hc Hg Hg0 Hp Hne.
  pose proof (extras_from_intro enc 0 enc c g p ltac:(lia) Hg Hg0 Hp ltac:(lia)) as H.
  rewrite N.add_0_l in H. replace (c mod 256) with c in H by lia. exact H.
Qed.

Lemma X_sorted : sorted_from 0 256 (map fst X).
Proof. apply extras_from_sorted. lia. Qed.

Lemma X_nodup : NoDup (map fst X).
Proof. eapply sorted_from_nodup. exact X_sorted. Qed.

Lemma X_len : X <> [] -> lenN X <= 255.
Proof.
  intros Hne. destruct X as [|[c g] r] eqn:EX; [congruence|].
  assert (Hin : In (c, g) X) by (rewrite EX; left; reflexivity).
  destruct (X_in _ _ Hin) as (A & B & C & p & F & G).
  destruct (first_pos_some _ _ _ F) as (P1 & P2 & P3).
  assert (Hnot : ~ In p (map fst X)).
  { intros Hp. apply in_map_iff in Hp. destruct Hp as ([c' g'] & E1 & E2). cbn [fst] in E1. subst c'.
    destruct (X_in _ _ E2) as (A' & B' & C' & p' & F' & G').
    rewrite P2 in B'. subst g'. congruence. }
  pose proof (sorted_from_len_missing _ 0 256 p X_sorted ltac:(lia) Hnot) as Hl.
  rewrite lenN_map in Hl. rewrite <- EX. lia.
Qed.

Hypothesis Hcodes : forall g, 1 <= g <= M -> code_of enc g <> None.

Lemma MA_in c g : In (c, g) MAf <-> 1 <= g <= M /\ c = code_or0 enc g.
Proof.
  unfold MAf, MA. rewrite in_map_iff. split.
  - intros (g' & E & Hin). inversion E; subst. apply in_seqN in Hin. split; [lia|reflexivity].
  - intros [Hg ->]. exists g. split; [reflexivity|]. apply seqN_in. lia.
Qed.

Lemma code_or0_get g : 1 <= g <= M -> get_nth enc (code_or0 enc g) = g /\ code_or0 enc g < 256 /\
  first_pos g enc = Some (code_or0 enc g).
Proof.
  intros Hg. unfold code_or0. destruct (code_of enc g) as [c|] eqn:E; [|exfalso; eapply Hcodes; eassumption].
  repeat split; [eapply (code_of_get enc Hlen); exact E|eapply (code_of_lt enc Hlen); exact E|eapply (code_of_pos enc Hlen); exact E].
Qed.

Lemma MA_nodup : NoDup (map fst MAf).
Proof.
  unfold MAf, MA. rewrite map_map. cbn [fst].
  apply nodup_map_inj; [apply seqN_nodup|].
  intros x y Hx Hy Hxy. apply in_seqN in Hx. apply in_seqN in Hy.
  destruct (code_or0_get x ltac:(lia)) as (A & _). destruct (code_or0_get y ltac:(lia)) as (B & _).
  rewrite Hxy in A. congruence.
Qed.

Lemma MA_codes_lt c : In c (map fst MAf) -> c < 256 /\ get_nth enc c <> 0 /\ first_pos (get_nth enc c) enc = Some c.
Proof.
  intros H. apply in_map_iff in H. destruct H as ([c' g] & E & Hin). cbn [fst] in E. subst c'.
  apply MA_in in Hin. destruct Hin as [Hg ->].
  destruct (code_or0_get g Hg) as (A & B & C). rewrite A. repeat split; [exact B|lia|exact C].
Qed.

Lemma final_pointwise c : c < 256 ->
  get_nth (apply_assigns X (apply_assigns MAf res0)) c = get_nth enc c.
Proof.
  intros Hc. set (g := get_nth enc c).
  destruct (N.eq_dec g 0) as [Hg0|Hg0].
  - (* unused code *)
    rewrite apply_not_in.
    + rewrite apply_not_in; [rewrite get_res0; symmetry; exact Hg0|].
      intros Hin. destruct (MA_codes_lt _ Hin) as (_ & A & _). fold g in A. congruence.
    + intros Hin. apply in_map_iff in Hin. destruct Hin as ([c' g'] & E1 & E2). cbn [fst] in E1. subst c'.
      destruct (X_in _ _ E2) as (_ & B & C & _). fold g in B. congruence.
  - assert (Hgin : In g enc) by (apply get_nth_in; lia).
    pose proof (M_ge _ Hgin) as HgM.
    destruct (first_pos_le g enc c ltac:(lia) eq_refl) as (p & Hp & Hpc).
    destruct (N.eq_dec p c) as [->|Hpne].
    + (* c is the first code of g: set by the main table *)
      rewrite apply_not_in.
      * apply apply_in; [exact MA_nodup| |rewrite lenN_res0; exact Hc].
        apply MA_in. split; [lia|].
        destruct (code_or0_get g ltac:(lia)) as (_ & _ & F). congruence.
      * intros Hin. apply in_map_iff in Hin. destruct Hin as ([c' g'] & E1 & E2). cbn [fst] in E1. subst c'.
        destruct (X_in _ _ E2) as (_ & B & _ & p' & F' & G'). fold g in B. subst g'. congruence.
    + (* a further code of g: set by a supplement *)
      apply apply_in; [exact X_nodup| |rewrite lenN_apply, lenN_res0; exact Hc].
      apply (X_intro c g p); try assumption. reflexivity.
Qed.

Lemma final_result : apply_assigns X (apply_assigns MAf res0) = enc.
Proof.
  apply list_eq_get.
  - rewrite !lenN_apply, lenN_res0, Hlen. reflexivity.
  - intros c Hc. rewrite !lenN_apply, lenN_res0 in Hc. apply final_pointwise. exact Hc.
Qed.

(* preconditions of the supplement reader *)
Lemma X_pre c g : In (c, g) X ->
  get_nth (apply_assigns MAf res0) c = 0 /\ c < lenN (apply_assigns MAf res0) /\
  g <> 0 /\ g < 1 + M /\ g < lenN names.
Proof.
  intros Hin. destruct (X_in _ _ Hin) as (A & B & C & p & F & G).
  assert (Hgin : In g enc) by (rewrite <- B; apply get_nth_in; lia).
  repeat split.
  - rewrite apply_not_in; [apply get_res0|].
    intros Hm. destruct (MA_codes_lt _ Hm) as (_ & _ & F'). rewrite B in F'. congruence.
  - rewrite lenN_apply, lenN_res0. exact A.
  - exact C.
  - pose proof (M_ge _ Hgin). lia.
  - apply Hgids. exact Hgin.
Qed.

End Final.

(* ---------- the reader, stage by stage ---------- *)

Definition read_main (format : N) (r0 : list N) (charset : list Z) : outcome (list N * N * list N) :=
  let res0 := repeat 0 256 in
  let ncs := lenN charset in
  if format mod 128 =? 0 then
    match rd_u8 r0 with
    | None => Err
    | Some (nCodes, r1) =>
      if ncs <=? nCodes then Err else
      match splitN r1 nCodes with
      | None => Err
      | Some (codes, r2) => x <- enc_fmt0 codes res0 1 ;; Ok (fst x, snd x, r2)
      end
    end
  else if format mod 128 =? 1 then
    match rd_u8 r0 with
    | None => Err
    | Some (nRanges, r1) => enc_fmt1 (N.to_nat nRanges) ncs r1 res0 1
    end
  else Err.

Lemma M_encoding_read_unfold inp charset :
  M_encoding_read inp charset =
  match rd_u8 inp with
  | None => Err
  | Some (format, r0) =>
    main <- read_main format r0 charset ;;
    let '(res, cur, r3) := main in
    if 128 <=? format then
      match rd_u8 r3 with
      | None => Err
      | Some (nSups, r4) => enc_sups (N.to_nat nSups) charset r4 res cur
      end
    else Ok (res, r3)
  end.
Proof. reflexivity. Qed.

Section Main.
Variable enc : list N.
Variable names : list Z.
Hypothesis Hlen : lenN enc = 256.
Hypothesis Hgids : forall g, In g enc -> g < lenN names.
Hypothesis Hnames : lenN names <= 65536.
Let M := max_gid enc.
Let res0 := repeat 0 256.
Let MAf := MA enc 1 (N.to_nat M).
Hypothesis Hcodes : forall g, 1 <= g <= M -> code_of enc g <> None.

Lemma MA_zero c : In c (map fst MAf) -> get_nth res0 c = 0 /\ c < lenN res0.
Proof.
  intros H. destruct (MA_codes_lt enc names Hlen Hgids Hnames Hcodes c H) as (A & _).
  split; [apply get_res0|unfold res0; rewrite lenN_res0; exact A].
Qed.

Lemma main_fmt0 flag rest :
  (flag = 0 \/ flag = 128) -> M <= 255 ->
  read_main flag ([M mod 256] ++ map (code_or0 enc) (seqN 1 (N.to_nat M)) ++ rest) names
  = Ok (apply_assigns MAf res0, 1 + M, rest).
Proof.
  intros Hf HM. unfold read_main.
  assert (Hf0 : flag mod 128 =? 0 = true) by (destruct Hf; subst; reflexivity).
  rewrite Hf0. cbn [app rd_u8]. replace (M mod 256) with M by lia.
  pose proof (M_lt_names enc names Hlen Hgids Hnames) as HMn. fold M in HMn.
  destruct (N.leb_spec (lenN names) M); [lia|].
  assert (Hl : lenN (map (code_or0 enc) (seqN 1 (N.to_nat M))) = M).
  { rewrite lenN_map, lenN_seqN. lia. }
  rewrite <- Hl at 2. rewrite splitN_app.
  rewrite enc_fmt0_apply.
  - cbn [obind fst snd]. rewrite zipg_map. fold (MA enc 1 (N.to_nat M)). fold MAf.
    rewrite Hl. reflexivity.
  - pose proof (MA_nodup enc names Hlen Hgids Hnames Hcodes) as Hnd. fold M in Hnd.
    unfold MA in Hnd. rewrite map_map in Hnd. cbn [fst] in Hnd. exact Hnd.
  - intros c Hc. apply MA_zero. unfold MAf, MA. rewrite map_map. cbn [fst]. exact Hc.
  - lia.
Qed.

Lemma main_fmt1 flag ss rest :
  (flag = 0 \/ flag = 128) -> lenN ss <= 255 ->
  seg_assign ss 1 = MAf -> seg_total ss = M ->
  (forall s, In s ss -> fst s + snd s <= 255) ->
  read_main (1 + flag) ([lenN ss mod 256] ++ seg_bytes1 ss ++ rest) names
  = Ok (apply_assigns MAf res0, 1 + M, rest).
Proof.
  intros Hf Hss Hsa Hst Hb. unfold read_main.
  assert (Hf0 : (1 + flag) mod 128 =? 0 = false) by (destruct Hf; subst; reflexivity).
  assert (Hf1 : (1 + flag) mod 128 =? 1 = true) by (destruct Hf; subst; reflexivity).
  rewrite Hf0, Hf1. cbn [app rd_u8]. replace (lenN ss mod 256) with (lenN ss) by lia.
  replace (N.to_nat (lenN ss)) with (length ss) by (rewrite lenN_length; lia).
  pose proof (M_lt_names enc names Hlen Hgids Hnames) as HMn. fold M in HMn.
  rewrite enc_fmt1_apply.
  - rewrite Hsa, Hst. reflexivity.
  - rewrite Hsa. exact (MA_nodup enc names Hlen Hgids Hnames Hcodes).
  - rewrite Hsa. intros c Hc. apply MA_zero. exact Hc.
  - exact Hb.
  - lia.
  - rewrite Hst. lia.
Qed.

End Main.

Lemma encoding_roundtrip_gen enc names bs tail :
  lenN enc = 256 -> (forall g, In g enc -> g < lenN names) ->
  lenN names <= 65536 -> NoDup (map sidN names) ->
  M_encoding_encode enc names = Ok bs ->
  M_encoding_read (bs ++ tail) names = Ok (enc, tail).
Proof.
  intros Hlen Hgids Hnames Huniq. unfold M_encoding_encode.
  set (M := max_gid enc). set (X := extras enc).
  destruct (seg_loop (N.to_nat M) 1 1 (code_or0 enc 1) enc []) as [[[ssrev sG] sC]| | |] eqn:SL;
    cbn [obind]; try discriminate.
  assert (Inv0 : SInv enc 1 1 (code_or0 enc 1) []).
  { unfold SInv. cbn [rev seg_assign seg_total].
    split; [lia|]. split; [intros g Hg; lia|]. split; [intros _; reflexivity|].
    split; [reflexivity|]. split; [reflexivity|]. intros s []. }
  destruct (seg_loop_spec enc Hlen _ _ _ _ _ _ _ _ Inv0 SL) as (Inv & Hc & Hlt).
  replace (1 + N.of_nat (N.to_nat M)) with (1 + M) in * by lia.
  assert (Hcodes : forall g, 1 <= g <= M -> code_of enc g <> None) by (intros g Hg; apply Hc; lia).
  destruct Inv as (I1 & I2 & I3 & I4 & I5 & I6).
  set (lastLeft := ((M + 65536 - sG) mod 65536) mod 256).
  set (ss := rev ((sC, lastLeft) :: ssrev)).
  destruct (N.ltb_spec 255 (lenN ss)) as [|Hss]; [discriminate|].
  set (flag := if lenN X =? 0 then 0 else 128).
  assert (Hflag : flag = 0 \/ flag = 128) by (unfold flag; destruct (lenN X =? 0); tauto).
  (* what the main table stands for *)
  assert (Hmain : forall rest,
    read_main
      (if (2 + M <=? 2 + 2 * lenN ss) && (M <=? 255) then flag else 1 + flag)
      (tl ((if (2 + M <=? 2 + 2 * lenN ss) && (M <=? 255)
            then [flag; M mod 256] ++ map (code_or0 enc) (seqN 1 (N.to_nat M))
            else [1 + flag; lenN ss mod 256] ++ concat (map (fun s => [fst s; snd s]) ss)) ++ rest))
      names
    = Ok (apply_assigns (MA enc 1 (N.to_nat M)) (repeat 0 256), 1 + M, rest)).
  { intros rest. destruct ((2 + M <=? 2 + 2 * lenN ss) && (M <=? 255)) eqn:Fmt.
    - apply andb_prop in Fmt. destruct Fmt as [_ F2]. apply N.leb_le in F2.
      cbn [app tl]. apply (main_fmt0 enc names Hlen Hgids Hnames Hcodes flag rest Hflag F2).
    - cbn [app tl]. fold (seg_bytes1 ss).
      assert (HM1 : 1 <= M).
      { apply andb_false_iff in Fmt. destruct Fmt as [F|F]; apply N.leb_gt in F; lia. }
      specialize (Hlt ltac:(lia)).
      pose proof (I2 M ltac:(lia)) as HcM.
      pose proof (code_of_lt enc Hlen _ _ HcM) as HcM256.
      assert (HlastLeft : lastLeft = M - sG) by (unfold lastLeft; lia).
      apply (main_fmt1 enc names Hlen Hgids Hnames Hcodes flag ss rest Hflag Hss).
      + unfold ss. cbn [rev]. rewrite (seg_assign_app enc Hlen), I4, I5. cbn [seg_assign]. rewrite app_nil_r.
        fold M.
        replace (N.to_nat M) with (N.to_nat (sG - 1) + N.to_nat (M - sG + 1))%nat by lia.
        rewrite MA_app. f_equal.
        replace (1 + N.of_nat (N.to_nat (sG - 1))) with sG by lia.
        replace (1 + (sG - 1)) with sG by lia.
        rewrite HlastLeft. apply (zipg_linear enc Hlen). intros g Hg. apply I2. lia.
      + unfold ss. cbn [rev]. rewrite (seg_total_app enc Hlen), I5. cbn [seg_total]. lia.
      + intros s Hs. unfold ss in Hs. cbn [rev] in Hs. apply in_app_or in Hs.
        destruct Hs as [Hs|[<-|[]]]; [apply I6; apply in_rev; exact Hs|]. cbn [fst snd]. lia. }
  set (fmt := (2 + M <=? 2 + 2 * lenN ss) && (M <=? 255)) in *.
  set (mainb := if fmt then [flag; M mod 256] ++ map (code_or0 enc) (seqN 1 (N.to_nat M))
                else [1 + flag; lenN ss mod 256] ++ concat (map (fun s => [fst s; snd s]) ss)) in *.
  assert (Hhd : forall rest, rd_u8 (mainb ++ rest) =
                  Some (if fmt then flag else 1 + flag, tl (mainb ++ rest))).
  { intros rest. unfold mainb. destruct fmt; reflexivity. }
  pose proof (final_result enc names Hlen Hgids Hnames Hcodes) as Hfinal.
  destruct (N.eqb_spec (lenN X) 0) as [HX0|HX0].
  - (* no supplement *)
    intros Hb; inversion Hb; subst bs; clear Hb.
    rewrite M_encoding_read_unfold, Hhd, Hmain. cbn [obind].
    assert (Hf128 : 128 <=? (if fmt then flag else 1 + flag) = false).
    { unfold flag. try rewrite (proj2 (N.eqb_eq _ _) HX0). destruct fmt; reflexivity. }
    rewrite Hf128. apply lenN_zero in HX0. fold X in Hfinal. rewrite HX0 in Hfinal.
    cbn [apply_assigns] in Hfinal. fold M in Hfinal. rewrite Hfinal. reflexivity.
  - destruct (enc_extra_bytes X names) as [eb| | |] eqn:Eb; cbn [obind]; try discriminate.
    intros Hb; inversion Hb; subst bs; clear Hb.
    rewrite <- app_assoc.
    rewrite M_encoding_read_unfold, Hhd, Hmain. cbn [obind].
    assert (Hf128 : 128 <=? (if fmt then flag else 1 + flag) = true).
    { unfold flag. try rewrite (proj2 (N.eqb_neq _ _) HX0). destruct fmt; reflexivity. }
    rewrite Hf128. cbn [app rd_u8].
    assert (HXne : X <> []) by (intros E; rewrite E in HX0; cbn in HX0; lia).
    pose proof (X_len enc names Hlen Hgids Hnames HXne) as HXl. fold X in HXl.
    replace (lenN X mod 256) with (lenN X) by lia.
    replace (N.to_nat (lenN X)) with (length X) by (rewrite lenN_length; lia).
    rewrite (enc_sups_apply X names tail _ (1 + M) eb Eb Huniq Hnames).
    + fold X in Hfinal. fold M in Hfinal. rewrite Hfinal. reflexivity.
    + exact (X_nodup enc names Hlen Hgids Hnames).
    + intros c g Hin. exact (X_pre enc names Hlen Hgids Hnames Hcodes c g Hin).
Qed.

(* ---------- totality of the reader ---------- *)

Definition okl {A} (n : nat) (o : outcome (list N * A)) : Prop :=
  match o with Ok (r, _) => length r = n | Err => True | Panic | OutOfFuel => False end.

Lemma enc_fmt0_total cs : forall res cur, okl (length res) (enc_fmt0 cs res cur).
Proof.
  induction cs as [|c r IH]; intros res cur; cbn [enc_fmt0]; [reflexivity|].
  destruct (negb (get_nth res c =? 0)); [exact I|].
  specialize (IH (set_nth res (N.to_nat c) cur) (cur + 1)). rewrite set_nth_length in IH. exact IH.
Qed.

Lemma enc_range_total k : forall j ncs res cur, okl (length res) (enc_range k j ncs res cur).
Proof.
  induction k as [|k IH]; intros j ncs res cur; cbn [enc_range]; [reflexivity|].
  destruct (ncs <=? cur); [exact I|]. destruct (negb (get_nth res j =? 0)); [exact I|].
  specialize (IH (j + 1) ncs (set_nth res (N.to_nat j) cur) (cur + 1)). rewrite set_nth_length in IH. exact IH.
Qed.

Lemma enc_fmt1_total n : forall ncs inp res cur,
  match enc_fmt1 n ncs inp res cur with
  | Ok (r, _, _) => length r = length res | Err => True | Panic | OutOfFuel => False end.
Proof.
  induction n as [|n IH]; intros ncs inp res cur; cbn [enc_fmt1]; [reflexivity|].
  destruct (rd_u8 inp) as [[first r1]|]; [|exact I].
  destruct (rd_u8 r1) as [[nLeft r2]|]; [|exact I].
  destruct (255 <? first + nLeft); [exact I|].
  pose proof (enc_range_total (N.to_nat (nLeft + 1)) first ncs res cur) as T.
  destruct (enc_range (N.to_nat (nLeft + 1)) first ncs res cur) as [[r c]| | |]; cbn [obind okl] in *; try tauto.
  cbn [fst snd]. specialize (IH ncs r2 r c).
  destruct (enc_fmt1 n ncs r2 r c) as [[[r' c'] r3]| | |]; try tauto. lia.
Qed.

Lemma enc_sups_total n : forall cs inp res cur, okl (length res) (enc_sups n cs inp res cur).
Proof.
  induction n as [|n IH]; intros cs inp res cur; cbn [enc_sups]; [reflexivity|].
  destruct (rd_u8 inp) as [[code r1]|]; [|exact I].
  destruct (negb (get_nth res code =? 0)); [exact I|].
  destruct (rd_u16 r1) as [[sid r2]|]; [|exact I].
  destruct (cur <=? sid_lookup sid 0 cs 0); [exact I|].
  destruct (sid_lookup sid 0 cs 0 =? 0); [apply IH|].
  specialize (IH cs r2 (set_nth res (N.to_nat code) (sid_lookup sid 0 cs 0)) cur).
  rewrite set_nth_length in IH. exact IH.
Qed.

Lemma encoding_read_total_gen inp cs : okl 256 (M_encoding_read inp cs).
Proof.
  rewrite M_encoding_read_unfold.
  destruct (rd_u8 inp) as [[format r0]|]; [|exact I].
  assert (Hm : match read_main format r0 cs with
               | Ok (r, _, _) => length r = 256%nat | Err => True | Panic | OutOfFuel => False end).
  { unfold read_main. destruct (format mod 128 =? 0).
    - destruct (rd_u8 r0) as [[nCodes r1]|]; [|exact I].
      destruct (lenN cs <=? nCodes); [exact I|].
      destruct (splitN r1 nCodes) as [[codes r2]|]; [|exact I].
      pose proof (enc_fmt0_total codes (repeat 0 256) 1) as T.
      destruct (enc_fmt0 codes (repeat 0 256) 1) as [[r c]| | |]; cbn [obind okl fst snd] in *; try tauto;
        try (rewrite repeat_length in T; exact T).
    - destruct (format mod 128 =? 1); [|exact I].
      destruct (rd_u8 r0) as [[nRanges r1]|]; [|exact I].
      pose proof (enc_fmt1_total (N.to_nat nRanges) (lenN cs) r1 (repeat 0 256) 1) as T.
      destruct (enc_fmt1 (N.to_nat nRanges) (lenN cs) r1 (repeat 0 256) 1) as [[[r c] r3]| | |]; try tauto;
        try (rewrite repeat_length in T; exact T). }
  destruct (read_main format r0 cs) as [[[res cur] r3]| | |]; cbn [obind]; try tauto.
  destruct (128 <=? format); [|exact Hm].
  destruct (rd_u8 r3) as [[nSups r4]|]; [|exact I].
  rewrite <- Hm. apply enc_sups_total.
Qed.
