(* C13/Proofs_layout.v — the offset loop of Font.Write terminates within
   4*(number of layout operands)+2 rounds, without 32-bit overflow, and at exit
   every offset the sections were encoded with is the position of its section. *)
From Coq Require Import List NArith ZArith Bool Arith Lia.
From Coq Require Import ZifyBool ZifyNat ZifyN.
From Common Require Import Bytes Outcome.
From Gen Require Import C13.
From C13 Require Import Model Util ModelDict ModelTables ModelLayout Proofs_index Proofs_dict Proofs_charset.
Import ListNotations.
Ltac Zify.zify_post_hook ::= Z.div_mod_to_equations.
Local Open Scope N_scope.

(* ================= A. a monotone iteration with a bounded potential ================= *)

Section Iter.
Variable S : Type.
Variable D : S -> Prop.
Variable le : S -> S -> Prop.
Variable G : S -> S.
Variable phi : S -> N.
Variable B : N.
Hypothesis D_G : forall s, D s -> D (G s).
Hypothesis G_mono : forall s s', D s -> D s' -> le s s' -> le (G s) (G s').
Hypothesis phi_mono : forall s s', D s -> D s' -> le s s' -> phi s <= phi s'.
Hypothesis phi_bound : forall s, D s -> phi s <= B.
Hypothesis phi_eq : forall s s', D s -> D s' -> le s s' -> phi s = phi s' -> G s = G s'.

Fixpoint iter (r : nat) (s : S) : S :=
  match r with O => s | Datatypes.S r' => iter r' (G s) end.

Lemma iter_D r : forall s, D s -> D (iter r s).
Proof. induction r as [|r IH]; intros s H; cbn [iter]; [exact H|]. apply IH. apply D_G. exact H. Qed.

Lemma iter_fix d : forall s,
  D s -> le s (G s) -> B - phi s <= N.of_nat d ->
  exists r, (1 <= r <= d + 1)%nat /\ G (iter r s) = iter r s.
Proof.
  induction d as [|d IH]; intros s Hs Hle Hgap.
  - exists 1%nat. split; [lia|]. cbn [iter]. symmetry. apply phi_eq; try assumption; [apply D_G; exact Hs|].
    pose proof (phi_mono _ _ Hs (D_G _ Hs) Hle). pose proof (phi_bound _ (D_G _ Hs)).
    pose proof (phi_bound _ Hs). lia.
  - destruct (N.eq_dec (phi (G s)) (phi s)) as [E|E].
    + exists 1%nat. split; [lia|]. cbn [iter]. symmetry. apply phi_eq; try assumption; [apply D_G; exact Hs|].
      symmetry. exact E.
    + pose proof (phi_mono _ _ Hs (D_G _ Hs) Hle) as Hm.
      pose proof (phi_bound _ (D_G _ Hs)) as Hb.
      destruct (IH (G s) (D_G _ Hs)) as (r & Hr & Hfix).
      * apply G_mono; try assumption. apply D_G; exact Hs.
      * lia.
      * exists (Datatypes.S r). split; [lia|]. cbn [iter]. exact Hfix.
Qed.

End Iter.

(* ================= B. vectors of sizes ================= *)

Definition vec_le (a b : list N) : Prop := Forall2 N.le a b.

Lemma vec_le_refl a : vec_le a a.
Proof. induction a; constructor; [lia|assumption]. Qed.

Lemma vec_le_length a b : vec_le a b -> length a = length b.
Proof. induction 1; cbn [length]; [reflexivity|]. f_equal. assumption. Qed.

Lemma vec_le_sum a b : vec_le a b -> sumN a <= sumN b.
Proof. induction 1; cbn [sumN]; lia. Qed.

Lemma vec_le_firstn k : forall a b, vec_le a b -> vec_le (firstn k a) (firstn k b).
Proof.
  induction k as [|k IH]; intros a b H; cbn [firstn]; [constructor|].
  destruct H; [constructor|]. constructor; [assumption|]. apply IH. assumption.
Qed.

Lemma vec_le_skipn k : forall a b, vec_le a b -> vec_le (skipn k a) (skipn k b).
Proof.
  induction k as [|k IH]; intros a b H; cbn [skipn]; [exact H|].
  destruct H; [constructor|]. apply IH. assumption.
Qed.

Lemma vec_le_trans a b c : vec_le a b -> vec_le b c -> vec_le a c.
Proof.
  intros H; revert c; induction H; intros c Hc; inversion Hc; subst; constructor; [lia|].
  apply IHForall2. assumption.
Qed.

(* termwise <= with equal sums means equal *)
Lemma vec_le_sum_eq a b : vec_le a b -> sumN a = sumN b -> a = b.
Proof.
  induction 1 as [|x y a b Hxy Hab IH]; intros Hs; [reflexivity|].
  cbn [sumN] in Hs. pose proof (vec_le_sum _ _ Hab). assert (x = y) by lia. subst.
  f_equal. apply IH. lia.
Qed.

Lemma sumN_firstn_le k a : sumN (firstn k a) <= sumN a.
Proof.
  revert a; induction k as [|k IH]; intros a; cbn [firstn sumN]; [lia|].
  destruct a; cbn [sumN]; [lia|]. specialize (IH a). lia.
Qed.

Lemma sumN_firstn_split a : forall (s : list N) b, (b <= a)%nat ->
  sumN (firstn a s) = sumN (firstn b s) + sumN (firstn (a - b) (skipn b s)).
Proof.
  induction a as [|a IH]; intros s b Hb.
  - assert (b = 0)%nat by lia. subst. cbn. reflexivity.
  - destruct b as [|b]; [cbn [firstn sumN skipn Nat.sub]; lia|].
    destruct s as [|x s]; [cbn [firstn skipn sumN]; rewrite firstn_nil; reflexivity|].
    cbn [firstn sumN skipn]. rewrite (IH s b) by lia. cbn [Nat.sub]. lia.
Qed.

(* prefix sums without wrap-around *)
Fixpoint psum_from (acc : N) (s : list N) : list N :=
  acc :: match s with [] => [] | x :: r => psum_from (acc + x) r end.

Lemma cumsum_from_nowrap s : forall acc,
  (Z.of_N acc + Z.of_N (sumN s) < 2147483648)%Z ->
  cumsum_from (Z.of_N acc) s = map Z.of_N (psum_from acc s).
Proof.
  induction s as [|x r IH]; intros acc H; cbn [cumsum_from psum_from map sumN] in *; [reflexivity|].
  f_equal. rewrite wrap_i32_small by lia.
  replace (Z.of_N acc + Z.of_N x)%Z with (Z.of_N (acc + x)) by lia.
  apply IH. lia.
Qed.

Lemma nth_psum_from s : forall acc j, (j <= length s)%nat ->
  nth j (psum_from acc s) 0 = acc + sumN (firstn j s).
Proof.
  induction s as [|x r IH]; intros acc j Hj; cbn [length] in Hj.
  - assert (j = 0)%nat by lia. subst. cbn. lia.
  - destruct j as [|j]; cbn [psum_from nth firstn sumN]; [lia|].
    rewrite IH by lia. lia.
Qed.

Lemma cumsum_nth s j :
  (Z.of_N (sumN s) < 2147483648)%Z -> (j <= length s)%nat ->
  nth j (cumsum s) 0%Z = Z.of_N (sumN (firstn j s)).
Proof.
  intros H Hj. unfold cumsum. change 0%Z with (Z.of_N 0) at 1.
  rewrite cumsum_from_nowrap by (cbn; lia).
  change 0%Z with (Z.of_N 0). rewrite map_nth. rewrite nth_psum_from by exact Hj. f_equal.
Qed.

Lemma list_eqbZ_refl a : list_eqbZ a a = true.
Proof. induction a as [|x a IH]; cbn [list_eqbZ]; [reflexivity|]. rewrite Z.eqb_refl, IH. reflexivity. Qed.

Lemma list_eqbZ_true a : forall b, list_eqbZ a b = true -> a = b.
Proof.
  induction a as [|x a IH]; intros [|y b]; cbn [list_eqbZ]; try discriminate; [reflexivity|].
  intros H. apply andb_prop in H. destruct H as [H1 H2]. apply Z.eqb_eq in H1. subst. f_equal. apply IH. exact H2.
Qed.

(* ================= C. sizes of integers, DICTs, INDEXes ================= *)

Definition int32 (v : Z) : Prop := (-2147483648 <= v <= 2147483647)%Z.

Lemma int_size_formula v : int32 v ->
  int_size v =
  if ((-107 <=? v) && (v <=? 107))%Z then 1
  else if ((-1131 <=? v) && (v <=? 1131))%Z then 2
  else if ((-32768 <=? v) && (v <=? 32767))%Z then 3
  else 5.
Proof.
  intros H. unfold int_size. rewrite lenN_length, (dict_int_size v H).
  destruct ((-107 <=? v) && (v <=? 107))%Z; [reflexivity|].
  destruct ((-1131 <=? v) && (v <=? 1131))%Z; [reflexivity|].
  destruct ((-32768 <=? v) && (v <=? 32767))%Z; reflexivity.
Qed.

Lemma int_size_bounds v : int32 v -> 1 <= int_size v <= 5.
Proof.
  intros H. rewrite (int_size_formula v H).
  destruct ((-107 <=? v) && (v <=? 107))%Z; [lia|].
  destruct ((-1131 <=? v) && (v <=? 1131))%Z; [lia|].
  destruct ((-32768 <=? v) && (v <=? 32767))%Z; lia.
Qed.

Lemma int_size_mono v v' : (0 <= v <= v')%Z -> (v' <= 2147483647)%Z -> int_size v <= int_size v'.
Proof.
  intros H H'. rewrite (int_size_formula v), (int_size_formula v') by (unfold int32; lia).
  destruct (Z.leb_spec (-107) v), (Z.leb_spec v 107), (Z.leb_spec (-107) v'), (Z.leb_spec v' 107);
    cbn [andb]; try lia;
  destruct (Z.leb_spec (-1131) v), (Z.leb_spec v 1131), (Z.leb_spec (-1131) v'), (Z.leb_spec v' 1131);
    cbn [andb]; try lia;
  destruct (Z.leb_spec (-32768) v), (Z.leb_spec v 32767), (Z.leb_spec (-32768) v'), (Z.leb_spec v' 32767);
    cbn [andb]; try lia.
Qed.

Lemma off_size_mono a b : a <= b -> off_size a <= off_size b.
Proof.
  intros H. unfold off_size.
  repeat match goal with |- context [N.ltb ?x ?y] => destruct (N.ltb_spec x y) end; lia.
Qed.

Lemma index_len_mono a b : vec_le a b -> index_len a <= index_len b.
Proof.
  intros H. unfold index_len.
  pose proof (vec_le_length _ _ H) as Hl. pose proof (vec_le_sum _ _ H) as Hs.
  rewrite !lenN_length, Hl.
  destruct (N.of_nat (length b) =? 0); [lia|].
  pose proof (off_size_mono _ _ Hs). nia.
Qed.

Lemma vec_le_map {A} (f g : A -> N) l :
  (forall x, In x l -> f x <= g x) -> vec_le (map f l) (map g l).
Proof.
  induction l as [|x l IH]; intros H; cbn [map]; constructor.
  - apply H. left. reflexivity.
  - apply IH. intros y Hy. apply H. right. exact Hy.
Qed.

Lemma dsize_mono f g d : (forall op, In op (d_ops d) -> f op <= g op) -> dsize f d <= dsize g d.
Proof. intros H. unfold dsize. pose proof (vec_le_sum _ _ (vec_le_map f g _ H)). lia. Qed.

Lemma dsize_ext f g d : (forall op, In op (d_ops d) -> f op = g op) -> dsize f d = dsize g d.
Proof. intros H. unfold dsize. f_equal. f_equal. apply map_ext_in. exact H. Qed.

Definition ops_of (s : section) : list operand :=
  match s with
  | SDict d => d_ops d
  | SIndex ds => concat (map d_ops ds)
  | _ => []
  end.

Lemma all_ops_eq secs : all_ops secs = concat (map ops_of secs).
Proof. reflexivity. Qed.

Lemma sec_size_mono f g s : (forall op, In op (ops_of s) -> f op <= g op) -> sec_size f s <= sec_size g s.
Proof.
  intros H. destruct s as [n|n|d|ds]; cbn [sec_size ops_of] in *; try lia.
  - apply dsize_mono. exact H.
  - apply index_len_mono. apply vec_le_map. intros d Hd. apply dsize_mono.
    intros op Hop. apply H. apply in_concat. exists (d_ops d). split; [apply in_map; exact Hd|exact Hop].
Qed.

Lemma sec_size_ext f g s : (forall op, In op (ops_of s) -> f op = g op) -> sec_size f s = sec_size g s.
Proof.
  intros H. destruct s as [n|n|d|ds]; cbn [sec_size ops_of] in *; try reflexivity.
  - apply dsize_ext. exact H.
  - f_equal. apply map_ext_in. intros d Hd. apply dsize_ext.
    intros op Hop. apply H. apply in_concat. exists (d_ops d). split; [apply in_map; exact Hd|exact Hop].
Qed.

Lemma nth_le_sumN (l : list N) j : nth j l 0 <= sumN l.
Proof.
  revert j; induction l as [|x l IH]; intros j; destruct j; cbn [nth sumN]; try lia.
  specialize (IH j). lia.
Qed.

Lemma map_eq_in {A B} (f g : A -> B) l : map f l = map g l -> forall x, In x l -> f x = g x.
Proof.
  induction l as [|a l IH]; intros H x Hx; [destruct Hx|].
  cbn [map] in H. inversion H. destruct Hx as [->|Hx]; [assumption|]. apply IH; assumption.
Qed.

(* ================= D. the loop ================= *)

Section Loop.
Variable secs : list section.
Let n := length secs.

Definition wf0 (op : operand) : Prop :=
  match op with
  | OOffs j => (j <= n)%nat
  | ODiff a b => (b <= a <= n)%nat
  | OSize _ => False
  end.

Definition wf (op : operand) : Prop :=
  match op with
  | OSize j => (j < n)%nat /\ exists d, nth j secs (SFixed 0) = SDict d /\ Forall wf0 (d_ops d)
  | _ => wf0 op
  end.

Hypothesis Hwf : Forall wf (all_ops secs).

(* the largest size every section can have: all operands five bytes long *)
Definition smax : list N := map (sec_size (fun _ => 5)) secs.
Hypothesis Htotal : (Z.of_N (sumN smax) < 2147483648)%Z.

Definition Dom (s : list N) : Prop := length s = n /\ vec_le s smax.

Lemma Dom_sum s : Dom s -> (Z.of_N (sumN s) < 2147483648)%Z.
Proof. intros [_ H]. pose proof (vec_le_sum _ _ H). lia. Qed.

Lemma offs_val s j : Dom s -> (j <= n)%nat ->
  nth_offs (cumsum s) j = Z.of_N (sumN (firstn j s)).
Proof.
  intros H Hj. unfold nth_offs. apply cumsum_nth; [apply Dom_sum; exact H|].
  destruct H as [Hl _]. lia.
Qed.

Lemma opval0_mono op s s' : wf0 op -> Dom s -> Dom s' -> vec_le s s' ->
  (0 <= opval0 (cumsum s) op <= opval0 (cumsum s') op)%Z /\
  (opval0 (cumsum s') op <= Z.of_N (sumN smax))%Z.
Proof.
  intros Hop Hs Hs' Hle. destruct op as [j|a b|j]; cbn [wf0 opval0] in *; [| |tauto].
  - rewrite !offs_val by assumption.
    pose proof (vec_le_sum _ _ (vec_le_firstn j _ _ Hle)).
    pose proof (sumN_firstn_le j s'). destruct Hs' as [_ Hm]. pose proof (vec_le_sum _ _ Hm). lia.
  - rewrite !offs_val by (try assumption; lia).
    rewrite (sumN_firstn_split a s b), (sumN_firstn_split a s' b) by lia.
    pose proof (vec_le_sum _ _ (vec_le_firstn (a - b) _ _ (vec_le_skipn b _ _ Hle))) as Hd.
    pose proof (sumN_firstn_le a s') as Ha. rewrite (sumN_firstn_split a s' b) in Ha by lia.
    pose proof (Dom_sum _ Hs'). destruct Hs' as [_ Hm]. pose proof (vec_le_sum _ _ Hm).
    pose proof (sumN_firstn_le a s) as Ha2. rewrite (sumN_firstn_split a s b) in Ha2 by lia.
    pose proof (Dom_sum _ Hs).
    rewrite !wrap_i32_small by lia. lia.
Qed.

Lemma osz0_mono op s s' : wf0 op -> Dom s -> Dom s' -> vec_le s s' ->
  osz0 (cumsum s) op <= osz0 (cumsum s') op /\ 1 <= osz0 (cumsum s') op <= 5.
Proof.
  intros Hop Hs Hs' Hle. destruct (opval0_mono op s s' Hop Hs Hs' Hle) as [A B]. unfold osz0. split.
  - apply int_size_mono; lia.
  - apply int_size_bounds. unfold int32. lia.
Qed.

Lemma dom_refl s : Dom s -> vec_le s s.
Proof. intros _. apply vec_le_refl. Qed.

Lemma opval_mono op s s' : wf op -> Dom s -> Dom s' -> vec_le s s' ->
  (0 <= opval secs (cumsum s) op <= opval secs (cumsum s') op)%Z /\
  (opval secs (cumsum s') op <= Z.of_N (sumN smax))%Z.
Proof.
  intros Hop Hs Hs' Hle. destruct op as [j|a b|j].
  - exact (opval0_mono (OOffs j) s s' Hop Hs Hs' Hle).
  - exact (opval0_mono (ODiff a b) s s' Hop Hs Hs' Hle).
  - cbn [wf] in Hop. destruct Hop as (Hj & d & Hd & Hd0). cbn [opval]. rewrite Hd.
    rewrite Forall_forall in Hd0.
    assert (M1 : dsize (osz0 (cumsum s)) d <= dsize (osz0 (cumsum s')) d).
    { apply dsize_mono. intros op Hop. apply (osz0_mono op s s'); auto. }
    assert (M2 : dsize (osz0 (cumsum s')) d <= dsize (fun _ => 5) d).
    { apply dsize_mono. intros op Hop. apply (osz0_mono op s' s'); auto. apply vec_le_refl. }
    assert (M3 : dsize (fun _ => 5) d <= sumN smax).
    { pose proof (nth_le_sumN smax j) as Hn. unfold smax in Hn at 1.
      change 0 with (sec_size (fun _ => 5) (SFixed 0)) in Hn at 1. rewrite map_nth, Hd in Hn. exact Hn. }
    lia.
Qed.

Lemma osz_mono op s s' : wf op -> Dom s -> Dom s' -> vec_le s s' ->
  osz secs (cumsum s) op <= osz secs (cumsum s') op /\ 1 <= osz secs (cumsum s') op <= 5.
Proof.
  intros Hop Hs Hs' Hle. destruct (opval_mono op s s' Hop Hs Hs' Hle) as [A B]. unfold osz. split.
  - apply int_size_mono; lia.
  - apply int_size_bounds. unfold int32. lia.
Qed.

Lemma wf_of_sec s op : In s secs -> In op (ops_of s) -> wf op.
Proof.
  intros Hs Hop. rewrite Forall_forall in Hwf. apply Hwf. rewrite all_ops_eq.
  apply in_concat. exists (ops_of s). split; [apply in_map; exact Hs|exact Hop].
Qed.

Definition Gs (s : list N) : list N := round_sizes secs (cumsum s).

Lemma Gs_Dom s : Dom s -> Dom (Gs s).
Proof.
  intros Hs. split.
  - unfold Gs, round_sizes. rewrite map_length. reflexivity.
  - unfold Gs, round_sizes, smax. apply vec_le_map. intros sec Hsec. apply sec_size_mono.
    intros op Hop. apply (osz_mono op s s); auto; [eapply wf_of_sec; eassumption|apply vec_le_refl].
Qed.

Lemma Gs_mono s s' : Dom s -> Dom s' -> vec_le s s' -> vec_le (Gs s) (Gs s').
Proof.
  intros Hs Hs' Hle. unfold Gs, round_sizes. apply vec_le_map. intros sec Hsec. apply sec_size_mono.
  intros op Hop. apply (osz_mono op s s'); auto. eapply wf_of_sec; eassumption.
Qed.

Definition phi (s : list N) : N := sumN (map (osz secs (cumsum s)) (all_ops secs)).

Lemma phi_vec s s' : Dom s -> Dom s' -> vec_le s s' ->
  vec_le (map (osz secs (cumsum s)) (all_ops secs)) (map (osz secs (cumsum s')) (all_ops secs)).
Proof.
  intros Hs Hs' Hle. apply vec_le_map. intros op Hop. apply (osz_mono op s s'); auto.
  rewrite Forall_forall in Hwf. apply Hwf. exact Hop.
Qed.

Lemma phi_mono s s' : Dom s -> Dom s' -> vec_le s s' -> phi s <= phi s'.
Proof. intros. apply vec_le_sum. apply phi_vec; assumption. Qed.

Lemma phi_range s : Dom s -> lenN (all_ops secs) <= phi s <= 5 * lenN (all_ops secs).
Proof.
  intros Hs. unfold phi.
  assert (H : forall op, In op (all_ops secs) -> 1 <= osz secs (cumsum s) op <= 5).
  { intros op Hop. apply (osz_mono op s s); auto; [|apply vec_le_refl].
    rewrite Forall_forall in Hwf. apply Hwf. exact Hop. }
  revert H. generalize (all_ops secs). intros l. induction l as [|op l IH]; intros H; cbn [map sumN lenN]; [lia|].
  pose proof (H op ltac:(left; reflexivity)).
  specialize (IH ltac:(intros o Ho; apply H; right; exact Ho)). lia.
Qed.

Lemma phi_eq s s' : Dom s -> Dom s' -> vec_le s s' -> phi s = phi s' -> Gs s = Gs s'.
Proof.
  intros Hs Hs' Hle He.
  pose proof (vec_le_sum_eq _ _ (phi_vec s s' Hs Hs' Hle) He) as Hm.
  unfold Gs, round_sizes. apply map_ext_in. intros sec Hsec. apply sec_size_ext.
  intros op Hop. apply (map_eq_in _ _ _ Hm). rewrite all_ops_eq.
  apply in_concat. exists (ops_of sec). split; [apply in_map; exact Hsec|exact Hop].
Qed.

Lemma init_Dom : Dom (init_sizes secs).
Proof.
  split; [unfold init_sizes; rewrite map_length; reflexivity|].
  unfold init_sizes, smax. apply vec_le_map. intros sec _. destruct sec; cbn [sec_size]; lia.
Qed.

Lemma init_le : vec_le (init_sizes secs) (Gs (init_sizes secs)).
Proof.
  unfold Gs, round_sizes, init_sizes. apply vec_le_map. intros sec _. destruct sec; cbn [sec_size]; lia.
Qed.

(* the loop reaches the fixed point found by the iteration *)
Lemma loop_reaches r : forall s fuel,
  Gs (iter (list N) Gs r s) = iter (list N) Gs r s -> (r < fuel)%nat ->
  exists s', M_layout_loop secs fuel (cumsum s) = Ok (cumsum s', Gs s') /\
             firstn n (cumsum (Gs s')) = firstn n (cumsum s') /\
             exists k, (k <= r)%nat /\ s' = iter (list N) Gs k s.
Proof.
  induction r as [|r IH]; intros s fuel Hfix Hfuel; (destruct fuel as [|fuel]; [lia|]);
    cbn [M_layout_loop]; fold n; fold (Gs s).
  - cbn [iter] in Hfix. rewrite Hfix, list_eqbZ_refl.
    exists s. split; [rewrite Hfix; reflexivity|]. split; [rewrite Hfix; reflexivity|].
    exists 0%nat. split; [lia|reflexivity].
  - destruct (list_eqbZ (firstn n (cumsum (Gs s))) (firstn n (cumsum s))) eqn:T.
    + apply list_eqbZ_true in T. exists s. split; [reflexivity|]. split; [exact T|].
      exists 0%nat. split; [lia|reflexivity].
    + cbn [iter] in Hfix. destruct (IH (Gs s) fuel Hfix ltac:(lia)) as (s' & A & B & k & Hk & E).
      exists s'. split; [exact A|]. split; [exact B|]. exists (S k). split; [lia|exact E].
Qed.

Lemma layout_terminates :
  exists s', M_layout secs = Ok (cumsum s', Gs s') /\
             firstn n (cumsum (Gs s')) = firstn n (cumsum s') /\ Dom s'.
Proof.
  set (K := length (all_ops secs)).
  pose proof (phi_range _ init_Dom) as Hphi.
  destruct (iter_fix (list N) Dom vec_le Gs phi (5 * lenN (all_ops secs))
              Gs_Dom Gs_mono phi_mono (fun s H => proj2 (phi_range s H)) phi_eq
              (4 * K)%nat (init_sizes secs) init_Dom init_le) as (r & Hr & Hfix).
  { unfold K. rewrite lenN_length in *. lia. }
  destruct (loop_reaches r (init_sizes secs) (layout_fuel secs) Hfix) as (s' & A & B & k & Hk & E).
  { unfold layout_fuel. fold K. lia. }
  exists s'. split; [exact A|]. split; [exact B|]. subst s'. apply iter_D; [exact Gs_Dom|exact init_Dom].
Qed.

End Loop.

(* ================= E. the statement ================= *)

Lemma nth_firstn_lt {A} (l : list A) j k d : (j < k)%nat -> nth j (firstn k l) d = nth j l d.
Proof.
  revert j l; induction k as [|k IH]; intros j l H; [lia|].
  destruct l as [|x l]; [destruct j; reflexivity|]. destruct j; cbn [firstn nth]; [reflexivity|].
  apply IH. lia.
Qed.

Lemma osz0_eq_osz secs offs op : wf0 secs op -> osz secs offs op = osz0 offs op.
Proof. destruct op; cbn [wf0]; intros H; [reflexivity|reflexivity|tauto]. Qed.

Lemma layout_main secs :
  Forall (wf secs) (all_ops secs) ->
  (Z.of_N (sumN (smax secs)) < 2147483648)%Z ->
  exists offs sizes,
    M_layout_loop secs (4 * length (all_ops secs) + 2) (cumsum (init_sizes secs)) = Ok (offs, sizes) /\
    sizes = round_sizes secs offs /\
    (Z.of_N (sumN sizes) < 2147483648)%Z /\
    (forall j, (j < length secs)%nat -> nth_offs offs j = Z.of_N (sumN (firstn j sizes))) /\
    (forall j d, nth j secs (SFixed 0) = SDict d -> Forall (wf0 secs) (d_ops d) ->
       opval secs offs (OSize j) = Z.of_N (nth j sizes 0)).
Proof.
  intros Hwf Htot.
  destruct (layout_terminates secs Hwf Htot) as (s' & A & B & Ds).
  exists (cumsum s'), (Gs secs s'). split; [exact A|]. split; [reflexivity|].
  pose proof (Gs_Dom secs Hwf Htot s' Ds) as Dg.
  split; [apply (Dom_sum secs Htot); exact Dg|]. split.
  - intros j Hj. unfold nth_offs.
    rewrite <- (nth_firstn_lt (cumsum s') j (length secs)) by exact Hj. rewrite <- B.
    rewrite nth_firstn_lt by exact Hj.
    apply cumsum_nth; [apply (Dom_sum secs Htot); exact Dg|]. destruct Dg as [Hl _]. lia.
  - intros j d Hd Hd0. cbn [opval]. rewrite Hd. f_equal.
    unfold Gs, round_sizes.
    change 0 with (sec_size (osz secs (cumsum s')) (SFixed 0)). rewrite map_nth, Hd. cbn [sec_size].
    apply dsize_ext. intros op Hop. symmetry. apply osz0_eq_osz.
    rewrite Forall_forall in Hd0. apply Hd0. exact Hop.
Qed.

(* index_len is the length of what cffIndex.encode writes *)
Lemma index_len_correct blobs bs :
  M_index_encode blobs = Ok bs -> lenN bs = index_len (map lenN blobs).
Proof.
  unfold M_index_encode, M_index_header, index_len. rewrite !lenN_map.
  destruct (65536 <=? lenN blobs); [discriminate|].
  destruct (N.eqb_spec (lenN blobs) 0) as [E|E].
  - cbn [obind]. intros H; inversion H; subst. apply lenN_zero in E. subst. reflexivity.
  - destruct (4 <? off_size (sumN (map lenN blobs))); [discriminate|]. cbn [obind].
    intros H; inversion H; subst. cbn [app lenN].
    rewrite lenN_app, lenN_enc_offsets, lenN_concat, lenN_map.
    rewrite N2Nat.id. lia.
Qed.
