(* C13/Proofs_real.v — DICT reals: the nibble layout written by encodeFloat
   (after digit extraction) reads back, through decodeFloat's nibble reader
   and the decimal grammar of ParseFloat, as exactly +-D * 10^(l-m). *)
From Coq Require Import List NArith ZArith Bool Arith Lia.
From Coq Require Import ZifyBool ZifyNat ZifyN.
From Common Require Import Bytes Outcome.
From C13 Require Import Model ModelDict.
Import ListNotations.
Ltac Zify.zify_post_hook ::= Z.div_mod_to_equations.
Local Open Scope Z_scope.

(* value of a digit string continuing from acc *)
Definition dv (acc : Z) (ds : list N) : Z := fold_left (fun a d => a * 10 + Z.of_N d) ds acc.

Lemma dv_app acc a b : dv acc (a ++ b) = dv (dv acc a) b.
Proof. unfold dv. apply fold_left_app. Qed.

Lemma digits_value_dv ds : digits_value ds = dv 0 ds.
Proof. reflexivity. Qed.

Definition digit (c : N) : Prop := (c < 10)%N.

(* ---------- nibbles to text ---------- *)

Definition nib_chars (n : N) : list N :=
  match nib_step n with NChars cs => cs | _ => [] end.

Definition chars_of (nibs : list N) : list N := concat (map nib_chars nibs).

Definition valid_nib (n : N) : Prop :=
  (n < 10 \/ n = 10 \/ n = 11 \/ n = 12 \/ n = 14)%N.

Lemma valid_nib_step n : valid_nib n -> nib_step n = NChars (nib_chars n) /\ (n < 16)%N.
Proof.
  intros H. unfold nib_chars, nib_step.
  destruct H as [H|[H|[H|[H|H]]]]; try (subst n; split; [reflexivity|lia]).
  destruct (N.ltb_spec n 10); [split; [reflexivity|lia]|lia].
Qed.

Lemma chars_of_app a b : chars_of (a ++ b) = chars_of a ++ chars_of b.
Proof. unfold chars_of. rewrite map_app, concat_app. reflexivity. Qed.

Lemma chars_of_digits ds : Forall digit ds -> chars_of ds = ds.
Proof.
  induction 1 as [|d ds Hd Hds IH]; [reflexivity|].
  unfold chars_of in *. cbn [map concat]. rewrite IH.
  unfold nib_chars, nib_step. unfold digit in Hd.
  destruct (N.ltb_spec d 10); [reflexivity|lia].
Qed.

Lemma real_chars_pack n : forall nibs acc rest,
  (length nibs <= n)%nat -> Forall valid_nib nibs ->
  M_real_chars (pack_nibbles nibs ++ rest) acc = Ok (rev acc ++ chars_of nibs, rest).
Proof.
  induction n as [|n IH]; intros nibs acc rest Hl Hv.
  - destruct nibs; [|cbn [length] in Hl; lia].
    cbn. rewrite app_nil_r. reflexivity.
  - destruct nibs as [|a [|b r]].
    + cbn. rewrite app_nil_r. reflexivity.
    + inversion Hv as [|? ? Ha _]; subst. destruct (valid_nib_step a Ha) as [Sa La].
      cbn [pack_nibbles app M_real_chars].
      replace ((a * 16 + 15) / 16)%N with a by lia.
      replace ((a * 16 + 15) mod 16)%N with 15%N by lia.
      rewrite Sa. cbn [nib_step N.ltb N.eqb]. cbn.
      unfold chars_of. cbn [map concat]. rewrite app_nil_r, rev_app_distr, rev_involutive. reflexivity.
    + inversion Hv as [|? ? Ha Hv']; subst. inversion Hv' as [|? ? Hb Hr]; subst.
      destruct (valid_nib_step a Ha) as [Sa La]. destruct (valid_nib_step b Hb) as [Sb Lb].
      cbn [pack_nibbles app M_real_chars].
      replace ((a * 16 + b) / 16)%N with a by lia.
      replace ((a * 16 + b) mod 16)%N with b by lia.
      rewrite Sa, Sb. rewrite IH; [|cbn [length] in Hl; lia|exact Hr].
      unfold chars_of. cbn [map concat].
      rewrite !rev_app_distr, !rev_involutive, <- !app_assoc. reflexivity.
Qed.

(* ---------- the decimal grammar on the shapes that occur ---------- *)

Lemma take_digits_app ds : forall rest acc cnt,
  Forall digit ds ->
  (forall c r, rest = c :: r -> is_digit c = false) ->
  take_digits (ds ++ rest) acc cnt = (dv acc ds, cnt + Z.of_nat (length ds), rest).
Proof.
  induction ds as [|d ds IH]; intros rest acc cnt Hd Hr; cbn [app length].
  - cbn [dv fold_left]. replace (cnt + Z.of_nat 0) with cnt by lia.
    destruct rest as [|c r]; [reflexivity|]. cbn [take_digits]. rewrite (Hr c r eq_refl). reflexivity.
  - inversion Hd as [|? ? H1 H2]; subst. cbn [take_digits].
    unfold is_digit. unfold digit in H1. destruct (N.ltb_spec d 10); [|lia].
    rewrite IH by assumption. cbn [dv fold_left]. f_equal. f_equal. lia.
Qed.

(* optional exponent part: None, or (negative?, digits) *)
Definition exp_chars (e : option (bool * list N)) : list N :=
  match e with
  | None => []
  | Some (eneg, es) => [ch_e] ++ (if eneg then [ch_minus] else []) ++ es
  end.

Definition exp_value (e : option (bool * list N)) : Z :=
  match e with
  | None => 0
  | Some (eneg, es) => if eneg then - dv 0 es else dv 0 es
  end.

Definition exp_ok (e : option (bool * list N)) : Prop :=
  match e with None => True | Some (_, es) => Forall digit es /\ es <> [] end.

Lemma not_digit_dot : is_digit ch_dot = false. Proof. reflexivity. Qed.
Lemma not_digit_e : is_digit ch_e = false. Proof. reflexivity. Qed.
Lemma not_digit_minus : is_digit ch_minus = false. Proof. reflexivity. Qed.

Lemma exp_chars_head e c r : exp_chars e = c :: r -> is_digit c = false.
Proof. destruct e as [[eneg es]|]; cbn; intros H; inversion H; reflexivity. Qed.

Lemma body_exp e m n : exp_ok e -> n <> 0 \/ True ->
  S_real_exp (exp_chars e) m n = Some (m, n, exp_value e).
Proof.
  intros He _. unfold S_real_exp. destruct e as [[eneg es]|]; [|reflexivity].
  destruct He as [Hd Hne]. cbn [exp_chars app]. cbn [N.eqb ch_e Pos.eqb].
  assert (Htd : take_digits es 0 0 = (dv 0 es, Z.of_nat (length es), [])).
  { rewrite <- (app_nil_r es) at 1. rewrite take_digits_app; [reflexivity|exact Hd|intros; discriminate]. }
  assert (Hlen : (Z.of_nat (length es) =? 0) = false).
  { destruct es; [congruence|]. cbn [length]. lia. }
  destruct eneg; cbn [app].
  - cbn [N.eqb ch_minus Pos.eqb]. rewrite Htd, Hlen. reflexivity.
  - destruct es as [|c r]; [congruence|].
    inversion Hd as [|? ? Hc _]; subst. unfold digit in Hc.
    destruct (N.eqb_spec c ch_minus) as [E|E]; [unfold ch_minus in E; lia|].
    rewrite Htd, Hlen. reflexivity.
Qed.

Lemma body_shape a b (hasdot : bool) e :
  Forall digit a -> Forall digit b -> (hasdot = false -> b = []) ->
  (length a + length b > 0)%nat -> exp_ok e ->
  S_real_body (a ++ (if hasdot then [ch_dot] ++ b else []) ++ exp_chars e)
  = Some (dv 0 (a ++ b), Z.of_nat (length b), exp_value e).
Proof.
  intros Ha Hb Hdot Hlen He. unfold S_real_body.
  rewrite take_digits_app; [|exact Ha|].
  2:{ intros c r Hc. destruct hasdot.
      - cbn in Hc. inversion Hc. reflexivity.
      - cbn [app] in Hc. eapply exp_chars_head. exact Hc. }
  destruct hasdot.
  - cbn [app]. cbn [N.eqb ch_dot Pos.eqb].
    rewrite take_digits_app; [|exact Hb|intros c r Hc; eapply exp_chars_head; exact Hc].
    rewrite dv_app.
    replace (0 + Z.of_nat (length a) + (0 + Z.of_nat (length b)) =? 0) with false by lia.
    replace (0 + Z.of_nat (length b)) with (Z.of_nat (length b)) by lia.
    apply body_exp; [exact He|right; exact I].
  - rewrite (Hdot eq_refl) in *. cbn [app length] in *. rewrite app_nil_r.
    destruct (exp_chars e) as [|c r] eqn:Ec.
    + replace (0 + Z.of_nat (length a) + 0 =? 0) with false by lia.
      rewrite <- Ec. apply body_exp; [exact He|right; exact I].
    + assert (c = ch_e) by (destruct e as [[eneg es]|]; cbn in Ec; inversion Ec; reflexivity).
      subst c. cbn [N.eqb ch_e ch_dot Pos.eqb].
      replace (0 + Z.of_nat (length a) + 0 =? 0) with false by lia.
      rewrite <- Ec. apply body_exp; [exact He|right; exact I].
Qed.

(* ---------- itoaBinary ---------- *)

Lemma dv_shift ds : forall acc, dv acc ds = acc * 10 ^ Z.of_nat (length ds) + dv 0 ds.
Proof.
  induction ds as [|d ds IH]; intros acc; cbn [dv fold_left length].
  - cbn. lia.
  - fold (dv (acc * 10 + Z.of_N d) ds). fold (dv (0 * 10 + Z.of_N d) ds).
    rewrite (IH (acc * 10 + Z.of_N d)), (IH (0 * 10 + Z.of_N d)).
    rewrite Nat2Z.inj_succ, Z.pow_succ_r by lia. lia.
Qed.

Lemma itoa_fuel_spec f : forall x acc,
  0 <= x < Z.of_nat f -> Forall digit acc ->
  Forall digit (itoa_fuel f x acc) /\
  dv 0 (itoa_fuel f x acc) = x * 10 ^ Z.of_nat (length acc) + dv 0 acc /\
  (0 < x -> itoa_fuel f x acc <> []).
Proof.
  induction f as [|f IH]; intros x acc Hx Hacc; [lia|].
  cbn [itoa_fuel]. destruct (Z.leb_spec x 0) as [H0|H0].
  - assert (x = 0) by lia. subst. split; [exact Hacc|]. split; [lia|lia].
  - assert (Hd : digit (Z.to_N (x mod 10))) by (unfold digit; lia).
    destruct (IH (x / 10) (Z.to_N (x mod 10) :: acc) ltac:(lia) ltac:(constructor; assumption))
      as (A & B & C).
    split; [exact A|]. split.
    + rewrite B. cbn [length]. rewrite Nat2Z.inj_succ, Z.pow_succ_r by lia.
      rewrite (dv_shift (Z.to_N (x mod 10) :: acc)). cbn [dv fold_left length].
      fold (dv (0 * 10 + Z.of_N (Z.to_N (x mod 10))) acc).
      rewrite (dv_shift acc (0 * 10 + Z.of_N (Z.to_N (x mod 10)))).
      rewrite Z2N.id by lia. nia.
    + intros _. destruct (Z.leb_spec (x / 10) 0).
      * destruct f; cbn [itoa_fuel]; [discriminate|].
        destruct (Z.leb_spec (x / 10) 0); [discriminate|lia].
      * apply C. lia.
Qed.

Lemma itoa_spec x : 0 < x -> Forall digit (itoa x) /\ dv 0 (itoa x) = x /\ itoa x <> [].
Proof.
  intros H. unfold itoa.
  destruct (itoa_fuel_spec (S (Z.to_nat x)) x [] ltac:(lia) ltac:(constructor)) as (A & B & C).
  split; [exact A|]. split; [|apply C; exact H]. rewrite B. cbn. lia.
Qed.

(* ---------- the layout ---------- *)

(* m1 * 10^e1 = m2 * 10^e2 over the rationals, stated with integers *)
Definition dec_equiv (m1 e1 m2 e2 : Z) : Prop :=
  m1 * 10 ^ (e1 - Z.min e1 e2) = m2 * 10 ^ (e2 - Z.min e1 e2).

Lemma dec_equiv_same m e : dec_equiv m e m e.
Proof. reflexivity. Qed.

Lemma firstn_skipn_digits (ds : list N) k : Forall digit ds ->
  Forall digit (firstn k ds) /\ Forall digit (skipn k ds).
Proof.
  intros H. rewrite <- (firstn_skipn k ds) in H. apply Forall_app in H. exact H.
Qed.

Lemma digits_valid ds : Forall digit ds -> Forall valid_nib ds.
Proof. apply Forall_impl. intros d Hd. left. exact Hd. Qed.

Definition sign_chars (neg : bool) : list N := if neg then [ch_minus] else [].

Lemma parse_sign neg body m n e :
  (forall c r, body = c :: r -> (c =? ch_minus)%N = false) ->
  S_real_body body = Some (m, n, e) ->
  S_real_parse (sign_chars neg ++ body) = Some {| d_neg := neg; d_mant := m; d_nfrac := n; d_exp := e |}.
Proof.
  intros Hh Hb. unfold S_real_parse. destruct neg; cbn [sign_chars app].
  - cbn [N.eqb ch_minus Pos.eqb]. rewrite Hb. reflexivity.
  - destruct body as [|c r].
    + rewrite Hb. reflexivity.
    + rewrite (Hh c r eq_refl). rewrite Hb. reflexivity.
Qed.

Lemma real_layout_value neg ds l rest :
  Forall digit ds -> ds <> [] ->
  let m := Z.of_nat (length ds) in
  exists cs d,
    M_real_chars (M_real_layout neg ds l ++ rest) [] = Ok (cs, rest) /\
    S_real_parse cs = Some d /\
    d_neg d = neg /\
    dec_equiv (d_mant d) (d_exp d - d_nfrac d) (dv 0 ds) (l - m).
Proof.
  intros Hd Hne m.
  assert (Hlen : (length ds > 0)%nat) by (destruct ds; [congruence|cbn [length]; lia]).
  pose proof (digits_valid ds Hd) as Hv.
  assert (Hsign : Forall valid_nib (if neg then [14%N] else [])).
  { destruct neg; constructor; [right; right; right; right; reflexivity|constructor]. }
  assert (Hsc : chars_of (if neg then [14%N] else []) = sign_chars neg) by (destruct neg; reflexivity).
  assert (Hhd_digit : forall (a : list N) c r tl, Forall digit a -> a <> [] -> a ++ tl = c :: r -> (c =? ch_minus)%N = false).
  { intros a c r tl Ha Hna E. destruct a as [|x a']; [congruence|]. inversion E; subst.
    inversion Ha as [|? ? Hx _]; subst. unfold digit in Hx. apply N.eqb_neq. unfold ch_minus. lia. }
  unfold M_real_layout, M_real_nibbles. fold m.
  (* a helper closing each case: nibbles = sign ++ body nibbles *)
  assert (Hcase : forall bodyn body mm nn ee,
    Forall valid_nib bodyn -> chars_of bodyn = body ->
    (forall c r, body = c :: r -> (c =? ch_minus)%N = false) ->
    S_real_body body = Some (mm, nn, ee) ->
    dec_equiv mm (ee - nn) (dv 0 ds) (l - m) ->
    exists cs d,
      M_real_chars (pack_nibbles ((if neg then [14%N] else []) ++ bodyn) ++ rest) [] = Ok (cs, rest) /\
      S_real_parse cs = Some d /\ d_neg d = neg /\
      dec_equiv (d_mant d) (d_exp d - d_nfrac d) (dv 0 ds) (l - m)).
  { intros bodyn body mm nn ee Hvb Hcb Hh Hb Heq.
    exists (sign_chars neg ++ body), {| d_neg := neg; d_mant := mm; d_nfrac := nn; d_exp := ee |}.
    split; [|split; [apply parse_sign; assumption|split; [reflexivity|exact Heq]]].
    rewrite (real_chars_pack (length ((if neg then [14%N] else []) ++ bodyn))); [|lia|apply Forall_app; split; assumption].
    cbn [rev app]. rewrite chars_of_app, Hsc, Hcb. reflexivity. }
  destruct (Z.ltb_spec (m + 2) l) as [C1|C1].
  { (* digits E exponent *)
    destruct (itoa_spec (l - m) ltac:(lia)) as (I1 & I2 & I3).
    apply (Hcase (ds ++ [11%N] ++ itoa (l - m)) (ds ++ [] ++ exp_chars (Some (false, itoa (l - m))))
                 (dv 0 (ds ++ [])) (Z.of_nat (length (@nil N))) (exp_value (Some (false, itoa (l - m))))).
    - apply Forall_app; split; [exact Hv|]. constructor; [right; right; left; reflexivity|apply digits_valid; exact I1].
    - rewrite chars_of_app, chars_of_digits by exact Hd. cbn [app exp_chars]. f_equal.
      change (11%N :: itoa (l - m)) with ([11%N] ++ itoa (l - m)). rewrite chars_of_app, (chars_of_digits _ I1). reflexivity.
    - intros c r E. exact (Hhd_digit ds c r _ Hd Hne E).
    - apply (body_shape ds [] false).
      + exact Hd.
      + constructor.
      + intros _; reflexivity.
      + cbn [length]. lia.
      + split; assumption.
    - rewrite app_nil_r. cbn [exp_value length]. rewrite I2. replace (l - m - Z.of_nat 0) with (l - m) by lia.
      apply dec_equiv_same. }
  destruct (Z.eqb_spec l (m + 2)) as [C2|C2].
  { apply (Hcase (ds ++ [0%N; 0%N]) ((ds ++ [0%N; 0%N]) ++ [] ++ exp_chars None)
                 (dv 0 ((ds ++ [0%N; 0%N]) ++ [])) (Z.of_nat (length (@nil N))) (exp_value None)).
    - apply Forall_app; split; [exact Hv|]. repeat constructor; unfold N.lt; reflexivity.
    - cbn [exp_chars app]. rewrite !app_nil_r. apply chars_of_digits.
      apply Forall_app; split; [exact Hd|]. repeat constructor; unfold digit; lia.
    - intros c r E. rewrite <- app_assoc in E. exact (Hhd_digit ds c r _ Hd Hne E).
    - apply (body_shape (ds ++ [0%N; 0%N]) [] false None).
      + apply Forall_app; split; [exact Hd|]. repeat constructor; unfold digit; lia.
      + constructor.
      + intros _; reflexivity.
      + rewrite app_length. cbn [length]. lia.
      + exact I.
    - rewrite app_nil_r, dv_app. cbn [dv fold_left exp_value length].
      unfold dec_equiv. subst l. replace (0 - Z.of_nat 0) with 0 by lia.
      replace (m + 2 - m) with 2 by lia. cbn. lia. }
  destruct (Z.eqb_spec l (m + 1)) as [C3|C3].
  { apply (Hcase (ds ++ [0%N]) ((ds ++ [0%N]) ++ [] ++ exp_chars None)
                 (dv 0 ((ds ++ [0%N]) ++ [])) (Z.of_nat (length (@nil N))) (exp_value None)).
    - apply Forall_app; split; [exact Hv|]. repeat constructor; unfold N.lt; reflexivity.
    - cbn [exp_chars app]. rewrite !app_nil_r. apply chars_of_digits.
      apply Forall_app; split; [exact Hd|]. repeat constructor; unfold digit; lia.
    - intros c r E. rewrite <- app_assoc in E. exact (Hhd_digit ds c r _ Hd Hne E).
    - apply (body_shape (ds ++ [0%N]) [] false None).
      + apply Forall_app; split; [exact Hd|]. repeat constructor; unfold digit; lia.
      + constructor.
      + intros _; reflexivity.
      + rewrite app_length. cbn [length]. lia.
      + exact I.
    - rewrite app_nil_r, dv_app. cbn [dv fold_left exp_value length].
      unfold dec_equiv. subst l. replace (0 - Z.of_nat 0) with 0 by lia.
      replace (m + 1 - m) with 1 by lia. cbn. lia. }
  destruct (Z.eqb_spec l m) as [C4|C4].
  { apply (Hcase ds (ds ++ [] ++ exp_chars None) (dv 0 (ds ++ [])) (Z.of_nat (length (@nil N))) (exp_value None)).
    - exact Hv.
    - cbn [exp_chars app]. rewrite app_nil_r. apply chars_of_digits. exact Hd.
    - intros c r E. exact (Hhd_digit ds c r _ Hd Hne E).
    - apply (body_shape ds [] false None).
      + exact Hd.
      + constructor.
      + intros _; reflexivity.
      + cbn [length]. lia.
      + exact I.
    - rewrite app_nil_r. cbn [exp_value length]. subst l.
      replace (0 - Z.of_nat 0) with (m - m) by lia. apply dec_equiv_same. }
  destruct (Z.ltb_spec 0 l) as [C5|C5].
  { (* the point inside the digits *)
    destruct (firstn_skipn_digits ds (Z.to_nat l) Hd) as [Hf Hs].
    assert (Hfl : length (firstn (Z.to_nat l) ds) = Z.to_nat l) by (apply firstn_length_le; lia).
    assert (Hsl : length (skipn (Z.to_nat l) ds) = (length ds - Z.to_nat l)%nat) by apply skipn_length.
    apply (Hcase (firstn (Z.to_nat l) ds ++ [10%N] ++ skipn (Z.to_nat l) ds)
                 (firstn (Z.to_nat l) ds ++ ([ch_dot] ++ skipn (Z.to_nat l) ds) ++ exp_chars None)
                 (dv 0 (firstn (Z.to_nat l) ds ++ skipn (Z.to_nat l) ds))
                 (Z.of_nat (length (skipn (Z.to_nat l) ds))) (exp_value None)).
    - apply Forall_app; split; [apply digits_valid; exact Hf|].
      constructor; [right; left; reflexivity|apply digits_valid; exact Hs].
    - cbn [exp_chars]. rewrite app_nil_r. rewrite chars_of_app, (chars_of_digits _ Hf). f_equal.
      change (10%N :: skipn (Z.to_nat l) ds) with ([10%N] ++ skipn (Z.to_nat l) ds).
      rewrite chars_of_app, (chars_of_digits _ Hs). reflexivity.
    - intros c r E. eapply (Hhd_digit (firstn (Z.to_nat l) ds)); [exact Hf| |exact E].
      intros En. rewrite En in Hfl. cbn [length] in Hfl. lia.
    - apply (body_shape (firstn (Z.to_nat l) ds) (skipn (Z.to_nat l) ds) true None).
      + exact Hf.
      + exact Hs.
      + discriminate.
      + lia.
      + exact I.
    - rewrite firstn_skipn. cbn [exp_value]. rewrite Hsl.
      replace (0 - Z.of_nat (length ds - Z.to_nat l)) with (l - m) by lia. apply dec_equiv_same. }
  destruct (Z.eqb_spec l 0) as [C6|C6].
  { apply (Hcase ([10%N] ++ ds) ([] ++ ([ch_dot] ++ ds) ++ exp_chars None)
                 (dv 0 ([] ++ ds)) (Z.of_nat (length ds)) (exp_value None)).
    - constructor; [right; left; reflexivity|exact Hv].
    - cbn [exp_chars app]. rewrite app_nil_r.
      change (10%N :: ds) with ([10%N] ++ ds). rewrite chars_of_app, (chars_of_digits _ Hd). reflexivity.
    - intros c r E. cbn in E. inversion E. reflexivity.
    - apply (body_shape [] ds true None).
      + constructor.
      + exact Hd.
      + discriminate.
      + cbn [length]. lia.
      + exact I.
    - cbn [app exp_value]. subst l. fold m. replace (0 - m) with (0 - m) by lia. apply dec_equiv_same. }
  destruct (Z.eqb_spec l (-1)) as [C7|C7].
  { apply (Hcase ([10%N; 0%N] ++ ds) ([] ++ ([ch_dot] ++ (0%N :: ds)) ++ exp_chars None)
                 (dv 0 ([] ++ (0%N :: ds))) (Z.of_nat (length (0%N :: ds))) (exp_value None)).
    - constructor; [right; left; reflexivity|]. constructor; [left; unfold N.lt; reflexivity|exact Hv].
    - cbn [exp_chars app]. rewrite app_nil_r.
      change (10%N :: 0%N :: ds) with ([10%N] ++ (0%N :: ds)). rewrite chars_of_app.
      rewrite (chars_of_digits (0%N :: ds)); [reflexivity|]. constructor; [unfold digit; lia|exact Hd].
    - intros c r E. cbn in E. inversion E. reflexivity.
    - apply (body_shape [] (0%N :: ds) true None).
      + constructor.
      + constructor; [unfold digit; lia|exact Hd].
      + discriminate.
      + cbn [length]. lia.
      + exact I.
    - cbn [app exp_value length dv fold_left]. subst l. fold (dv 0 ds).
      replace (0 - Z.of_nat (S (length ds))) with (-1 - m) by lia. apply dec_equiv_same. }
  { (* digits E- exponent *)
    destruct (itoa_spec (- l + m) ltac:(lia)) as (I1 & I2 & I3).
    apply (Hcase (ds ++ [12%N] ++ itoa (- l + m)) (ds ++ [] ++ exp_chars (Some (true, itoa (- l + m))))
                 (dv 0 (ds ++ [])) (Z.of_nat (length (@nil N))) (exp_value (Some (true, itoa (- l + m))))).
    - apply Forall_app; split; [exact Hv|]. constructor; [right; right; right; left; reflexivity|apply digits_valid; exact I1].
    - rewrite chars_of_app, chars_of_digits by exact Hd. cbn [app exp_chars]. f_equal.
      change (12%N :: itoa (- l + m)) with ([12%N] ++ itoa (- l + m)). rewrite chars_of_app, (chars_of_digits _ I1). reflexivity.
    - intros c r E. exact (Hhd_digit ds c r _ Hd Hne E).
    - apply (body_shape ds [] false).
      + exact Hd.
      + constructor.
      + intros _; reflexivity.
      + cbn [length]. lia.
      + split; assumption.
    - rewrite app_nil_r. cbn [exp_value length]. rewrite I2.
      replace (- (- l + m) - Z.of_nat 0) with (l - m) by lia. apply dec_equiv_same. }
Qed.

(* every byte of the layout is a byte: nibbles are below 16 *)
Lemma pack_nibbles_bytes n : forall nibs,
  (length nibs <= n)%nat -> Forall (fun x => (x < 16)%N) nibs ->
  Forall (fun b => (b < 256)%N) (pack_nibbles nibs).
Proof.
  induction n as [|n IH]; intros nibs Hl Hv.
  - destruct nibs; [|cbn [length] in Hl; lia]. cbn. repeat constructor.
  - destruct nibs as [|a [|b r]]; cbn [pack_nibbles].
    + repeat constructor.
    + inversion Hv; subst. repeat constructor. lia.
    + inversion Hv as [|? ? Ha Hv']; subst. inversion Hv' as [|? ? Hb Hr]; subst.
      constructor; [lia|]. apply IH; [cbn [length] in Hl; lia|exact Hr].
Qed.

Lemma valid_lt16 nibs : Forall valid_nib nibs -> Forall (fun x => (x < 16)%N) nibs.
Proof. apply Forall_impl. intros a H. destruct (valid_nib_step a H) as [_ L]. exact L. Qed.

Lemma real_nibbles_valid neg ds l : Forall digit ds -> Forall valid_nib (M_real_nibbles neg ds l).
Proof.
  intros Hd. pose proof (digits_valid ds Hd) as Hv.
  assert (Hs : Forall valid_nib (if neg then [14%N] else [])).
  { destruct neg; constructor; [right; right; right; right; reflexivity|constructor]. }
  assert (H0 : valid_nib 0%N) by (left; lia).
  assert (Ha : valid_nib 10%N) by (right; left; reflexivity).
  assert (Hb : valid_nib 11%N) by (right; right; left; reflexivity).
  assert (Hc : valid_nib 12%N) by (right; right; right; left; reflexivity).
  assert (Hit : forall x, Forall valid_nib (itoa x)).
  { intros x. destruct (Z.ltb_spec 0 x) as [Hx|Hx].
    - apply digits_valid. apply itoa_spec. exact Hx.
    - unfold itoa. cbn [itoa_fuel]. destruct (Z.leb_spec x 0); [constructor|lia]. }
  destruct (firstn_skipn_digits ds (Z.to_nat l) Hd) as [Hf Hsk].
  unfold M_real_nibbles.
  repeat match goal with |- context [if ?c then _ else _] =>
    match c with neg => fail 1 | _ => destruct c end end;
  repeat (apply Forall_app; split); try assumption; try (apply digits_valid; assumption);
  repeat (first [assumption | apply Hit | apply Forall_nil | apply Forall_cons]).
Qed.

Lemma real_layout_bytes_ok neg ds l : Forall digit ds ->
  Forall (fun b => (b < 256)%N) (M_real_layout neg ds l).
Proof.
  intros Hd. unfold M_real_layout.
  apply (pack_nibbles_bytes (length (M_real_nibbles neg ds l))); [lia|].
  apply valid_lt16. apply real_nibbles_valid. exact Hd.
Qed.
