(* C13/Proofs_charset.v — charset: every format chosen by encodeCharset is
   read back by readCharset; the reader is total. *)
From Coq Require Import List NArith ZArith Bool Arith Lia.
From Coq Require Import ZifyBool ZifyNat ZifyN.
From Common Require Import Bytes Outcome.
From C13 Require Import Model Util ModelTables.
Import ListNotations.
Ltac Zify.zify_post_hook ::= Z.div_mod_to_equations.
Local Open Scope N_scope.

(* ---------- runs at the level of N ---------- *)

Fixpoint runsN_from (first prev len : N) (l : list N) : list (N * N) :=
  match l with
  | [] => [(first, len)]
  | x :: r =>
    if x =? prev + 1 then runsN_from first x (len + 1) r
    else (first, len) :: runsN_from x x 1 r
  end.

Definition runsN (ns : list N) : list (N * N) :=
  match ns with [] => [(0, 0)] | x :: r => runsN_from x x 1 r end.

Definition zrun (p : N * N) : Z * N := (Z.of_N (fst p), snd p).

Definition small (x : N) : Prop := x < 65536.

Lemma wrap_i32_small z : (-2147483648 <= z < 2147483648)%Z -> wrap_i32 z = z.
Proof. unfold wrap_i32. lia. Qed.

Lemma runs_from_N l : forall first prev len,
  Forall small l -> small prev ->
  runs_from (Z.of_N first) (Z.of_N prev) len (map Z.of_N l) = map zrun (runsN_from first prev len l).
Proof.
  induction l as [|x r IH]; intros first prev len Hl Hp; cbn [map runs_from runsN_from].
  - reflexivity.
  - inversion Hl as [|? ? Hx Hr]; subst. unfold small in *.
    rewrite wrap_i32_small by lia.
    destruct (N.eqb_spec x (prev + 1)) as [E|E]; destruct (Z.eqb_spec (Z.of_N x) (Z.of_N prev + 1)) as [E'|E']; try lia.
    + apply IH; assumption.
    + cbn [map]. f_equal. apply IH; assumption.
Qed.

Lemma M_runs_N ns : Forall small ns -> M_runs (map Z.of_N ns) = map zrun (runsN ns).
Proof.
  destruct ns as [|x r]; intros H; cbn [map M_runs runsN]; [reflexivity|].
  inversion H; subst. apply runs_from_N; assumption.
Qed.

Definition expandN (rs : list (N * N)) : list N :=
  concat (map (fun p => seqN (fst p) (N.to_nat (snd p))) rs).

Lemma seqN_snoc first k : seqN first (S k) = seqN first k ++ [first + N.of_nat k].
Proof.
  revert first; induction k as [|k IH]; intros first.
  - cbn [seqN app N.of_nat]. rewrite N.add_0_r. reflexivity.
  - change (seqN first (S (S k))) with (first :: seqN (first + 1) (S k)).
    rewrite IH. cbn [seqN app]. do 3 f_equal. lia.
Qed.

Lemma seqN_length first k : length (seqN first k) = k.
Proof. revert first; induction k as [|k IH]; intros; cbn [seqN length]; [reflexivity|now rewrite IH]. Qed.

Lemma seqN_app first a b : seqN first (a + b) = seqN first a ++ seqN (first + N.of_nat a) b.
Proof.
  revert first; induction a as [|a IH]; intros first; cbn [seqN plus app].
  - f_equal. lia.
  - f_equal. rewrite IH. do 2 f_equal. lia.
Qed.

(* every run is non-empty, stays below 65536, and the runs spell the list *)
Definition run_ok (p : N * N) : Prop := 1 <= snd p /\ fst p + snd p <= 65536.

Lemma runsN_from_spec l : forall first prev len,
  Forall small l -> prev + 1 = first + len -> 1 <= len -> prev < 65536 ->
  expandN (runsN_from first prev len l) = seqN first (N.to_nat len) ++ l /\
  Forall run_ok (runsN_from first prev len l).
Proof.
  induction l as [|x r IH]; intros first prev len Hl Hp Hlen Hprev; cbn [runsN_from].
  - unfold expandN. cbn [map concat fst snd]. rewrite !app_nil_r. split; [reflexivity|].
    constructor; [|constructor]. unfold run_ok; cbn [fst snd]. lia.
  - inversion Hl as [|? ? Hx Hr]; subst. unfold small in Hx.
    destruct (N.eqb_spec x (prev + 1)) as [E|E].
    + destruct (IH first x (len + 1) Hr ltac:(lia) ltac:(lia) Hx) as [H1 H2].
      split; [|exact H2]. rewrite H1.
      replace (N.to_nat (len + 1)) with (S (N.to_nat len)) by lia.
      rewrite seqN_snoc, <- app_assoc. cbn [app]. do 3 f_equal. lia.
    + destruct (IH x x 1 Hr ltac:(lia) ltac:(lia) Hx) as [H1 H2].
      split.
      * unfold expandN in *. cbn [map concat fst snd]. rewrite H1. reflexivity.
      * constructor; [|exact H2]. unfold run_ok; cbn [fst snd]. lia.
Qed.

Lemma runsN_spec ns : ns <> [] -> Forall small ns ->
  expandN (runsN ns) = ns /\ Forall run_ok (runsN ns).
Proof.
  destruct ns as [|x r]; [congruence|]. intros _ H. inversion H as [|? ? Hx Hr]; subst.
  unfold runsN. destruct (runsN_from_spec r x x 1 Hr ltac:(lia) ltac:(lia) Hx) as [H1 H2].
  split; [|exact H2]. rewrite H1. reflexivity.
Qed.

(* ---------- the range reader ---------- *)

Definition Reads (wide : bool) (need : N) (inp : list N) (L T : list N) : Prop :=
  forall F, need <= N.of_nat F -> read_ranges F wide need inp = Ok (L, T).

Lemma reads_nil wide inp : Reads wide 0 inp [] inp.
Proof. intros F _. destruct F; reflexivity. Qed.

Lemma zhi_lo x : x < 65536 -> zhi8 (Z.of_N x) * 256 + zlo8 (Z.of_N x) = x.
Proof. intros H. unfold zhi8, zlo8. lia. Qed.

Lemma nhi_lo x : x < 65536 -> nhi8 x * 256 + nlo8 x = x.
Proof. intros H. unfold nhi8, nlo8. lia. Qed.

Lemma reads_range1 first nLeft need rest L T :
  first + nLeft <= 65535 -> nLeft < 256 -> nLeft + 1 <= need ->
  Reads false (need - (nLeft + 1)) rest L T ->
  Reads false need ([zhi8 (Z.of_N first); zlo8 (Z.of_N first); nLeft] ++ rest)
        (seqN first (N.to_nat (nLeft + 1)) ++ L) T.
Proof.
  intros H1 H2 H3 HR F HF.
  destruct F as [|F]; [lia|]. cbn [read_ranges].
  destruct (N.eqb_spec need 0); [lia|].
  cbn [app rd_u16 rd_u8]. rewrite zhi_lo by lia.
  destruct (N.ltb_spec 65535 (first + nLeft)); [lia|].
  destruct (N.ltb_spec need (nLeft + 1)); [lia|].
  rewrite HR by lia. reflexivity.
Qed.

Lemma reads_range2 first nLeft need rest L T :
  first + nLeft <= 65535 -> nLeft + 1 <= need ->
  Reads true (need - (nLeft + 1)) rest L T ->
  Reads true need ([zhi8 (Z.of_N first); zlo8 (Z.of_N first); nhi8 nLeft; nlo8 nLeft] ++ rest)
        (seqN first (N.to_nat (nLeft + 1)) ++ L) T.
Proof.
  intros H1 H3 HR F HF.
  destruct F as [|F]; [lia|]. cbn [read_ranges].
  destruct (N.eqb_spec need 0); [lia|].
  cbn [app rd_u16 rd_u8]. rewrite zhi_lo by lia. rewrite nhi_lo by lia.
  destruct (N.ltb_spec 65535 (first + nLeft)); [lia|].
  destruct (N.ltb_spec need (nLeft + 1)); [lia|].
  rewrite HR by lia. reflexivity.
Qed.

(* one run of format 1, cut into chunks of at most 256 *)
Lemma reads_fmt1_run fu : forall first len need rest L T,
  1 <= len -> first + len <= 65536 -> len <= need ->
  len / 256 < N.of_nat fu ->
  Reads false (need - len) rest L T ->
  Reads false need (fmt1_run fu (Z.of_N first) len ++ rest)
        (seqN first (N.to_nat len) ++ L) T.
Proof.
  induction fu as [|fu IH]; intros first len need rest L T H1 H2 H3 Hfu HR; [lia|].
  cbn [fmt1_run]. destruct (N.eqb_spec len 0); [lia|].
  destruct (N.ltb_spec 256 len) as [Hbig|Hsmall].
  - (* a full chunk of 256, more to come *)
    rewrite wrap_i32_small by lia.
    change (Z.of_N first + Z.of_N 256)%Z with (Z.of_N first + 256)%Z.
    replace (Z.of_N first + 256)%Z with (Z.of_N (first + 256)) by lia.
    rewrite <- app_assoc.
    replace (N.to_nat len) with (N.to_nat (255 + 1) + N.to_nat (len - 256))%nat by lia.
    rewrite seqN_app, <- app_assoc.
    change (nlo8 (256 - 1)) with 255.
    apply reads_range1; try lia.
    replace (first + N.of_nat (N.to_nat (255 + 1))) with (first + 256) by lia.
    replace (need - (255 + 1)) with (need - 256) by lia.
    apply IH; try lia.
    replace (need - 256 - (len - 256)) with (need - len) by lia. exact HR.
  - (* the last chunk *)
    replace (len - len) with 0 by lia.
    assert (Hnil : forall fu' z, fmt1_run fu' z 0 = []) by (intros [|fu'] z; reflexivity).
    rewrite Hnil, app_nil_r.
    replace (nlo8 (len - 1)) with (len - 1) by (unfold nlo8; lia).
    replace (N.to_nat len) with (N.to_nat (len - 1 + 1)) by lia.
    apply reads_range1; try lia.
    replace (need - (len - 1 + 1)) with (need - len) by lia. exact HR.
Qed.

Lemma expandN_cons p rs : expandN (p :: rs) = seqN (fst p) (N.to_nat (snd p)) ++ expandN rs.
Proof. reflexivity. Qed.

Lemma lenN_seqN first k : lenN (seqN first k) = N.of_nat k.
Proof. rewrite lenN_length, seqN_length. reflexivity. Qed.

Lemma lenN_expandN_cons p rs : lenN (expandN (p :: rs)) = snd p + lenN (expandN rs).
Proof. rewrite expandN_cons, lenN_app, lenN_seqN. lia. Qed.

Lemma reads_fmt1 rs : forall tail,
  Forall run_ok rs ->
  Reads false (lenN (expandN rs))
    (concat (map (fun r => fmt1_run (fmt1_fuel (snd r)) (fst r) (snd r)) (map zrun rs)) ++ tail)
    (expandN rs) tail.
Proof.
  induction rs as [|p rs IH]; intros tail H.
  - cbn. apply reads_nil.
  - inversion H as [|? ? Hp Hrs]; subst. destruct Hp as [Hp1 Hp2].
    cbn [map concat]. rewrite <- app_assoc. rewrite lenN_expandN_cons, expandN_cons.
    unfold zrun at 1 2 3. cbn [fst snd].
    apply reads_fmt1_run; try lia.
    + unfold fmt1_fuel. lia.
    + replace (snd p + lenN (expandN rs) - snd p) with (lenN (expandN rs)) by lia.
      apply IH; assumption.
Qed.

Lemma reads_fmt2 rs : forall tail,
  Forall run_ok rs ->
  Reads true (lenN (expandN rs))
    (concat (map (fun r => [zhi8 (fst r); zlo8 (fst r); nhi8 (snd r - 1); nlo8 (snd r - 1)])
                 (map zrun rs)) ++ tail)
    (expandN rs) tail.
Proof.
  induction rs as [|p rs IH]; intros tail H.
  - cbn. apply reads_nil.
  - inversion H as [|? ? Hp Hrs]; subst. destruct Hp as [Hp1 Hp2].
    cbn [map concat]. rewrite <- app_assoc. rewrite lenN_expandN_cons, expandN_cons.
    unfold zrun at 1 2 3 4. cbn [fst snd].
    replace (N.to_nat (snd p)) with (N.to_nat (snd p - 1 + 1)) by lia.
    apply reads_range2; try lia.
    replace (snd p + lenN (expandN rs) - (snd p - 1 + 1)) with (lenN (expandN rs)) by lia.
    apply IH; assumption.
Qed.

(* format 0 *)
Lemma rd_u16s_fmt0 ns : forall tail,
  Forall small ns ->
  rd_u16s (length ns) (concat (map (fun x => [zhi8 x; zlo8 x]) (map Z.of_N ns)) ++ tail)
  = Some (ns, tail).
Proof.
  induction ns as [|x r IH]; intros tail H; cbn [length map concat rd_u16s app].
  - reflexivity.
  - inversion H as [|? ? Hx Hr]; subst. unfold small in Hx.
    cbn [rd_u16]. rewrite zhi_lo by exact Hx. rewrite IH by exact Hr. reflexivity.
Qed.

Lemma existsb_small ns : Forall small ns ->
  existsb (fun x => (x <? 0)%Z || (65535 <? x)%Z) (map Z.of_N ns) = false.
Proof.
  induction ns as [|x r IH]; intros H; cbn [map existsb]; [reflexivity|].
  inversion H as [|? ? Hx Hr]; subst. unfold small in Hx. rewrite IH by exact Hr.
  destruct (Z.ltb_spec (Z.of_N x) 0); [lia|]. destruct (Z.ltb_spec 65535 (Z.of_N x)); [lia|].
  reflexivity.
Qed.

Lemma charset_roundtrip_gen ns :
  Forall small ns -> lenN ns < 65535 ->
  exists bs, M_charset_encode (0%Z :: map Z.of_N ns) = Ok bs /\
    forall tail, M_charset_read (Z.of_nat (S (length ns))) (bs ++ tail) = Ok (0 :: ns, tail).
Proof.
  intros Hs Hl. rewrite lenN_length in Hl. unfold M_charset_encode. cbn [Z.eqb negb].
  rewrite existsb_small by exact Hs.
  assert (Hn : Z.to_N (Z.of_nat (S (length ns))) - 1 = lenN ns) by (rewrite lenN_length; lia).
  assert (Hguard : ((Z.of_nat (S (length ns)) <? 1) || (65536 <=? Z.of_nat (S (length ns))))%Z = false).
  { destruct (Z.ltb_spec (Z.of_nat (S (length ns))) 1); [lia|].
    destruct (Z.leb_spec 65536 (Z.of_nat (S (length ns)))); [lia|]. reflexivity. }
  destruct (cs_format (map Z.of_N ns)) as [|[p|p|]] eqn:F.
  - (* format 0 *)
    eexists; split; [reflexivity|]. intros tail. unfold M_charset_read. rewrite Hguard.
    cbn [app rd_u8]. cbn [N.eqb]. rewrite Hn.
    replace (N.to_nat (lenN ns)) with (length ns) by (rewrite lenN_length; lia).
    rewrite rd_u16s_fmt0 by exact Hs. reflexivity.
  - (* format 2 (the default branch of the format switch) *)
    destruct ns as [|x r]; [vm_compute in F; discriminate|].
    destruct (runsN_spec (x :: r) ltac:(congruence) Hs) as [He Hok].
    rewrite M_runs_N by exact Hs.
    eexists; split; [reflexivity|]. intros tail. unfold M_charset_read. rewrite Hguard.
    cbn [app rd_u8]. cbn [N.eqb Pos.eqb]. rewrite Hn.
    pose proof (reads_fmt2 (runsN (x :: r)) tail Hok) as HR. rewrite He in HR.
    rewrite HR by (rewrite lenN_length; lia). reflexivity.
  - destruct ns as [|x r]; [vm_compute in F; discriminate|].
    destruct (runsN_spec (x :: r) ltac:(congruence) Hs) as [He Hok].
    rewrite M_runs_N by exact Hs.
    eexists; split; [reflexivity|]. intros tail. unfold M_charset_read. rewrite Hguard.
    cbn [app rd_u8]. cbn [N.eqb Pos.eqb]. rewrite Hn.
    pose proof (reads_fmt2 (runsN (x :: r)) tail Hok) as HR. rewrite He in HR.
    rewrite HR by (rewrite lenN_length; lia). reflexivity.
  - (* format 1 *)
    destruct ns as [|x r]; [vm_compute in F; discriminate|].
    destruct (runsN_spec (x :: r) ltac:(congruence) Hs) as [He Hok].
    rewrite M_runs_N by exact Hs.
    eexists; split; [reflexivity|]. intros tail. unfold M_charset_read. rewrite Hguard.
    cbn [app rd_u8]. cbn [N.eqb Pos.eqb]. rewrite Hn.
    pose proof (reads_fmt1 (runsN (x :: r)) tail Hok) as HR. rewrite He in HR.
    rewrite HR by (rewrite lenN_length; lia). reflexivity.
Qed.

(* ---------- totality of the reader ---------- *)

Lemma read_ranges_total F : forall wide need inp,
  need <= N.of_nat F ->
  match read_ranges F wide need inp with
  | Ok (l, _) => lenN l = need
  | Err => True
  | Panic | OutOfFuel => False
  end.
Proof.
  induction F as [|F IH]; intros wide need inp H.
  - cbn [read_ranges]. destruct (N.eqb_spec need 0); [subst; reflexivity|lia].
  - cbn [read_ranges]. destruct (N.eqb_spec need 0) as [->|Hn]; [reflexivity|].
    destruct (rd_u16 inp) as [[first r1]|]; [|exact I].
    destruct (if wide then rd_u16 r1 else rd_u8 r1) as [[nLeft r2]|]; [|exact I].
    destruct (N.ltb_spec 65535 (first + nLeft)); [exact I|].
    destruct (N.ltb_spec need (nLeft + 1)); [exact I|].
    specialize (IH wide (need - (nLeft + 1)) r2 ltac:(lia)).
    destruct (read_ranges F wide (need - (nLeft + 1)) r2) as [[l t]| | |]; cbn [obind fst snd]; try assumption.
    rewrite lenN_app, lenN_seqN, IH. lia.
Qed.

Lemma rd_u16s_length k : forall inp l r, rd_u16s k inp = Some (l, r) -> length l = k.
Proof.
  induction k as [|k IH]; intros inp l r; cbn [rd_u16s].
  - intros H; inversion H; reflexivity.
  - destruct (rd_u16 inp) as [[x r1]|]; [|discriminate].
    destruct (rd_u16s k r1) as [[l' r']|] eqn:E; [|discriminate].
    intros H; inversion H; subst. cbn [length]. f_equal. eapply IH; eassumption.
Qed.

Lemma charset_read_total_gen nGlyphs inp :
  match M_charset_read nGlyphs inp with
  | Ok (l, _) => Z.of_N (lenN l) = nGlyphs /\ (1 <= nGlyphs < 65536)%Z
  | Err => True
  | Panic | OutOfFuel => False
  end.
Proof.
  unfold M_charset_read.
  destruct (Z.ltb_spec nGlyphs 1); cbn [orb]; [exact I|].
  destruct (Z.leb_spec 65536 nGlyphs); [exact I|].
  destruct (rd_u8 inp) as [[format r]|]; [|exact I].
  destruct (format =? 0).
  - destruct (rd_u16s (N.to_nat (Z.to_N nGlyphs - 1)) r) as [[l r']|] eqn:E; [|exact I].
    apply rd_u16s_length in E. cbn [lenN]. rewrite lenN_length. lia.
  - destruct (format =? 1).
    + pose proof (read_ranges_total (N.to_nat (Z.to_N nGlyphs)) false (Z.to_N nGlyphs - 1) r ltac:(lia)) as T.
      destruct (read_ranges (N.to_nat (Z.to_N nGlyphs)) false (Z.to_N nGlyphs - 1) r) as [[l t]| | |];
        cbn [obind fst snd]; try assumption. cbn [lenN]. lia.
    + destruct (format =? 2); [|exact I].
      pose proof (read_ranges_total (N.to_nat (Z.to_N nGlyphs)) true (Z.to_N nGlyphs - 1) r ltac:(lia)) as T.
      destruct (read_ranges (N.to_nat (Z.to_N nGlyphs)) true (Z.to_N nGlyphs - 1) r) as [[l t]| | |];
        cbn [obind fst snd]; try assumption. cbn [lenN]. lia.
Qed.

(* ---------- the selection rule picks a shortest format ---------- *)

Lemma lenN_concat_const {A} (f : A -> list N) (k : N) l :
  (forall x, In x l -> lenN (f x) = k) -> lenN (concat (map f l)) = k * lenN l.
Proof.
  induction l as [|x l IH]; intros H; cbn [map concat lenN]; [lia|].
  rewrite lenN_app, (H x ltac:(left; reflexivity)), IH by (intros y Hy; apply H; right; exact Hy). lia.
Qed.

Lemma lenN_fmt1_run fu : forall name len,
  1 <= len -> len / 256 < N.of_nat fu ->
  lenN (fmt1_run fu name len) = 3 * (1 + extra_chunks len).
Proof.
  induction fu as [|fu IH]; intros name len H1 Hfu; [lia|].
  cbn [fmt1_run]. destruct (N.eqb_spec len 0); [lia|].
  destruct (N.ltb_spec 256 len) as [Hb|Hs].
  - cbn [app lenN]. rewrite IH by lia. unfold extra_chunks. lia.
  - replace (len - len) with 0 by lia.
    assert (Hnil : forall fu' z, fmt1_run fu' z 0 = []) by (intros [|fu'] z; reflexivity).
    rewrite Hnil. cbn [app lenN]. unfold extra_chunks. lia.
Qed.

Lemma lenN_fmt1 rs : Forall run_ok rs ->
  lenN (concat (map (fun r => fmt1_run (fmt1_fuel (snd r)) (fst r) (snd r)) (map zrun rs)))
  = 3 * lenN rs + 3 * sumN (map (fun r => extra_chunks (snd r)) (map zrun rs)).
Proof.
  induction 1 as [|p rs Hp Hrs IH]; [reflexivity|].
  cbn [map concat lenN sumN]. rewrite lenN_app, IH. destruct Hp as [Hp1 Hp2].
  change (snd (zrun p)) with (snd p). change (fst (zrun p)) with (Z.of_N (fst p)).
  rewrite lenN_fmt1_run by (unfold fmt1_fuel; lia). lia.
Qed.

Lemma charset_format_shortest_gen ns bs :
  Forall small ns ->
  M_charset_encode (0%Z :: map Z.of_N ns) = Ok bs ->
  let names := map Z.of_N ns in
  let l0 := cs_length0 names in
  let l1 := cs_length1 (M_runs names) in
  let l2 := cs_length2 (M_runs names) in
  lenN bs = N.min l0 (N.min l1 l2) /\
  (nth 0 bs 0 = 0 -> lenN bs = l0) /\ (nth 0 bs 0 = 1 -> lenN bs = l1) /\ (nth 0 bs 0 = 2 -> lenN bs = l2).
Proof.
  intros Hs. unfold M_charset_encode. cbn [Z.eqb negb]. rewrite existsb_small by exact Hs.
  cbn zeta. unfold cs_format.
  set (names := map Z.of_N ns).
  set (l0 := cs_length0 names). set (l1 := cs_length1 (M_runs names)). set (l2 := cs_length2 (M_runs names)).
  assert (H0 : lenN (0 :: concat (map (fun x => [zhi8 x; zlo8 x]) names)) = l0).
  { cbn [lenN]. rewrite (lenN_concat_const _ 2) by (intros; reflexivity). unfold l0, cs_length0. lia. }
  destruct ns as [|x r].
  - (* no names besides .notdef: format 0 *)
    cbn in *. intros H; inversion H; subst. cbn. repeat split; try lia; try discriminate.
  - destruct (runsN_spec (x :: r) ltac:(congruence) Hs) as [He Hok].
    assert (Hr : M_runs names = map zrun (runsN (x :: r))) by (unfold names; apply M_runs_N; exact Hs).
    assert (H1 : lenN (1 :: concat (map (fun r0 => fmt1_run (fmt1_fuel (snd r0)) (fst r0) (snd r0)) (M_runs names))) = l1).
    { cbn [lenN]. rewrite Hr, lenN_fmt1 by exact Hok. unfold l1, cs_length1. rewrite Hr, lenN_map. lia. }
    assert (H2 : lenN (2 :: concat (map (fun r0 => [zhi8 (fst r0); zlo8 (fst r0); nhi8 (snd r0 - 1); nlo8 (snd r0 - 1)]) (M_runs names))) = l2).
    { cbn [lenN]. rewrite (lenN_concat_const _ 4) by (intros; reflexivity). unfold l2, cs_length2. lia. }
    assert (Fin : forall k body lk, lenN (k :: body) = lk -> lk = N.min l0 (N.min l1 l2) ->
              (k = 0 -> lk = l0) -> (k = 1 -> lk = l1) -> (k = 2 -> lk = l2) ->
              Ok (k :: body) = Ok bs ->
              lenN bs = N.min l0 (N.min l1 l2) /\
              (nth 0 bs 0 = 0 -> lenN bs = l0) /\ (nth 0 bs 0 = 1 -> lenN bs = l1) /\ (nth 0 bs 0 = 2 -> lenN bs = l2)).
    { intros k body lk Hk Hmin K0 K1 K2 Henc. inversion Henc; subst bs. rewrite Hk. cbn [nth].
      split; [exact Hmin|]. split; [exact K0|]. split; [exact K1|exact K2]. }
    destruct (N.leb_spec l0 l1) as [A|A], (N.leb_spec l0 l2) as [B|B]; cbn [andb].
    + apply (Fin 0 _ l0 H0); intros; lia.
    + destruct (N.ltb_spec l1 l2) as [C|C]; [apply (Fin 1 _ l1 H1); intros; lia|apply (Fin 2 _ l2 H2); intros; lia].
    + destruct (N.ltb_spec l1 l2) as [C|C]; [apply (Fin 1 _ l1 H1); intros; lia|apply (Fin 2 _ l2 H2); intros; lia].
    + destruct (N.ltb_spec l1 l2) as [C|C]; [apply (Fin 1 _ l1 H1); intros; lia|apply (Fin 2 _ l2 H2); intros; lia].
Qed.
