(* C13/Util.v — lemmas about the N-counted list helpers of Model.v. *)
From Coq Require Import List NArith ZArith Bool Arith Lia.
From Coq Require Import ZifyBool ZifyNat ZifyN.
From Common Require Import Bytes Outcome.
From C13 Require Import Model.
Import ListNotations.
Local Open Scope N_scope.

Lemma lenN_length {A} (l : list A) : lenN l = N.of_nat (length l).
Proof.
  induction l as [|x l IH]; cbn [lenN length]; [reflexivity|]. rewrite IH. lia.
Qed.

Lemma lenN_app {A} (a b : list A) : lenN (a ++ b) = lenN a + lenN b.
Proof. rewrite !lenN_length, app_length. lia. Qed.

Lemma lenN_cons {A} (x : A) l : lenN (x :: l) = 1 + lenN l.
Proof. cbn [lenN]. lia. Qed.

Lemma lenN_nil {A} : lenN (@nil A) = 0.
Proof. reflexivity. Qed.

Lemma lenN_map {A B} (f : A -> B) l : lenN (map f l) = lenN l.
Proof. rewrite !lenN_length, map_length. reflexivity. Qed.

Lemma lenN_zero {A} (l : list A) : lenN l = 0 -> l = [].
Proof. destruct l; cbn [lenN]; [reflexivity|lia]. Qed.

Lemma sumN_app a b : sumN (a ++ b) = sumN a + sumN b.
Proof. induction a as [|x a IH]; cbn [sumN app]; lia. Qed.

Lemma lenN_concat {A} (ls : list (list A)) : lenN (concat ls) = sumN (map lenN ls).
Proof.
  induction ls as [|l ls IH]; cbn [concat map sumN]; [reflexivity|].
  rewrite lenN_app, IH. reflexivity.
Qed.

(* ---- splitN ---- *)

Lemma splitN_zero {A} (l : list A) : splitN l 0 = Some ([], l).
Proof. destruct l; reflexivity. Qed.

Lemma splitN_app {A} (a b : list A) : splitN (a ++ b) (lenN a) = Some (a, b).
Proof.
  induction a as [|x a IH]; cbn [app lenN].
  - apply splitN_zero.
  - cbn [splitN]. destruct (N.eqb_spec (N.succ (lenN a)) 0) as [E|_]; [lia|].
    rewrite N.pred_succ, IH. reflexivity.
Qed.

Lemma splitN_inv {A} (l : list A) n a b :
  splitN l n = Some (a, b) -> l = a ++ b /\ lenN a = n.
Proof.
  revert n a b; induction l as [|x l IH]; intros n a b; cbn [splitN].
  - destruct (N.eqb_spec n 0); intros H; inversion H; subst. split; reflexivity.
  - destruct (N.eqb_spec n 0) as [E|E].
    + intros H; inversion H; subst. split; reflexivity.
    + destruct (splitN l (N.pred n)) as [[a' b']|] eqn:S; intros H; inversion H; subst.
      destruct (IH _ _ _ S) as [-> L]. split; [reflexivity|]. cbn [lenN]. lia.
Qed.

Lemma splitN_some {A} (l : list A) n :
  n <= lenN l -> splitN l n = Some (takeN l n, dropN l n).
Proof.
  revert n; induction l as [|x l IH]; intros n; cbn [splitN takeN dropN lenN].
  - intros H. destruct (N.eqb_spec n 0); [reflexivity|lia].
  - intros H. destruct (N.eqb_spec n 0); [reflexivity|].
    rewrite IH by lia. reflexivity.
Qed.

Lemma splitN_none {A} (l : list A) n : lenN l < n -> splitN l n = None.
Proof.
  revert n; induction l as [|x l IH]; intros n; cbn [splitN lenN].
  - intros H. destruct (N.eqb_spec n 0); [lia|reflexivity].
  - intros H. destruct (N.eqb_spec n 0); [lia|]. rewrite IH by lia. reflexivity.
Qed.

(* ---- takeN / dropN ---- *)

Lemma takeN_zero {A} (l : list A) : takeN l 0 = [].
Proof. destruct l; reflexivity. Qed.

Lemma dropN_zero {A} (l : list A) : dropN l 0 = l.
Proof. destruct l; reflexivity. Qed.

Lemma takeN_app {A} (a b : list A) : takeN (a ++ b) (lenN a) = a.
Proof.
  generalize (splitN_app a b). rewrite splitN_some by (rewrite lenN_app; lia).
  intros H; inversion H. rewrite H1. congruence.
Qed.

Lemma dropN_app {A} (a b : list A) : dropN (a ++ b) (lenN a) = b.
Proof.
  generalize (splitN_app a b). rewrite splitN_some by (rewrite lenN_app; lia).
  intros H; inversion H. rewrite H2. congruence.
Qed.

Lemma take_drop_eq {A} (l : list A) n : takeN l n ++ dropN l n = l.
Proof.
  revert n; induction l as [|x l IH]; intros n; cbn [takeN dropN]; [reflexivity|].
  destruct (N.eqb_spec n 0); [reflexivity|]. cbn [app]. rewrite IH. reflexivity.
Qed.

Lemma lenN_takeN {A} (l : list A) n : n <= lenN l -> lenN (takeN l n) = n.
Proof.
  intros H. generalize (splitN_some l n H). intros S.
  apply splitN_inv in S. tauto.
Qed.

Lemma lenN_dropN {A} (l : list A) n : n <= lenN l -> lenN (dropN l n) = lenN l - n.
Proof.
  intros H. generalize (lenN_takeN l n H). intros T.
  generalize (f_equal lenN (take_drop_eq l n)). rewrite lenN_app. lia.
Qed.

Lemma dropN_dropN {A} (l : list A) a b : dropN (dropN l a) b = dropN l (a + b).
Proof.
  revert a; induction l as [|x l IH]; intros a; cbn [dropN].
  - destruct (a =? 0); reflexivity.
  - destruct (N.eqb_spec a 0) as [->|Ea].
    + rewrite N.add_0_l. reflexivity.
    + destruct (N.eqb_spec (a + b) 0); [lia|].
      rewrite IH. f_equal. lia.
Qed.

Lemma dropN_all {A} (l : list A) n : lenN l <= n -> dropN l n = [].
Proof.
  revert n; induction l as [|x l IH]; intros n; cbn [dropN lenN]; [reflexivity|].
  intros H. destruct (N.eqb_spec n 0); [lia|]. apply IH. lia.
Qed.

(* ---- lastN ---- *)

Lemma lastN_app d a x : lastN d (a ++ [x]) = x.
Proof. revert d; induction a as [|y a IH]; intros d; cbn [lastN app]; [reflexivity|apply IH]. Qed.
