(* C02B/Proofs_readers.v — the subtable readers never panic and never run out
   of fuel: the readers of C08's subtable formats (proved here; C08 states
   their round trips only) and the composition over the regenerated dispatch
   from the _read_total theorems of C08B and C08C. *)
From Coq Require Import List NArith ZArith Bool Lia.
From Common Require Import Bytes Outcome.
From Gen Require Import C02 C08 C08D.
From C08 Require Import Model ModelCD ModelSub ModelSub2.
From C08B Require Import Model Model2 Model3.
From C08B Require Proofs_total.
From C08C Require Import ModelCtx ModelChain Util Proofs_seq Proofs_chain Proofs_cov3.
From C08D Require Import Model Spec Tie.
Import ListNotations.
Local Open Scope N_scope.

(* the two developments define the same predicate *)
Lemma safe_B {A} (x : outcome A) : Proofs_total.safe x -> safe x.
Proof. exact (fun H => H). Qed.

Lemma vr_read_safe fmt r : safe (M_vr_read fmt r).
Proof. apply safe_B, Proofs_total.vr_read_safe. Qed.

(* ---- GSUB 1.1, 1.2 ---- *)

Lemma gsub11_read_safe data pos : safe (M_gsub11_read data pos).
Proof.
  unfold M_gsub11_read. destruct (seek data (pos + 2)) as [|a [|b [|c [|d r]]]]; try apply safe_err.
  apply safe_bind; [apply covset_read_safe|intros; apply safe_ok].
Qed.

Lemma gsub12_read_safe data pos : safe (M_gsub12_read data pos).
Proof.
  unfold M_gsub12_read. destruct (seek data (pos + 2)) as [|a [|b r]]; try apply safe_err.
  apply safe_bind; [apply rd_slice_safe|intros x _].
  apply safe_bind; [apply cov_read_safe|intros; apply safe_ok].
Qed.

(* ---- GSUB 2.1 / 3.1 ---- *)

Lemma rd_seqs_safe data pos offs : safe (rd_seqs data pos offs).
Proof.
  induction offs as [|o r IH]; cbn [rd_seqs]; [apply safe_ok|].
  apply safe_bind; [apply rd_slice_safe|intros x _].
  apply safe_bind; [exact IH|intros; apply safe_ok].
Qed.

Lemma gsubseq_read_safe data pos : safe (M_gsubseq_read data pos).
Proof.
  unfold M_gsubseq_read. destruct (seek data (pos + 2)) as [|a [|b r]]; try apply safe_err.
  apply safe_bind; [apply rd_slice_safe|intros x _].
  apply safe_bind; [apply cov_read_safe|intros cov _]. cbv zeta.
  apply safe_bind; [apply rd_seqs_safe|intros; apply safe_ok].
Qed.

(* ---- GSUB 4.1 ---- *)

Lemma rd_lig_safe r : safe (rd_lig r).
Proof.
  unfold rd_lig. destruct r as [|a [|b [|c [|d r']]]]; try apply safe_err.
  apply safe_bind; [apply rd_u16s_safe|intros; apply safe_ok].
Qed.

Lemma rd_ligs_safe data setPos offs : safe (ModelSub.rd_ligs data setPos offs).
Proof.
  induction offs as [|o r IH]; cbn [ModelSub.rd_ligs]; [apply safe_ok|].
  apply safe_bind; [apply rd_lig_safe|intros l _].
  apply safe_bind; [exact IH|intros; apply safe_ok].
Qed.

Lemma rd_sets_safe data pos offs : safe (ModelSub.rd_sets data pos offs).
Proof.
  induction offs as [|o r IH]; cbn [ModelSub.rd_sets]; [apply safe_ok|].
  apply safe_bind; [apply rd_slice_safe|intros x _].
  apply safe_bind; [apply rd_ligs_safe|intros s _].
  apply safe_bind; [exact IH|intros; apply safe_ok].
Qed.

Lemma gsub41_read_safe data pos : safe (M_gsub41_read data pos).
Proof.
  unfold M_gsub41_read. destruct (seek data (pos + 2)) as [|a [|b r]]; try apply safe_err.
  apply safe_bind; [apply rd_slice_safe|intros x _].
  apply safe_bind; [apply cov_read_safe|intros cov _]. cbv zeta.
  apply safe_bind; [apply rd_sets_safe|intros sets _].
  apply safe_if; [apply safe_err|apply safe_ok].
Qed.

(* ---- GPOS 1.1, 1.2, 2.1 ---- *)

Lemma gpos11_read_safe data pos : safe (M_gpos11_read data pos).
Proof.
  unfold M_gpos11_read. destruct (seek data (pos + 2)) as [|a [|b [|c [|d r]]]]; try apply safe_err.
  apply safe_bind; [apply vr_read_safe|intros x _].
  apply safe_bind; [apply cov_read_safe|intros; apply safe_ok].
Qed.

Lemma rd_vrs_safe n fmt : forall r, safe (rd_vrs n fmt r).
Proof.
  induction n as [|n IH]; intros r; cbn [rd_vrs]; [apply safe_ok|].
  apply safe_bind; [apply vr_read_safe|intros x _].
  apply safe_bind; [apply IH|intros; apply safe_ok].
Qed.

Lemma gpos12_read_safe data pos : safe (M_gpos12_read data pos).
Proof.
  unfold M_gpos12_read.
  destruct (seek data (pos + 2)) as [|a [|b [|c [|d [|e [|f r]]]]]]; try apply safe_err.
  apply safe_bind; [apply rd_vrs_safe|intros x _].
  apply safe_bind; [apply cov_read_safe|intros; apply safe_ok].
Qed.

Lemma rd_pairs_safe n f1 f2 : forall r acc, safe (rd_pairs n f1 f2 r acc).
Proof.
  induction n as [|n IH]; intros r acc; cbn [rd_pairs]; [apply safe_ok|].
  destruct r as [|a [|b r1]]; try apply safe_err.
  apply safe_bind; [apply vr_read_safe|intros x1 _].
  apply safe_bind; [apply vr_read_safe|intros x2 _]. apply IH.
Qed.

Lemma rd_pairset_safe data p f1 f2 : safe (rd_pairset data p f1 f2).
Proof.
  unfold rd_pairset. destruct (seek data p) as [|a [|b r]]; try apply safe_err. apply rd_pairs_safe.
Qed.

Lemma rd_pairsets_safe data pos f1 f2 offs : safe (rd_pairsets data pos f1 f2 offs).
Proof.
  induction offs as [|o r IH]; cbn [rd_pairsets]; [apply safe_ok|].
  apply safe_bind; [apply rd_pairset_safe|intros s _].
  apply safe_bind; [exact IH|intros; apply safe_ok].
Qed.

Lemma gpos21_read_safe data pos : safe (M_gpos21_read data pos).
Proof.
  unfold M_gpos21_read.
  destruct (seek data (pos + 2)) as [|a [|b [|c [|d [|e [|f [|g [|h r]]]]]]]]; try apply safe_err.
  cbv zeta.
  apply safe_bind; [apply rd_u16s_safe|intros x _].
  apply safe_bind; [apply cov_read_safe|intros cov _].
  apply safe_bind; [apply rd_pairsets_safe|intros; apply safe_ok].
Qed.

(* ---- every reader function ---- *)

Lemma safe_let2 {A B C} (x : A * B) (f : A -> B -> outcome C) :
  (forall a b, safe (f a b)) -> safe (let '(a, b) := x in f a b).
Proof. destruct x. auto. Qed.

Lemma run_reader_safe r data pos : bytes_lt data -> safe (run_reader r data pos).
Proof.
  intros Hb. destruct r; cbn [run_reader].
  - apply safe_bind; [apply gsub11_read_safe|intros; apply safe_ok].
  - apply safe_bind; [apply gsub12_read_safe|intros; apply safe_ok].
  - apply safe_bind; [apply gsubseq_read_safe|intros; apply safe_ok].
  - apply safe_bind; [apply gsubseq_read_safe|intros; apply safe_ok].
  - apply safe_bind; [apply gsub41_read_safe|intros; apply safe_ok].
  - apply safe_bind; [apply gsub81_read_safe|intros [[[inp bk] la] subst] _; apply safe_ok].
  - apply safe_bind; [apply gpos11_read_safe|intros; apply safe_ok].
  - apply safe_bind; [apply gpos12_read_safe|intros; apply safe_ok].
  - apply safe_bind; [apply gpos21_read_safe|intros; apply safe_ok].
  - apply safe_bind; [apply safe_B, Proofs_total.gpos22_read_safe|intros [[[gl cd1] cd2] adj] _; apply safe_ok].
  - apply safe_bind; [apply safe_B, Proofs_total.gpos31_read_safe|intros; apply safe_ok].
  - apply safe_bind; [apply safe_B, Proofs_total.markbase_read_safe|intros [[[mc bc] marks] base] _; apply safe_ok].
  - apply safe_bind; [apply safe_B, Proofs_total.gpos51_read_safe|intros [[[mc lc] marks] ligs] _; apply safe_ok].
  - apply safe_bind; [apply safe_B, Proofs_total.markbase_read_safe|intros [[[mc bc] marks] base] _; apply safe_ok].
  - apply safe_bind; [apply seq1_read_safe|intros; apply safe_ok].
  - apply safe_bind; [apply seq2_read_safe; exact Hb|intros [[cov cls] rules] _; apply safe_ok].
  - apply safe_bind; [apply seq3_read_safe|intros; apply safe_ok].
  - apply safe_bind; [apply ch1_read_safe; exact Hb|intros; apply safe_ok].
  - apply safe_bind; [apply ch2_read_safe; exact Hb|intros [[cov [[cb ci] cl]] rules] _; apply safe_ok].
  - apply safe_bind; [apply ch3_read_safe|intros [[[bk inp] la] acts] _; apply safe_ok].
  - destruct (seek data (pos + 2)) as [|c [|d [|e [|f [|g [|h r]]]]]]; try apply safe_err. apply safe_ok.
Qed.

(* readGsubSubtable / readGposSubtable: the real subtable readers, through the
   dispatch regenerated from the Go source *)
Lemma read_subtable_any_safe t data pos lt : bytes_lt data -> safe (read_subtable_any t data pos lt).
Proof.
  intros Hb. unfold read_subtable_any.
  destruct (seek data pos) as [|a [|b r]]; try apply safe_err.
  rewrite dispatch_spec. cbn [obind].
  destruct (S_dispatch t lt (w16 a b)); [apply run_reader_safe; exact Hb|apply safe_err].
Qed.

Lemma read_subtable_safe t data pos lt : bytes_lt data -> safe (read_subtable t data pos lt).
Proof.
  intros Hb. unfold read_subtable.
  apply safe_bind; [apply read_subtable_any_safe; exact Hb|intros [e o|s] _; [apply safe_err|apply safe_ok]].
Qed.
