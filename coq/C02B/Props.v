(* C02B/Props.v — part C02B of property C02: gtab.Read (GSUB and GPOS) with the
   REAL subtable readers is total.  The property theorems.  Nothing else.

   C02 proves its top-level reader total for any non-panicking subtable reader
   (a parameter); C08D models the real subtable readers over the dispatch
   regenerated from the Go source, from the reader models of C08, C08B and
   C08C.  Here the second is plugged into the first (Model.v: sr_concrete,
   M_gtab_read, M_gtab_decode).  [bytes_lt data]: the input is a byte string
   (every element below 256). *)
From Coq Require Import List NArith ZArith Bool Lia.
From Common Require Import Bytes Outcome.
From Gen Require Import C02 C08 C08D.
From C08 Require Import Model ModelSub ModelFL.
From C02 Require Import Model Proofs.
From C08D Require Import Model Spec.
From C02B Require Import Model Proofs_readers Proofs Proofs_agree Examples.
Import ListNotations.
Local Open Scope N_scope.

(* read_subtable_no_panic: readGsubSubtable / readGposSubtable - the dispatch
   and every one of the 20 subtable readers plus readExtensionSubtable - return
   a subtable or an error on ANY byte string, position and lookup type
   (composed from the _read_total theorems of C08B and C08C and, for the
   formats of C08, proved here) *)
Theorem read_subtable_no_panic :
  forall (t : table) (data : list N) (pos lt : N),
    C08.Model.bytes_lt data ->
    read_subtable_any t data pos lt <> Panic /\ read_subtable_any t data pos lt <> OutOfFuel.
Proof. exact read_subtable_any_safe. Qed.
Print Assumptions read_subtable_no_panic.

(* gtab_read_total_concrete: gtab.Read never panics and never runs out of fuel,
   for GSUB and GPOS, on any byte string *)
Theorem gtab_read_total_concrete :
  forall (t : table) (data : list N),
    C02.Proofs.bytes_lt data ->
    M_gtab_read t data <> Panic /\ M_gtab_read t data <> OutOfFuel.
Proof. exact gtab_read_good. Qed.
Print Assumptions gtab_read_total_concrete.

(* ... and neither does decoding the accepted structure (every subtable slot
   read by its real reader) *)
Theorem gtab_decode_total_concrete :
  forall (t : table) (data : list N),
    C02.Proofs.bytes_lt data ->
    M_gtab_decode t data <> Panic /\ M_gtab_decode t data <> OutOfFuel.
Proof. exact gtab_decode_good. Qed.
Print Assumptions gtab_decode_total_concrete.

(* whatever gtab.Read accepts decodes: every subtable slot of an accepted table
   holds what one of the real readers returned at that position (the decode-once
   cache of readLookupList changes nothing) *)
Theorem gtab_accepted_decodes :
  forall (t : table) (data : list N) (g : gtab),
    M_gtab_read t data = Ok g -> exists ls, M_gtab_decode t data = Ok (g_features g, ls).
Proof. exact gtab_accept_decodes. Qed.
Print Assumptions gtab_accepted_decodes.

(* gtab_read_work_bounded_concrete: what is accepted has at most 6000 lookups
   plus subtables (the regenerated cap), the subtable readers were called at
   most 2 * 6000 times (once per subtable offset, once more per extension
   record; the distinct calls - what the cache lets run - are not more), and
   the feature list is bounded by its 64 KiB guard - whatever offsets alias *)
Theorem gtab_read_work_bounded_concrete :
  forall (t : table) (data : list N) (g : gtab),
    C02.Proofs.bytes_lt data -> M_gtab_read t data = Ok g ->
    lookups_size (g_lookups g) <= gtab_lookupCap /\
    N.of_nat (length (all_calls (g_lookups g))) <= 2 * gtab_lookupCap /\
    distinct_calls (g_lookups g) <= 2 * gtab_lookupCap /\
    (g_features g = [] \/ features_size (g_features g) <= 65535 + 4 + 2 * 65535).
Proof. exact gtab_read_work. Qed.
Print Assumptions gtab_read_work_bounded_concrete.

(* Allocation.  The reader models of C08 / C08B / C08C carry no allocation
   counters; what can be stated is the size of the decoded value
   (subtable_cells: scalar cells, Model.v).  Under the explicit hypothesis that
   no subtable decodes to more than B cells, the decoded lookup list has at
   most 6000 * B cells.  The hypothesis is NOT a theorem: see the two refuted
   statements below (open findings of C02). *)
Theorem gtab_decoded_size_bounded_if :
  forall (t : table) (data : list N) (fs : list C02.Model.feature) (ls : list lookupC) (B : N),
    C02.Proofs.bytes_lt data -> M_gtab_decode t data = Ok (fs, ls) ->
    (forall l s, In l ls -> In s (lc_subs l) -> subtable_cells s <= B) ->
    lookups_cells ls <= gtab_lookupCap * B.
Proof. exact gtab_decoded_cells_if. Qed.
Print Assumptions gtab_decoded_size_bounded_if.

(* no bound of 100 cells per input byte holds for a single subtable: aliased
   sequence offsets in GSUB 2.1 (open finding
   alloc:gtab.Read/GSUB:gsub2_1-aliased-sequences-16000; n offsets to one
   sequence of n glyphs decode to n*n cells from about 4n bytes) *)
Theorem subtable_size_linear_refuted_gsub21 :
  exists (data : list N) (s : subtable),
    C08.Model.bytes_lt data /\ read_subtable GSUB data 0 2 = Ok s /\
    100 * lenN data < subtable_cells s.
Proof.
  destruct w_alias21_quadratic as (Hb & Hl & Hc).
  destruct (read_subtable GSUB (w_alias21 500) 0 2) as [s| | |] eqn:E; try discriminate Hc.
  exists (w_alias21 500), s. split; [|split; [exact E|rewrite Hl, Hc; reflexivity]].
  unfold bytes_ltb in Hb. apply Forall_forall. intros x Hx.
  rewrite forallb_forall in Hb. apply N.ltb_lt. exact (Hb x Hx).
Qed.
Print Assumptions subtable_size_linear_refuted_gsub21.

(* ... nor for SeqContext3 (and ChainedSeqContext3, Gsub8_1): aliased coverage
   offsets (open finding alloc:gtab.Read/GSUB:seq3-aliased-coverage) *)
Theorem subtable_size_linear_refuted_seq3 :
  exists (data : list N) (s : subtable),
    C08.Model.bytes_lt data /\ read_subtable GSUB data 0 5 = Ok s /\
    100 * lenN data < subtable_cells s.
Proof.
  destruct w_alias_seq3_amplified as (Hb & Hl & Hc).
  destruct (read_subtable GSUB (w_alias_seq3 200) 0 5) as [s| | |] eqn:E; try discriminate Hc.
  exists (w_alias_seq3 200), s. split; [|split; [exact E|rewrite Hl, Hc; reflexivity]].
  unfold bytes_ltb in Hb. apply Forall_forall. intros x Hx.
  rewrite forallb_forall in Hb. apply N.ltb_lt. exact (Hb x Hx).
Qed.
Print Assumptions subtable_size_linear_refuted_seq3.

(* ... nor for the pair sets of GPOS 2.1 (n pair set offsets to one pair set of
   n pairs; the instance named in the finding seq3-aliased-coverage) *)
Theorem gpos2_1_decoded_linear_refuted :
  exists (data : list N) (s : subtable),
    C08.Model.bytes_lt data /\ read_subtable GPOS data 0 2 = Ok s /\
    100 * lenN data < subtable_cells s.
Proof.
  destruct w_alias_gpos21_quadratic as (Hb & Hl & Hc).
  destruct (read_subtable GPOS (w_alias_gpos21 200) 0 2) as [s| | |] eqn:E; try discriminate Hc.
  exists (w_alias_gpos21 200), s. split; [|split; [exact E|rewrite Hl, Hc; reflexivity]].
  unfold bytes_ltb in Hb. apply Forall_forall. intros x Hx.
  rewrite forallb_forall in Hb. apply N.ltb_lt. exact (Hb x Hx).
Qed.
Print Assumptions gpos2_1_decoded_linear_refuted.

(* ---------------- the two models of the top-level reader ---------------- *)

(* readers_agree: C02's read_gtab with the real subtable readers (this part) and
   C08D's M_info_read (the composition of C08's script-list, feature-list and
   lookup-list readers, used for the round-trip theorems of C08) were modelled
   independently from the same Go code, over different byte-access primitives
   and with different evaluation orders (C08 sorts the script records by offset
   and reads all lookup headers before the subtables; C02 follows the file
   order and interleaves).  On EVERY byte string and for every tag-conversion
   answer they accept and reject the same tables and decode the same feature
   list and lookup list (shared_of_obs / shared_of_dec, Proofs_agree.v: the
   features with their tags as numbers, the lookups with all decoded
   subtables; a nil list = an empty list). *)
Theorem readers_agree :
  forall (conv_ok : list N -> list N -> bool) (t : table) (data : list N),
    C08.Model.bytes_lt data ->
    omap shared_of_obs (M_info_read conv_ok t data) = omap shared_of_dec (M_gtab_decode t data).
Proof. exact readers_agree_l. Qed.
Print Assumptions readers_agree.

(* ... hence C08D's reader model is total as well *)
Theorem info_read_total_concrete :
  forall (conv_ok : list N -> list N -> bool) (t : table) (data : list N),
    C08.Model.bytes_lt data ->
    M_info_read conv_ok t data <> Panic /\ M_info_read conv_ok t data <> OutOfFuel.
Proof.
  intros conv_ok t data Hb.
  pose proof (readers_agree_l conv_ok t data Hb) as H.
  destruct (gtab_decode_good t data Hb) as [G1 G2].
  destruct (M_info_read conv_ok t data), (M_gtab_decode t data); cbn [omap obind] in H;
    split; try discriminate; congruence.
Qed.
Print Assumptions info_read_total_concrete.
