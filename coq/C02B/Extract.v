From Coq Require Import Extraction ExtrOcamlBasic.
From Common Require Import Conv Outcome.
From C02 Require Import Model.
From C08D Require Import Model.
From C02B Require Import Model.
Extraction "c02b_model.ml" conv_anchor M_gtab_read M_gtab_decode M_info_read read_subtable
  subtable_cells lookups_cells distinct_calls all_calls f_tag f_lookups.
