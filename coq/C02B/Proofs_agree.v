(* C02B/Proofs_agree.v — the two models of the top-level reader agree.

   C02's read_gtab (byte access [get]: n bytes at an absolute position) with
   the real subtable readers, and C08D's M_info_read (C08's list readers over
   the parser view [seek]) were written independently, from the same Go code.
   Here: on every byte string they accept and reject the same tables and
   decode the same feature list and lookup list. *)
From Coq Require Import List NArith ZArith Bool Lia Permutation.
From Common Require Import Bytes Outcome.
From Gen Require Import C02 C08 C08D.
From C08 Require Import Model ModelSub ModelFL ModelSL ModelLL Proofs.
From C08C Require Import Util.
From C02 Require Import Model Proofs.
From C08D Require Import Model Spec Tie.
From C02B Require Import Model Proofs_readers Proofs.
Import ListNotations.
Local Open Scope N_scope.

(* ------------------------------------------------------------------ *)
(* [get] (C02) and [seek] (C08): the same plain byte view               *)

Lemma get_seek data pos n :
  0 < n ->
  get data pos n =
  let r := firstn (N.to_nat n) (seek data pos) in
  if (length r =? N.to_nat n)%nat then Some r else None.
Proof.
  intros Hn. unfold get. replace (n =? 0) with false by (symmetry; apply N.eqb_neq; lia).
  rewrite dropN_skipn, seek_unfold. reflexivity.
Qed.

Lemma seek_add data pos n : seek data (pos + n) = skipn (N.to_nat n) (seek data pos).
Proof. rewrite !seek_unfold, skipn_skipn'. f_equal. lia. Qed.

Lemma get2_seek data pos :
  get data pos 2 = match seek data pos with a :: b :: _ => Some [a; b] | _ => None end.
Proof. rewrite get_seek by lia. destruct (seek data pos) as [|a [|b r]]; reflexivity. Qed.

Lemma get4_seek data pos :
  get data pos 4 = match seek data pos with a :: b :: c :: d :: _ => Some [a; b; c; d] | _ => None end.
Proof. rewrite get_seek by lia. destruct (seek data pos) as [|a [|b [|c [|d r]]]]; reflexivity. Qed.

Lemma get6_seek data pos :
  get data pos 6 =
  match seek data pos with a :: b :: c :: d :: e :: f :: _ => Some [a; b; c; d; e; f] | _ => None end.
Proof. rewrite get_seek by lia. destruct (seek data pos) as [|a [|b [|c [|d [|e [|f r]]]]]]; reflexivity. Qed.

Lemma get16_seek data pos :
  get16 data pos = match seek data pos with a :: b :: _ => Some (w16 a b) | _ => None end.
Proof. unfold get16. rewrite get2_seek. destruct (seek data pos) as [|a [|b r]]; reflexivity. Qed.

Lemma seek_2 data pos a b r : seek data pos = a :: b :: r -> seek data (pos + 2) = r.
Proof. intros H. rewrite seek_add, H. reflexivity. Qed.

(* k consecutive uint16 *)
Lemma get16s_rd data : forall k pos,
  get16s data pos k =
  match rd_u16s k (seek data pos) with Ok x => Some (fst x) | _ => None end.
Proof.
  induction k as [|k IH]; intros pos; cbn [get16s rd_u16s]; [reflexivity|].
  rewrite get16_seek. destruct (seek data pos) as [|a [|b r]] eqn:E; try reflexivity.
  rewrite IH, (seek_2 data pos a b r E).
  destruct (rd_u16s k r) as [x| | |]; reflexivity.
Qed.

Lemma rd_u16s_rest k : forall r x, rd_u16s k r = Ok x -> snd x = skipn (2 * k) r.
Proof.
  induction k as [|k IH]; intros r x; cbn [rd_u16s].
  - intros H. injection H as <-. reflexivity.
  - destruct r as [|a [|b r']]; try discriminate.
    destruct (rd_u16s k r') as [y| | |] eqn:E; cbn [obind]; try discriminate.
    intros H. injection H as <-. cbn [snd]. rewrite (IH _ _ E).
    replace (2 * S k)%nat with (S (S (2 * k))) by lia. reflexivity.
Qed.

(* ------------------------------------------------------------------ *)
(* feature list                                                        *)

Definition feat_eq (a : ModelFL.feature) (b : C02.Model.feature) : Prop :=
  rd32 (fst a) = f_tag b /\ snd a = f_lookups b.

Lemma feature_recs_agree data : forall n pos,
  match fl_read_records n (seek data pos), get_feature_recs data pos n with
  | Ok recs, Some recs' => map (fun p => (rd32 (fst p), snd p)) recs = recs'
  | Err, None => True
  | _, _ => False
  end.
Proof.
  induction n as [|n IH]; intros pos; cbn [fl_read_records get_feature_recs]; [reflexivity|].
  rewrite get6_seek.
  destruct (seek data pos) as [|a [|b [|c [|d [|e [|f r]]]]]] eqn:E; try exact I.
  assert (Hr : seek data (pos + 6) = r) by (rewrite seek_add, E; reflexivity).
  specialize (IH (pos + 6)). rewrite Hr in IH.
  destruct (fl_read_records n r) as [recs| | |], (get_feature_recs data (pos + 6) n) as [recs'|];
    cbn [obind]; try exact IH; try contradiction.
  cbn [map fst snd skipn rd16]. rewrite IH. reflexivity.
Qed.

Lemma features_agree data pos : forall recs total,
  match fl_read_bodies data pos recs total,
        read_features data pos (map (fun p => (rd32 (fst p), snd p)) recs) total with
  | Ok fl, Ok fs => Forall2 feat_eq fl fs
  | Err, Err => True
  | _, _ => False
  end.
Proof.
  induction recs as [|[tag off] recs IH]; intros total; cbn [fl_read_bodies read_features map fst snd].
  - constructor.
  - rewrite get4_seek.
    destruct (seek data (pos + off)) as [|a [|b [|c [|d rest]]]] eqn:E; try exact I.
    cbn [skipn rd16]. change (c * 256 + d) with (w16 c d).
    destruct (65535 <? total); [exact I|].
    rewrite get16s_rd.
    assert (Hr : seek data (pos + off + 4) = rest) by (rewrite seek_add, E; reflexivity).
    rewrite Hr.
    destruct (rd_u16s (N.to_nat (w16 c d)) rest) as [x| | |] eqn:Ex; cbn [obind]; try exact I.
    + specialize (IH (total + 4 + 2 * w16 c d)).
      destruct (fl_read_bodies data pos recs _) as [fl| | |],
               (read_features data pos _ _) as [fs| | |]; cbn [obind]; try exact IH; try contradiction.
      constructor; [split; reflexivity|exact IH].
    + exfalso. exact (proj1 (rd_u16s_safe _ _) Ex).
    + exfalso. exact (proj2 (rd_u16s_safe _ _) Ex).
Qed.

Lemma fl_read_records_length n : forall r recs, fl_read_records n r = Ok recs -> length recs = n.
Proof.
  induction n as [|n IH]; intros r recs; cbn [fl_read_records].
  - intros H. injection H as <-. reflexivity.
  - destruct r as [|a [|b [|c [|d [|e [|f r']]]]]]; try discriminate.
    destruct (fl_read_records n r') as [tl| | |] eqn:E; cbn [obind]; try discriminate.
    intros H. injection H as <-. cbn [length]. f_equal. eapply IH. exact E.
Qed.

Lemma feature_list_agree data pos :
  match M_fl_read data pos, read_feature_list data pos with
  | Ok fl, Ok fs => Forall2 feat_eq fl fs
  | Err, Err => True
  | _, _ => False
  end.
Proof.
  unfold M_fl_read, read_feature_list. rewrite get16_seek.
  destruct (seek data pos) as [|a [|b r]] eqn:E; try exact I.
  pose proof (feature_recs_agree data (N.to_nat (w16 a b)) (pos + 2)) as HR.
  rewrite (seek_2 data pos a b r E) in HR.
  destruct (fl_read_records _ r) as [recs| | |] eqn:Er, (get_feature_recs data (pos + 2) _) as [recs'|];
    cbn [obind]; try exact HR; try contradiction.
  subst recs'.
  assert (Hlen : lenN recs = w16 a b).
  { apply fl_read_records_length in Er. unfold lenN. rewrite Er. apply N2Nat.id. }
  rewrite Hlen. apply features_agree.
Qed.

(* ------------------------------------------------------------------ *)
(* script list: both readers accept iff every table can be read and the
   total work fits the budget - in whatever order the tables are visited *)

Section Fold.
  Variable cost : N -> option N.

  (* the budget after one visit *)
  Definition step (B : N) (c : option N) : option N :=
    match c with Some c => if B <? c then None else Some (B - c) | None => None end.

  Fixpoint costs (ps : list N) : option N :=
    match ps with
    | [] => Some 0
    | p :: r => match cost p, costs r with Some c, Some s => Some (c + s) | _, _ => None end
    end.

  Fixpoint visit (B : N) (ps : list N) : option N :=
    match ps with
    | [] => Some B
    | p :: r => match step B (cost p) with Some B' => visit B' r | None => None end
    end.

  Lemma visit_costs : forall ps B, visit B ps = step B (costs ps).
  Proof.
    induction ps as [|p r IH]; intros B; cbn [visit costs step].
    - replace (B <? 0) with false by (symmetry; apply N.ltb_ge; lia). f_equal. lia.
    - destruct (cost p) as [c|]; cbn [step]; [|reflexivity].
      destruct (N.ltb_spec B c) as [H|H].
      + destruct (costs r) as [s|]; cbn [step]; [|reflexivity].
        replace (B <? c + s) with true by (symmetry; apply N.ltb_lt; lia). reflexivity.
      + rewrite IH. destruct (costs r) as [s|]; cbn [step]; [|reflexivity].
        destruct (N.ltb_spec (B - c) s), (N.ltb_spec B (c + s)); try lia; try reflexivity.
        f_equal. lia.
  Qed.

  Lemma costs_perm ps qs : Permutation ps qs -> costs ps = costs qs.
  Proof.
    induction 1 as [|x l l' _ IH|x y l|l l' l'' _ IH1 _ IH2]; cbn [costs].
    - reflexivity.
    - rewrite IH. reflexivity.
    - destruct (cost x) as [a|], (cost y) as [b|], (costs l) as [s|]; try reflexivity. f_equal. lia.
    - congruence.
  Qed.

  Lemma visit_perm B ps qs : Permutation ps qs -> visit B ps = visit B qs.
  Proof. intros H. rewrite !visit_costs, (costs_perm _ _ H). reflexivity. Qed.
End Fold.

Lemma sort_off_perm {A} (l : list (A * N)) : Permutation (sort_off l) l.
Proof.
  unfold sort_off. induction l as [|x l IH]; cbn [fold_right]; [constructor|].
  assert (Hins : forall (y : A * N) m, Permutation (ins_off y m) (y :: m)).
  { intros y m. induction m as [|z m IHm]; cbn [ins_off]; [apply Permutation_refl|].
    destruct (snd y <? snd z); [apply Permutation_refl|].
    eapply perm_trans; [apply perm_skip; exact IHm|apply perm_swap]. }
  eapply perm_trans; [apply Hins|apply perm_skip; exact IH].
Qed.

(* the budget left by a reader, None = not accepted *)
Definition leftN {A} (x : outcome (A * N)) : option N := match x with Ok p => Some (snd p) | _ => None end.
Definition leftZ (x : outcome Z) : option Z := match x with Ok b => Some b | _ => None end.

(* one LangSys table: its work, if it can be read *)
Definition ls_cost (data : list N) (p : N) : option N :=
  match seek data p with
  | a :: b :: c :: d :: e :: f :: r =>
    if negb (w16 a b =? 0) then None
    else match rd_u16s (N.to_nat (w16 e f)) r with Ok _ => Some (1 + w16 e f) | _ => None end
  | _ => None
  end.

Lemma rd_langsys_left data p B : leftN (rd_langsys data p B) = step B (ls_cost data p).
Proof.
  unfold rd_langsys, ls_cost.
  destruct (seek data p) as [|a [|b [|c [|d [|e [|f r]]]]]]; try reflexivity.
  destruct (negb (w16 a b =? 0)); [reflexivity|].
  destruct (rd_u16s (N.to_nat (w16 e f)) r) as [x| | |] eqn:E; cbn [step obind leftN];
    destruct (B <? 1 + w16 e f); reflexivity.
Qed.

Lemma read_langsys_left data p B :
  leftZ (read_langsys data p (Z.of_N B)) = option_map Z.of_N (step B (ls_cost data p)).
Proof.
  unfold read_langsys, ls_cost. rewrite get6_seek.
  destruct (seek data p) as [|a [|b [|c [|d [|e [|f r]]]]]] eqn:E; try reflexivity.
  cbn [skipn rd16]. change (a * 256 + b) with (w16 a b). change (e * 256 + f) with (w16 e f).
  destruct (negb (w16 a b =? 0)); [reflexivity|].
  rewrite get16s_rd.
  assert (Hr : seek data (p + 6) = r) by (rewrite seek_add, E; reflexivity). rewrite Hr.
  destruct (rd_u16s (N.to_nat (w16 e f)) r) as [x| | |]; cbn [step];
    destruct (N.ltb_spec B (1 + w16 e f)) as [H|H];
    destruct (Z.ltb_spec (Z.of_N B - (1 + Z.of_N (w16 e f))) 0) as [H'|H']; try lia; try reflexivity.
  cbn [leftZ option_map]. f_equal. lia.
Qed.

Lemma rd_langsyss_left conv_ok data pos script : forall recs B,
  leftN (rd_langsyss conv_ok data pos script recs B) =
  visit (ls_cost data) B (map (fun r => pos + snd r) recs).
Proof.
  induction recs as [|[lang off] recs IH]; intros B; cbn [rd_langsyss map visit snd]; [reflexivity|].
  pose proof (rd_langsys_left data (pos + off) B) as H.
  destruct (rd_langsys data (pos + off) B) as [[v B']| | |]; cbn [leftN snd obind] in *; rewrite <- H; try reflexivity.
  specialize (IH B').
  destruct (rd_langsyss conv_ok data pos script recs B') as [[w B'']| | |]; cbn [leftN snd obind fst] in *;
    exact IH.
Qed.

Lemma read_langsys_all_left data base : forall offs B,
  leftZ (read_langsys_all data base offs (Z.of_N B)) =
  option_map Z.of_N (visit (ls_cost data) B (map (fun o => base + o) offs)).
Proof.
  induction offs as [|o offs IH]; intros B; cbn [read_langsys_all map visit]; [reflexivity|].
  pose proof (read_langsys_left data (base + o) B) as H.
  destruct (step B (ls_cost data (base + o))) as [B'|]; cbn [option_map] in H.
  - destruct (read_langsys data (base + o) (Z.of_N B)) as [z| | |]; cbn [leftZ] in H; try discriminate.
    injection H as ->. apply IH.
  - destruct (read_langsys data (base + o) (Z.of_N B)) as [z| | |]; cbn [leftZ] in H; try discriminate; reflexivity.
Qed.

(* the (tag, offset) record arrays *)
Lemma rec_offsets_agree data : forall n pos,
  match rd_tagged n (seek data pos), get_rec_offsets data pos n with
  | Ok x, Some offs => map snd (fst x) = offs /\ snd x = seek data (pos + 6 * N.of_nat n)
  | Err, None => True
  | _, _ => False
  end.
Proof.
  induction n as [|n IH]; intros pos; cbn [rd_tagged get_rec_offsets].
  - split; [reflexivity|]. cbn. f_equal. lia.
  - rewrite get6_seek.
    destruct (seek data pos) as [|a [|b [|c [|d [|e [|f r]]]]]] eqn:E; try exact I.
    assert (Hr : seek data (pos + 6) = r) by (rewrite seek_add, E; reflexivity).
    specialize (IH (pos + 6)). rewrite Hr in IH.
    destruct (rd_tagged n r) as [x| | |], (get_rec_offsets data (pos + 6) n) as [offs|];
      cbn [obind]; try exact IH; try contradiction.
    destruct IH as [I1 I2]. cbn [fst snd map skipn rd16]. split; [now rewrite I1|].
    rewrite I2. f_equal. lia.
Qed.

Lemma rd_tagged_length n : forall r x, rd_tagged n r = Ok x -> length (fst x) = n.
Proof.
  induction n as [|n IH]; intros r x; cbn [rd_tagged].
  - intros H. injection H as <-. reflexivity.
  - destruct r as [|a [|b [|c [|d [|e [|f r']]]]]]; try discriminate.
    destruct (rd_tagged n r') as [y| | |] eqn:E; cbn [obind]; try discriminate.
    intros H. injection H as <-. cbn [fst length]. f_equal. eapply IH. exact E.
Qed.

(* one script table: the positions of its LangSys tables (C02's order) *)
Definition st_positions (data : list N) (pos : N) : option (list N) :=
  match seek data pos with
  | a :: b :: c :: d :: r =>
    let defOff := w16 a b in
    let cnt := w16 c d in
    if (0 <? defOff) && (defOff <? (4 + 6 * cnt) mod 65536) then None
    else if lenN data <? 8 + cnt * 12 then None
    else match rd_tagged (N.to_nat cnt) r with
         | Ok x => Some (map (fun o => pos + o) ((if defOff =? 0 then [] else [defOff]) ++ map snd (fst x)))
         | _ => None
         end
  | _ => None
  end.

Definition st_cost (data : list N) (pos : N) : option N :=
  match st_positions data pos with Some ps => costs (ls_cost data) ps | None => None end.

Lemma rd_tagged_safe n : forall r, safe (rd_tagged n r).
Proof.
  induction n as [|n IH]; intros r; cbn [rd_tagged]; [apply safe_ok|].
  destruct r as [|a [|b [|c [|d [|e [|f r']]]]]]; try apply safe_err.
  apply safe_bind; [apply IH|intros; apply safe_ok].
Qed.

Lemma rd_script_table_left conv_ok data script pos B :
  leftN (rd_script_table conv_ok data script pos B) = step B (st_cost data pos).
Proof.
  unfold rd_script_table, st_cost, st_positions.
  destruct (seek data pos) as [|a [|b [|c [|d r]]]]; try reflexivity.
  cbv zeta.
  destruct ((0 <? w16 a b) && (w16 a b <? (4 + 6 * w16 c d) mod 65536)); [reflexivity|].
  destruct (lenN data <? 8 + w16 c d * 12); [reflexivity|].
  destruct (rd_tagged (N.to_nat (w16 c d)) r) as [x| | |] eqn:Ex; cbn [obind]; try reflexivity.
  rewrite rd_langsyss_left, <- visit_costs.
  apply visit_perm. rewrite <- map_map. apply Permutation_map.
  eapply perm_trans; [apply Permutation_map, sort_off_perm|].
  rewrite map_app. apply Permutation_app; [|apply Permutation_refl].
  destruct (w16 a b =? 0); apply Permutation_refl.
Qed.

Lemma read_script_table_left data pos B :
  leftZ (read_script_table (len data) data pos (Z.of_N B)) = option_map Z.of_N (step B (st_cost data pos)).
Proof.
  unfold read_script_table, st_cost, st_positions. rewrite get4_seek.
  destruct (seek data pos) as [|a [|b [|c [|d r]]]] eqn:E; try reflexivity.
  cbn [skipn rd16]. change (a * 256 + b) with (w16 a b). change (c * 256 + d) with (w16 c d).
  unfold wrap16.
  destruct ((0 <? w16 a b) && (w16 a b <? (4 + 6 * w16 c d) mod 65536)); [reflexivity|].
  change (len data) with (lenN data).
  destruct (lenN data <? 8 + w16 c d * 12); [reflexivity|].
  pose proof (rec_offsets_agree data (N.to_nat (w16 c d)) (pos + 4)) as HR.
  assert (Hr : seek data (pos + 4) = r) by (rewrite seek_add, E; reflexivity). rewrite Hr in HR.
  destruct (rd_tagged (N.to_nat (w16 c d)) r) as [x| | |] eqn:Ex,
           (get_rec_offsets data (pos + 4) (N.to_nat (w16 c d))) as [offs|]; try contradiction; try reflexivity.
  destruct HR as [HR _]. subst offs. rewrite read_langsys_all_left, <- visit_costs. reflexivity.
Qed.

(* the lists of script tables *)
Lemma rd_script_tables_left conv_ok data pos : forall recs B,
  is_ok (rd_script_tables conv_ok data pos recs B) =
  match visit (st_cost data) B (map (fun r => pos + snd r) recs) with Some _ => true | None => false end.
Proof.
  unfold is_ok.
  induction recs as [|[script off] recs IH]; intros B; cbn [rd_script_tables map visit snd]; [reflexivity|].
  pose proof (rd_script_table_left conv_ok data script (pos + off) B) as H.
  destruct (rd_script_table conv_ok data script (pos + off) B) as [[v B']| | |]; cbn [leftN snd obind] in *;
    rewrite <- H; try reflexivity.
  specialize (IH B'). destruct (rd_script_tables conv_ok data pos recs B'); cbn [obind]; exact IH.
Qed.

Lemma read_script_tables_left data base : forall offs B,
  leftZ (read_script_tables (len data) data base offs (Z.of_N B)) =
  option_map Z.of_N (visit (st_cost data) B (map (fun o => base + o) offs)).
Proof.
  induction offs as [|o offs IH]; intros B; cbn [read_script_tables map visit]; [reflexivity|].
  pose proof (read_script_table_left data (base + o) B) as H.
  destruct (step B (st_cost data (base + o))) as [B'|]; cbn [option_map] in H.
  - destruct (read_script_table (len data) data (base + o) (Z.of_N B)) as [z| | |]; cbn [leftZ] in H; try discriminate.
    injection H as ->. apply IH.
  - destruct (read_script_table (len data) data (base + o) (Z.of_N B)) as [z| | |]; cbn [leftZ] in H;
      try discriminate; reflexivity.
Qed.

Lemma existsb_perm {A} (f : A -> bool) l m : Permutation l m -> existsb f l = existsb f m.
Proof.
  induction 1 as [|x l l' _ IH|x y l|l l' l'' _ IH1 _ IH2]; cbn [existsb]; try congruence.
  destruct (f x), (f y); reflexivity.
Qed.

Lemma existsb_map {A B} (f : B -> bool) (g : A -> B) l : existsb f (map g l) = existsb (fun x => f (g x)) l.
Proof. induction l as [|y l IH]; cbn [map existsb]; [reflexivity|]. now rewrite IH. Qed.

Lemma maxwork_tie : Z.of_N maxWork = gtab_maxScriptListWork.
Proof. reflexivity. Qed.

(* the script list: accepted by one model iff accepted by the other *)
Lemma script_list_agree conv_ok data pos :
  is_ok (M_sl_read conv_ok data pos) = is_ok (read_script_list gtab_maxScriptListWork (len data) data pos).
Proof.
  unfold M_sl_read, read_script_list. rewrite get16_seek.
  destruct (seek data pos) as [|a [|b r]] eqn:E; try reflexivity.
  cbv zeta. change (len data) with (lenN data).
  destruct (lenN data <? 6 * w16 a b); [reflexivity|].
  pose proof (rec_offsets_agree data (N.to_nat (w16 a b)) (pos + 2)) as HR.
  rewrite (seek_2 data pos a b r E) in HR.
  destruct (rd_tagged (N.to_nat (w16 a b)) r) as [x| | |] eqn:Ex,
           (get_rec_offsets data (pos + 2) (N.to_nat (w16 a b))) as [offs|]; try contradiction; cbn [obind]; try reflexivity.
  destruct HR as [HR _]. subst offs.
  { assert (Hlen : lenN (sort_off (fst x)) = w16 a b).
    { unfold lenN. rewrite (Permutation_length (sort_off_perm (fst x))), (rd_tagged_length _ _ _ Ex). apply N2Nat.id. }
    rewrite Hlen.
    replace (existsb (fun e : list N * N => snd e <? 2 + 6 * w16 a b) (sort_off (fst x)))
      with (existsb (fun o => o <? 2 + 6 * w16 a b) (map snd (fst x))).
    2:{ rewrite (existsb_perm _ _ _ (sort_off_perm (fst x))). apply existsb_map. }
    destruct (existsb _ (map snd (fst x))); [reflexivity|].
    rewrite rd_script_tables_left.
    rewrite <- maxwork_tie.
    pose proof (read_script_tables_left data pos (map snd (fst x)) maxWork) as H2.
    change (len data) with (lenN data) in H2.
    rewrite (visit_perm (st_cost data) maxWork _ (map (fun o => pos + o) (map snd (fst x)))).
    2:{ rewrite <- map_map. apply Permutation_map, Permutation_map, sort_off_perm. }
    destruct (visit (st_cost data) maxWork (map (fun o => pos + o) (map snd (fst x)))) as [B'|];
      cbn [option_map] in H2;
      destruct (read_script_tables (lenN data) data pos (map snd (fst x)) (Z.of_N maxWork)); cbn [leftZ] in H2;
      try discriminate; reflexivity. }
Qed.

(* ------------------------------------------------------------------ *)
(* lookup list                                                         *)

Lemma read_u16s_rd n : forall r, ModelLL.read_u16s n r = rd_u16s n r.
Proof. intros r. reflexivity. Qed.

Lemma cap_tie : c08_maxObjectsRead = gtab_lookupCap.
Proof. reflexivity. Qed.

Lemma mfs_flag_tie flags : N.testbit flags 4 = negb (N.land flags c08_UseMarkFilteringSet =? 0).
Proof.
  change c08_UseMarkFilteringSet with (2 ^ 4).
  destruct (N.testbit flags 4) eqn:E.
  - symmetry. apply negb_true_iff, N.eqb_neq. intros H.
    assert (N.testbit (N.land flags (2 ^ 4)) 4 = true) by (rewrite N.land_spec, E, N.pow2_bits_true; reflexivity).
    rewrite H in H0. rewrite N.bits_0 in H0. discriminate.
  - symmetry. apply negb_false_iff, N.eqb_eq. apply N.bits_inj. intros k.
    rewrite N.land_spec, N.bits_0.
    destruct (N.eq_dec k 4) as [->|Hk]; [rewrite E; reflexivity|].
    rewrite N.pow2_bits_false by congruence. apply andb_false_r.
Qed.

(* sequencing with a running counter *)
Fixpoint seqM {A B} (f : A -> N -> outcome (B * N)) (l : list A) (s : N) : outcome (list B) :=
  match l with
  | [] => Ok []
  | a :: r => x <- f a s ;; tl <- seqM f r (snd x) ;; Ok (fst x :: tl)
  end.

(* independent safe computations commute: reading all headers and then all
   bodies, or header and body of each element in turn *)
Lemma seqM_commute {A B C} (f : A -> N -> outcome (B * N)) (g : B -> outcome C) :
  (forall a s, safe (f a s)) -> (forall b, safe (g b)) ->
  forall l s,
    (xs <- seqM f l s ;; omapM g xs) =
    seqM (fun a s => x <- f a s ;; y <- g (fst x) ;; Ok (y, snd x)) l s.
Proof.
  intros Hf Hg. induction l as [|a l IH]; intros s; cbn [seqM obind omapM]; [reflexivity|].
  destruct (Hf a s) as [F1 F2].
  destruct (f a s) as [[b s']| | |] eqn:Ef; cbn [obind fst snd]; try congruence.
  destruct (Hg b) as [G1 G2].
  assert (Hs : safe (seqM f l s')).
  { clear -Hf. revert s'. induction l as [|a l IH]; intros s; cbn [seqM]; [apply safe_ok|].
    apply safe_bind; [apply Hf|intros x _]. apply safe_bind; [apply IH|intros; apply safe_ok]. }
  destruct Hs as [S1 S2].
  destruct (g b) as [y| | |] eqn:Eg; cbn [obind fst snd]; try congruence.
  - rewrite <- IH.
    destruct (seqM f l s') as [xs| | |]; cbn [obind omapM]; try congruence.
    rewrite Eg. cbn [obind]. destruct (omapM g xs) as [ys| | |]; reflexivity.
  - destruct (seqM f l s') as [xs| | |]; cbn [obind omapM]; try congruence.
    rewrite Eg. reflexivity.
Qed.

Lemma seqM_ext {A B} (f f' : A -> N -> outcome (B * N)) l :
  (forall a s, f a s = f' a s) -> forall s, seqM f l s = seqM f' l s.
Proof. intros H. induction l as [|a l IH]; intros s; cbn [seqM]; [reflexivity|]. rewrite H. destruct (f' a s) as [x| | |]; cbn [obind]; try reflexivity. now rewrite IH. Qed.

Lemma ll_read_lookups_seqM data pos extT : forall offs objs,
  ModelLL.read_lookups data pos extT offs objs =
  seqM (fun o s => ModelLL.read_lookup data (pos + o) extT s) offs objs.
Proof. induction offs as [|o r IH]; intros objs; cbn [ModelLL.read_lookups seqM]; [reflexivity|]. destruct (ModelLL.read_lookup data (pos + o) extT objs) as [x| | |]; cbn [obind]; try reflexivity. now rewrite IH. Qed.

Lemma c02_read_lookups_seqM data sr cap pos : forall offs count,
  C02.Model.read_lookups data sr cap pos offs count =
  seqM (fun o s => C02.Model.read_lookup data sr cap pos o s) offs count.
Proof.
  induction offs as [|o r IH]; intros count; cbn [C02.Model.read_lookups seqM]; [reflexivity|].
  destruct (C02.Model.read_lookup data sr cap pos o count) as [[l c']| | |]; cbn [obind fst snd]; try reflexivity.
  rewrite IH. destruct (seqM _ r c'); reflexivity.
Qed.

Lemma dispatch_ext_type t fmt :
  dispatch t (ext_of t) fmt = Ok (if fmt =? 1 then Some RExt else None).
Proof.
  destruct (N.eqb_spec fmt 1) as [->|Hf].
  - apply dispatch_ext_iff. auto.
  - destruct (dispatch_total t (ext_of t) fmt) as [[k|] D]; rewrite D; [|reflexivity].
    (* a reader for the extension type with another format: there is none *)
    exfalso. rewrite dispatch_spec in D. injection D as D.
    destruct (N.ltb_spec fmt 10) as [Hlt|Hge].
    + assert (fmt = 0 \/ fmt = 2 \/ fmt = 3 \/ fmt = 4 \/ fmt = 5 \/ fmt = 6 \/ fmt = 7 \/ fmt = 8 \/ fmt = 9) as Hc by lia.
      destruct t; repeat (destruct Hc as [->|Hc]; [vm_compute in D; discriminate|]); subst fmt; vm_compute in D; discriminate.
    + rewrite S_dispatch_large in D by auto. discriminate.
Qed.

Section Lookup.
  Variable t : table.
  Variable data : list N.
  Hypothesis Hb : C08.Model.bytes_lt data.

  Let sr := sr_concrete t data.
  Let rd (tp p : N) := read_subtable t data p tp.

  Lemma rd_safe tp p : safe (rd tp p).
  Proof. apply read_subtable_safe. exact Hb. Qed.

  (* the subtable reader at the extension type reads an extension record *)
  Lemma sr_ext p :
    sr p (ext_of t) = x <- read_ext data p ;; Ok (SExt (fst x) (snd x)).
  Proof.
    unfold sr, sr_concrete, read_subtable_any, read_ext.
    destruct (seek data p) as [|a [|b r]] eqn:E; try reflexivity.
    rewrite dispatch_ext_type. cbn [obind].
    destruct (w16 a b =? 1).
    - cbn [run_reader]. rewrite (seek_2 data p a b r E).
      destruct r as [|c [|d [|e [|f [|g [|h r']]]]]]; reflexivity.
    - destruct r as [|c [|d [|e [|f [|g [|h r']]]]]]; reflexivity.
  Qed.

  (* ... at any other type a subtable, recorded as a leaf *)
  Lemma sr_leaf p tp : tp <> ext_of t ->
    exists f, sr p tp = x <- rd tp p ;; Ok (SLeaf p tp f).
  Proof.
    intros Hne. unfold sr, sr_concrete, rd, read_subtable.
    eexists.
    destruct (read_subtable_any t data p tp) as [[e o|s]| | |] eqn:Ea; cbn [obind]; try reflexivity.
    exfalso. exact (Proofs_props.read_any_not_ext t data p tp e o Hne Ea).
  Qed.

  Lemma read_subs_ext lpos : forall offs,
    read_subs sr lpos (ext_of t) offs =
    exts <- read_exts data lpos offs ;; Ok (map (fun x => SExt (fst x) (snd x)) exts).
  Proof.
    induction offs as [|o r IH]; cbn [read_subs read_exts]; [reflexivity|].
    rewrite sr_ext. destruct (read_ext data (lpos + o)) as [x| | |]; cbn [obind]; try reflexivity.
    rewrite IH. destruct (read_exts data lpos r) as [tl| | |]; reflexivity.
  Qed.

  Lemma read_subs_leaf lpos tp : tp <> ext_of t -> forall offs,
    (match read_subs sr lpos tp offs with
     | Ok subs => omapM (decode_sub t data) subs
     | Err => Err | Panic => Panic | OutOfFuel => OutOfFuel
     end) = omapM (rd tp) (map (fun o => lpos + o) offs) /\
    (forall subs e eo rest, read_subs sr lpos tp offs = Ok subs -> subs <> SExt e eo :: rest).
  Proof.
    intros Hne. induction offs as [|o r [IH1 IH2]]; cbn [read_subs map omapM].
    - split; [reflexivity|]. intros subs e eo rest H. injection H as <-. discriminate.
    - destruct (sr_leaf (lpos + o) tp Hne) as [f Hf]. rewrite Hf.
      destruct (rd_safe tp (lpos + o)) as [R1 R2].
      destruct (rd tp (lpos + o)) as [x| | |] eqn:Ex; cbn [obind]; try congruence.
      + split.
        * destruct (read_subs sr lpos tp r) as [ss| | |]; cbn [omapM decode_sub] in *.
          -- fold (rd tp (lpos + o)). rewrite Ex. cbn [obind]. rewrite IH1. reflexivity.
          -- rewrite <- IH1. reflexivity.
          -- rewrite <- IH1. reflexivity.
          -- rewrite <- IH1. reflexivity.
        * intros subs e eo rest H. destruct (read_subs sr lpos tp r); try discriminate.
          injection H as <-. discriminate.
      + split; [reflexivity|]. intros; discriminate.
  Qed.

  Lemma resolve_exts_safe lpos tp : forall offs exts, safe (resolve_exts lpos tp offs exts).
  Proof.
    induction offs as [|o ro IH]; intros exts; destruct exts as [|[e eo] re]; cbn [resolve_exts]; try apply safe_ok.
    destruct (e =? tp); [|apply safe_err]. apply safe_bind; [apply IH|intros; apply safe_ok].
  Qed.

  Lemma resolve_agree lpos tp : tp <> ext_of t -> forall offs exts,
    length exts = length offs ->
    (match resolve_ext sr lpos tp offs (map (fun x => SExt (fst x) (snd x)) exts) with
     | Ok subs => omapM (decode_sub t data) subs
     | Err => Err | Panic => Panic | OutOfFuel => OutOfFuel
     end) = (ps <- resolve_exts lpos tp offs exts ;; omapM (rd tp) ps).
  Proof.
    intros Hne. induction offs as [|o ro IH]; intros exts Hl; destruct exts as [|[e eo] re];
      cbn [length] in Hl; try discriminate; cbn [map resolve_ext resolve_exts fst snd]; [reflexivity|].
    destruct (e =? tp); cbn [negb]; [|reflexivity].
    destruct (sr_leaf (lpos + o + eo) tp Hne) as [f Hf]. rewrite Hf.
    specialize (IH re ltac:(lia)).
    destruct (rd_safe tp (lpos + o + eo)) as [R1 R2].
    destruct (resolve_exts_safe lpos tp ro re) as [S1 S2].
    destruct (rd tp (lpos + o + eo)) as [x| | |] eqn:Ex; cbn [obind]; try congruence.
    - destruct (resolve_ext sr lpos tp ro _) as [ss| | |]; cbn [omapM decode_sub] in *.
      + fold (rd tp (lpos + o + eo)). rewrite Ex. cbn [obind]. rewrite IH.
        destruct (resolve_exts lpos tp ro re) as [ps| | |]; cbn [obind omapM]; try congruence.
        rewrite Ex. reflexivity.
      + destruct (resolve_exts lpos tp ro re) as [ps| | |]; cbn [obind omapM] in *; try congruence.
        rewrite Ex. cbn [obind]. rewrite <- IH. reflexivity.
      + destruct (resolve_exts lpos tp ro re) as [ps| | |]; cbn [obind omapM] in *; try congruence.
        rewrite Ex. cbn [obind]. rewrite <- IH. reflexivity.
      + destruct (resolve_exts lpos tp ro re) as [ps| | |]; cbn [obind omapM] in *; try congruence.
        rewrite Ex. cbn [obind]. rewrite <- IH. reflexivity.
    - destruct (resolve_exts lpos tp ro re) as [ps| | |]; cbn [obind omapM]; try congruence.
      rewrite Ex. reflexivity.
  Qed.
End Lookup.

Lemma read_exts_length data lpos : forall offs exts, read_exts data lpos offs = Ok exts -> length exts = length offs.
Proof.
  induction offs as [|o r IH]; intros exts; cbn [read_exts].
  - intros H. injection H as <-. reflexivity.
  - destruct (read_ext data (lpos + o)) as [x| | |]; cbn [obind]; try discriminate.
    destruct (read_exts data lpos r) as [tl| | |] eqn:E; cbn [obind]; try discriminate.
    intros H. injection H as <-. cbn [length]. f_equal. apply IH. reflexivity.
Qed.

Section Lookup2.
  Variable t : table.
  Variable data : list N.
  Hypothesis Hb : C08.Model.bytes_lt data.

  (* header and subtables of one lookup, read by C08D's model ... *)
  Definition parseB (lpos s : N) : outcome (lookupC * N) :=
    y <- ModelLL.read_lookup data lpos (ext_of t) s ;;
    lc <- read_lookup_subs t data (fst y) ;; Ok (lc, snd y).

  (* ... and by C02's model with the real subtable readers *)
  Definition parseA (pos off s : N) : outcome (lookupC * N) :=
    x <- C02.Model.read_lookup data (sr_concrete t data) gtab_lookupCap pos off s ;;
    lc <- decode_lookup t data (fst x) ;; Ok (lc, snd x).

  Lemma parse_agree pos off s : parseA pos off s = parseB (pos + off) s.
  Proof.
    unfold parseA, parseB, C02.Model.read_lookup, ModelLL.read_lookup.
    rewrite get6_seek.
    destruct (seek data (pos + off)) as [|a [|b [|c [|d [|e [|f r]]]]]] eqn:E; try reflexivity.
    cbn [skipn rd16]. change (a * 256 + b) with (w16 a b). change (c * 256 + d) with (w16 c d).
    change (e * 256 + f) with (w16 e f).
    set (lpos := pos + off) in *. set (tp := w16 a b). set (flags := w16 c d). set (n := w16 e f).
    rewrite cap_tie.
    destruct (gtab_lookupCap <? s + 1 + n); [reflexivity|].
    rewrite get16s_rd. change (read_u16s (N.to_nat n) r) with (rd_u16s (N.to_nat n) r).
    assert (Hr : seek data (lpos + 6) = r) by (rewrite seek_add, E; reflexivity). rewrite Hr.
    destruct (rd_u16s_safe (N.to_nat n) r) as [U1 U2].
    destruct (rd_u16s (N.to_nat n) r) as [x| | |] eqn:Ex; cbn [obind]; try congruence; try reflexivity.
    (* the mark filtering set *)
    rewrite <- mfs_flag_tie.
    assert (Hmfs : (if N.testbit flags 4
                    then match get16 data (lpos + 6 + 2 * n) with None => None | Some m => Some m end
                    else Some 0) =
                   match (if N.testbit flags 4
                          then match snd x with a' :: b' :: _ => Ok (w16 a' b') | _ => Err end
                          else Ok 0) with Ok m => Some m | _ => None end).
    { destruct (N.testbit flags 4); [|reflexivity]. rewrite get16_seek.
      replace (seek data (lpos + 6 + 2 * n)) with (snd x).
      - destruct (snd x) as [|a' [|b' r']]; reflexivity.
      - rewrite (rd_u16s_rest _ _ _ Ex), <- Hr.
        replace (2 * N.to_nat n)%nat with (N.to_nat (2 * n)) by lia.
        rewrite <- seek_add. reflexivity. }
    rewrite Hmfs. clear Hmfs.
    destruct (if N.testbit flags 4 then match snd x with a' :: b' :: _ => Ok (w16 a' b') | _ => Err end else Ok 0)
      as [mfs| | |] eqn:Em; cbn [obind]; try reflexivity;
      try (destruct (N.testbit flags 4); [destruct (snd x) as [|a' [|b' r']]|]; discriminate).
    (* the subtables *)
    destruct (N.eqb_spec tp (ext_of t)) as [Hext|Hne].
    - (* the lookup has the extension type *)
      rewrite Hext, read_subs_ext. cbn [andb].
      destruct (N.eqb_spec n 0) as [Hn0|Hn0]; cbn [negb].
      + (* no subtable *)
        assert (fst x = []).
        { apply Proofs_total.rd_u16s_length in Ex. rewrite Hn0 in Ex. destruct (fst x); [reflexivity|discriminate]. }
        rewrite H. cbn [read_exts obind map]. unfold decode_lookup, read_lookup_subs.
        cbn [l_subs lo_subpos map omapM obind fst snd l_type l_flags l_mfs lo_type lo_flags lo_mfs]. reflexivity.
      + destruct (read_exts data lpos (fst x)) as [exts| | |] eqn:Ee; cbn [obind]; try reflexivity.
        destruct exts as [|[e0 eo0] re]; cbn [map fst snd].
        * (* impossible: n <> 0 *)
          apply read_exts_length in Ee. apply Proofs_total.rd_u16s_length in Ex.
          cbn [length] in Ee. exfalso. rewrite <- Ee in Ex. lia.
        * destruct (N.eqb_spec e0 (ext_of t)) as [He|He]; [reflexivity|].
          pose proof (resolve_agree t data Hb lpos e0 He (fst x) ((e0, eo0) :: re) (read_exts_length _ _ _ _ Ee)) as HR.
          cbn [map fst snd] in HR.
          unfold decode_lookup, read_lookup_subs.
          destruct (resolve_exts_safe lpos e0 (fst x) ((e0, eo0) :: re)) as [S1 S2].
          destruct (resolve_ext (sr_concrete t data) lpos e0 (fst x) _) as [subs'| | |] eqn:Er;
            cbn [obind l_subs fst snd];
            destruct (resolve_exts lpos e0 (fst x) ((e0, eo0) :: re)) as [ps| | |] eqn:Ep;
            cbn [obind lo_subpos lo_type fst snd] in *; try congruence; try reflexivity;
            try (destruct (omapM_safe (fun p => read_subtable t data p e0) ps
                                      (fun p => read_subtable_safe t data p e0 Hb)) as [O1 O2]);
            try (match type of HR with Err = _ => rewrite <- HR | Panic = _ => rewrite <- HR | OutOfFuel = _ => rewrite <- HR | _ => rewrite HR end); cbn [obind]; try congruence; try reflexivity;
            try (destruct (omapM _ ps) as [out| | |]; reflexivity).
    - (* an ordinary lookup *)
      cbn [andb].
      destruct (read_subs_leaf t data Hb lpos tp Hne (fst x)) as [HL HNE].
      destruct (read_subs (sr_concrete t data) lpos tp (fst x)) as [subs| | |] eqn:Es; cbn [obind].
      + assert (Hbranch : forall A (k1 : N -> N -> list subt -> A) (k2 : A),
                  match subs with SExt e eo :: rest => k1 e eo rest | _ => k2 end = k2).
        { intros A k1 k2. destruct subs as [|[e1 eo1|p1 tp1 f1] rest]; try reflexivity.
          exfalso. exact (HNE _ e1 eo1 rest eq_refl eq_refl). }
        rewrite Hbranch. cbn [obind fst snd]. unfold decode_lookup, read_lookup_subs.
        cbn [l_subs lo_subpos lo_type l_type l_flags l_mfs lo_flags lo_mfs]. rewrite HL.
        destruct (omapM _ (map (fun o => lpos + o) (fst x))) as [out| | |]; reflexivity.
      + unfold read_lookup_subs. cbn [lo_subpos lo_type fst snd]. rewrite <- HL. reflexivity.
      + unfold read_lookup_subs. cbn [lo_subpos lo_type fst snd]. rewrite <- HL. reflexivity.
      + unfold read_lookup_subs. cbn [lo_subpos lo_type fst snd]. rewrite <- HL. reflexivity.
  Qed.
End Lookup2.

(* ---- safety of C08's list readers (no Panic, no OutOfFuel) ---- *)

Lemma ll_read_ext_safe data p : safe (read_ext data p).
Proof.
  unfold read_ext. destruct (seek data p) as [|a [|b [|c [|d [|e [|f [|g [|h r]]]]]]]]; try apply safe_err.
  destruct (w16 a b =? 1); [apply safe_ok|apply safe_err].
Qed.

Lemma ll_read_exts_safe data lpos offs : safe (read_exts data lpos offs).
Proof.
  induction offs as [|o r IH]; cbn [read_exts]; [apply safe_ok|].
  apply safe_bind; [apply ll_read_ext_safe|intros x _]. apply safe_bind; [exact IH|intros; apply safe_ok].
Qed.

Lemma ll_read_lookup_safe data lpos extT s : safe (ModelLL.read_lookup data lpos extT s).
Proof.
  unfold ModelLL.read_lookup.
  destruct (seek data lpos) as [|a [|b [|c [|d [|e [|f r]]]]]]; try apply safe_err.
  cbv zeta. destruct (c08_maxObjectsRead <? _); [apply safe_err|].
  apply safe_bind; [exact (rd_u16s_safe _ r)|intros x _].
  apply safe_bind.
  { destruct (negb _); [|apply safe_ok]. destruct (snd x) as [|a' [|b' r']]; try apply safe_err. apply safe_ok. }
  intros m _. destruct (_ && _); [|apply safe_ok].
  apply safe_bind; [apply ll_read_exts_safe|intros exts _].
  destruct exts as [|[tp eo] re]; [apply safe_err|]. destruct (tp =? _); [apply safe_err|].
  apply safe_bind; [apply resolve_exts_safe|intros; apply safe_ok].
Qed.

Lemma sl_rd_langsys_safe data p B : safe (rd_langsys data p B).
Proof.
  unfold rd_langsys. destruct (seek data p) as [|a [|b [|c [|d [|e [|f r]]]]]]; try apply safe_err.
  destruct (negb _); [apply safe_err|]. destruct (B <? _); [apply safe_err|].
  apply safe_bind; [apply rd_u16s_safe|intros; apply safe_ok].
Qed.

Lemma sl_rd_langsyss_safe conv_ok data pos script : forall recs B, safe (rd_langsyss conv_ok data pos script recs B).
Proof.
  induction recs as [|[lang off] recs IH]; intros B; cbn [rd_langsyss]; [apply safe_ok|].
  apply safe_bind; [apply sl_rd_langsys_safe|intros x _]. apply safe_bind; [apply IH|intros; apply safe_ok].
Qed.

Lemma sl_rd_script_table_safe conv_ok data script pos B : safe (rd_script_table conv_ok data script pos B).
Proof.
  unfold rd_script_table. destruct (seek data pos) as [|a [|b [|c [|d r]]]]; try apply safe_err.
  cbv zeta. destruct (_ && _); [apply safe_err|]. destruct (lenN data <? _); [apply safe_err|].
  apply safe_bind; [apply rd_tagged_safe|intros x _]. apply sl_rd_langsyss_safe.
Qed.

Lemma sl_rd_script_tables_safe conv_ok data pos : forall recs B, safe (rd_script_tables conv_ok data pos recs B).
Proof.
  induction recs as [|[script off] recs IH]; intros B; cbn [rd_script_tables]; [apply safe_ok|].
  apply safe_bind; [apply sl_rd_script_table_safe|intros x _]. apply safe_bind; [apply IH|intros; apply safe_ok].
Qed.

Lemma sl_read_safe conv_ok data pos : safe (M_sl_read conv_ok data pos).
Proof.
  unfold M_sl_read. destruct (seek data pos) as [|a [|b r]]; try apply safe_err.
  cbv zeta. destruct (lenN data <? _); [apply safe_err|].
  apply safe_bind; [apply rd_tagged_safe|intros x _].
  destruct (existsb _ _); [apply safe_err|]. apply sl_rd_script_tables_safe.
Qed.

(* ---- the lookup list with its subtables ---- *)

Section LookupList.
  Variable t : table.
  Variable data : list N.
  Hypothesis Hb : C08.Model.bytes_lt data.

  Lemma lookup_list_agree pos :
    (obs <- M_ll_read data pos (ext_of t) ;; omapM (read_lookup_subs t data) obs) =
    (ls <- read_lookup_list data (sr_concrete t data) gtab_lookupCap pos ;; omapM (decode_lookup t data) ls).
  Proof.
    unfold M_ll_read, read_lookup_list. rewrite get16_seek.
    destruct (seek data pos) as [|a [|b r]] eqn:E; try reflexivity.
    rewrite get16s_rd, (seek_2 data pos a b r E).
    change (read_u16s (N.to_nat (w16 a b)) r) with (rd_u16s (N.to_nat (w16 a b)) r).
    destruct (rd_u16s_safe (N.to_nat (w16 a b)) r) as [U1 U2].
    destruct (rd_u16s (N.to_nat (w16 a b)) r) as [x| | |]; cbn [obind]; try congruence; try reflexivity.
    rewrite ll_read_lookups_seqM, c02_read_lookups_seqM.
    rewrite (seqM_commute _ (read_lookup_subs t data)).
    2:{ intros o s. apply ll_read_lookup_safe. }
    2:{ intros o. unfold read_lookup_subs. apply safe_bind; [|intros; apply safe_ok].
        apply omapM_safe. intros p. apply read_subtable_safe. exact Hb. }
    rewrite (seqM_commute _ (decode_lookup t data)).
    2:{ intros o s. apply (read_lookup_good data (sr_concrete t data) gtab_lookupCap).
        intros p tp. apply sr_concrete_good. exact Hb. }
    2:{ intros l. unfold decode_lookup. apply safe_bind; [|intros; apply safe_ok].
        apply omapM_safe. intros [e o|p tp f]; cbn [decode_sub]; [apply safe_err|].
        apply read_subtable_safe. exact Hb. }
    apply seqM_ext. intros o s. symmetry. exact (parse_agree t data Hb pos o s).
  Qed.
End LookupList.

(* ------------------------------------------------------------------ *)
(* whole tables                                                        *)

(* what both models decode: the feature list (tag as a 32-bit number) and the
   lookup list; a nil list and an empty list are the same *)
Definition shared_of_obs (o : info_obs) : list (N * list N) * list lookupC :=
  (map (fun f : ModelFL.feature => (rd32 (fst f), snd f))
       (match o_features o with Some l => l | None => [] end),
   match o_lookups o with Some l => l | None => [] end).

Definition shared_of_dec (x : list C02.Model.feature * list lookupC) : list (N * list N) * list lookupC :=
  (map (fun f => (f_tag f, f_lookups f)) (fst x), snd x).

Lemma feat_eq_map fl fs :
  Forall2 feat_eq fl fs ->
  map (fun f : ModelFL.feature => (rd32 (fst f), snd f)) fl = map (fun f => (f_tag f, f_lookups f)) fs.
Proof. induction 1 as [|a b fl fs [H1 H2] _ IH]; cbn [map]; [reflexivity|]. now rewrite H1, H2, IH. Qed.

Theorem readers_agree_l conv_ok t data :
  C08.Model.bytes_lt data ->
  omap shared_of_obs (M_info_read conv_ok t data) = omap shared_of_dec (M_gtab_decode t data).
Proof.
  intros Hb.
  destruct data as [|a0 [|a1 [|b0 [|b1 [|c0 [|c1 [|d0 [|d1 [|e0 [|e1 r]]]]]]]]]]; try reflexivity.
  unfold M_info_read. cbv beta iota.
  set (h := [a0; a1; b0; b1; c0; c1; d0; d1; e0; e1]).
  set (data := a0 :: a1 :: b0 :: b1 :: c0 :: c1 :: d0 :: d1 :: e0 :: e1 :: r) in *.
  unfold M_gtab_decode, M_gtab_read, read_gtab.
  assert (Hh : get data 0 10 = Some h).
  { rewrite get_seek by lia. reflexivity. }
  rewrite Hh.
  change (rd16 h) with (w16 a0 a1). change (rd16 (skipn 2 h)) with (w16 b0 b1).
  change (rd16 (skipn 4 h)) with (w16 c0 c1). change (rd16 (skipn 6 h)) with (w16 d0 d1).
  change (rd16 (skipn 8 h)) with (w16 e0 e1).
  change c08d_majorVersion with 1. change c08d_maxMinorVersion with 1.
  destruct (negb (w16 a0 a1 =? 1) || (1 <? w16 b0 b1)); [reflexivity|].
  (* FeatureVariationsOffset *)
  assert (Hfv : (if w16 b0 b1 =? 1
                 then match get data 10 4 with None => None | Some b => Some (rd32 b) end
                 else Some 0) =
                match (if w16 b0 b1 =? 1
                       then match r with
                            | f0 :: f1 :: f2 :: f3 :: _ => Ok (f0 * 16777216 + f1 * 65536 + f2 * 256 + f3)
                            | _ => Err
                            end
                       else Ok 0) with Ok v => Some v | _ => None end).
  { destruct (w16 b0 b1 =? 1); [|reflexivity]. rewrite get4_seek.
    assert (Hs10 : seek data 10 = r) by (rewrite seek_unfold; reflexivity). rewrite Hs10.
    destruct r as [|f0 [|f1 [|f2 [|f3 r']]]]; reflexivity. }
  rewrite Hfv. clear Hfv.
  destruct (if w16 b0 b1 =? 1
            then match r with
                 | f0 :: f1 :: f2 :: f3 :: _ => Ok (f0 * 16777216 + f1 * 65536 + f2 * 256 + f3)
                 | _ => Err
                 end
            else Ok 0) as [fv| | |] eqn:Efv; cbn [obind omap]; try reflexivity;
    try (destruct (w16 b0 b1 =? 1); [destruct r as [|f0 [|f1 [|f2 [|f3 r']]]]|]; discriminate).
  destruct ((w16 c0 c1 =? 0) || (w16 e0 e1 =? 0)); [reflexivity|].
  change (len data) with (lenN data).
  destruct (existsb _ [w16 c0 c1; w16 d0 d1; w16 e0 e1]); [reflexivity|].
  destruct ((negb (fv =? 0) && (fv <? (if w16 b0 b1 =? 1 then 14 else 10))) || (lenN data <=? fv)); [reflexivity|].
  (* script list *)
  pose proof (script_list_agree conv_ok data (w16 c0 c1)) as HS.
  destruct (sl_read_safe conv_ok data (w16 c0 c1)) as [S1 S2].
  destruct (read_script_list_good gtab_maxScriptListWork (len data) data (w16 c0 c1)) as [S3 S4].
  change (len data) with (lenN data) in *.
  destruct (M_sl_read conv_ok data (w16 c0 c1)) as [sl| | |],
           (read_script_list gtab_maxScriptListWork (lenN data) data (w16 c0 c1)) as [bud| | |];
    cbn [is_ok obind omap] in *; try congruence; try reflexivity.
  (* feature list *)
  pose proof (feature_list_agree data (w16 d0 d1)) as HF.
  destruct (M_fl_read data (w16 d0 d1)) as [fl| | |], (read_feature_list data (w16 d0 d1)) as [fs| | |];
    cbn [obind omap]; try contradiction; try reflexivity.
  (* lookup list *)
  pose proof (lookup_list_agree t data Hb (w16 e0 e1)) as HL.
  destruct (M_ll_read data (w16 e0 e1) (ext_of t)) as [obs| | |],
           (read_lookup_list data (sr_concrete t data) gtab_lookupCap (w16 e0 e1)) as [ls| | |];
    cbn [obind omap g_lookups g_features] in *.
  all: try discriminate HL.
  all: try reflexivity.
  all: try (rewrite <- HL; reflexivity).
  all: try (rewrite HL; reflexivity).
  all: try (exfalso;
            assert (Hsafe : safe (omapM (read_lookup_subs t data) obs))
              by (apply omapM_safe; intros o; unfold read_lookup_subs;
                  apply safe_bind; [|intros; apply safe_ok];
                  apply omapM_safe; intros p; apply read_subtable_safe; exact Hb);
            destruct Hsafe; congruence).
  all: try (exfalso;
            assert (Hsafe : safe (omapM (decode_lookup t data) ls))
              by (apply omapM_safe; intros l; unfold decode_lookup;
                  apply safe_bind; [|intros; apply safe_ok];
                  apply omapM_safe; intros [e o|p tp f]; cbn [decode_sub]; [apply safe_err|];
                  apply read_subtable_safe; exact Hb);
            destruct Hsafe; congruence).
  rewrite <- HL.
  destruct (omapM (read_lookup_subs t data) obs) as [out| | |]; cbn [obind omap]; try reflexivity.
  unfold shared_of_obs, shared_of_dec. cbn [o_features o_lookups fst snd].
  rewrite (feat_eq_map _ _ HF). reflexivity.
Qed.
