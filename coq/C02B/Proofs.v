(* C02B/Proofs.v — gtab.Read with the real subtable readers: totality, work
   bounds, decoded size. *)
From Coq Require Import List NArith ZArith Bool Lia.
From Common Require Import Bytes Outcome.
From Gen Require Import C02 C08 C08D.
From C08 Require Import Model ModelSub ModelFL.
From C08C Require Import Util.
From C02 Require Import Model Proofs.
From C08D Require Import Model Spec Tie.
From C08D Require Proofs_props.
From C02B Require Import Model Proofs_readers.
Import ListNotations.
Local Open Scope N_scope.

(* C02's [good], C08's [safe]: the same predicate; C02's and C08's [bytes_lt] too *)
Lemma good_safe {A} (x : outcome A) : safe x -> good x.
Proof. exact (fun H => H). Qed.

Lemma bytes_lt_08 data : C02.Proofs.bytes_lt data -> C08.Model.bytes_lt data.
Proof. exact (fun H => H). Qed.

(* ---- the subtable reader parameter ---- *)

Lemma sr_concrete_good t data pos tp : C02.Proofs.bytes_lt data -> good (sr_concrete t data pos tp).
Proof.
  intros Hb. unfold sr_concrete.
  destruct (read_subtable_any_safe t data pos tp (bytes_lt_08 data Hb)) as [H1 H2].
  destruct (read_subtable_any t data pos tp) as [[e o|s]| | |]; try congruence; split; discriminate.
Qed.

(* a leaf is where a real reader succeeded: its content can be read again *)
Lemma sr_concrete_leaf t data pos tp p tp' f :
  sr_concrete t data pos tp = Ok (SLeaf p tp' f) ->
  p = pos /\ tp' = tp /\ exists s, read_subtable t data pos tp = Ok s.
Proof.
  unfold sr_concrete, read_subtable.
  destruct (read_subtable_any t data pos tp) as [[e o|s]| | |]; try discriminate.
  intros H. injection H as <- <- _. repeat split. exists s. reflexivity.
Qed.

(* ---- totality ---- *)

Lemma gtab_read_good t data : C02.Proofs.bytes_lt data -> good (M_gtab_read t data).
Proof.
  intros Hb. unfold M_gtab_read. apply read_gtab_good. intros pos tp. apply sr_concrete_good. exact Hb.
Qed.

Lemma omapM_safe {A B} (f : A -> outcome B) l : (forall a, safe (f a)) -> safe (omapM f l).
Proof.
  intros H. induction l as [|a l IH]; cbn [omapM]; [apply safe_ok|].
  apply safe_bind; [apply H|intros b _]. apply safe_bind; [exact IH|intros; apply safe_ok].
Qed.

Lemma gtab_decode_good t data : C02.Proofs.bytes_lt data -> good (M_gtab_decode t data).
Proof.
  intros Hb. apply good_safe. unfold M_gtab_decode.
  apply safe_bind; [exact (gtab_read_good t data Hb)|intros g _].
  apply safe_bind; [|intros; apply safe_ok].
  apply omapM_safe. intros l. unfold decode_lookup.
  apply safe_bind; [|intros; apply safe_ok].
  apply omapM_safe. intros [e o|p tp f]; cbn [decode_sub]; [apply safe_err|].
  apply read_subtable_safe. exact (bytes_lt_08 data Hb).
Qed.

(* ---- work: objects and subtable-reader calls ---- *)

Lemma ext_calls_length base t : forall offs subs,
  (length (ext_calls base t offs subs) <= length offs)%nat.
Proof.
  induction offs as [|o ro IH]; intros subs; destruct subs as [|[tt eo|p tt f] rs]; cbn [ext_calls length]; try lia.
  specialize (IH rs). lia.
Qed.

Section Calls.
  Variable data : list N.
  Variable sr : N -> N -> outcome subt.
  Variable cap : N.

  Lemma read_lookup_calls pos off count l c' :
    read_lookup data sr cap pos off count = Ok (l, c') ->
    (length (l_calls l) <= 2 * length (l_subs l))%nat.
  Proof.
    unfold read_lookup.
    destruct (get data (pos + off) 6) as [b|]; [|discriminate].
    destruct (cap <? _); [discriminate|].
    destruct (get16s data (pos + off + 6) _) as [offs|]; [|discriminate].
    match goal with |- (match ?m with _ => _ end) = _ -> _ => destruct m as [mfs|] end; [|discriminate].
    destruct (read_subs sr (pos + off) (rd16 b) offs) as [subs| | |] eqn:Es; try discriminate.
    apply read_subs_length in Es.
    destruct subs as [|[tt eo|p tt f] rs].
    - intros H. injection H as <- _. cbn [l_calls l_subs]. rewrite map_length. cbn [length] in *. lia.
    - destruct (tt =? rd16 b); [discriminate|].
      destruct (resolve_ext sr (pos + off) tt offs (SExt tt eo :: rs)) as [subs'| | |] eqn:Er; try discriminate.
      apply resolve_ext_length in Er.
      intros H. injection H as <- _. cbn [l_calls l_subs]. rewrite app_length, map_length.
      pose proof (ext_calls_length (pos + off) tt offs (SExt tt eo :: rs)). lia.
    - intros H. injection H as <- _. cbn [l_calls l_subs]. rewrite map_length. cbn [length] in *. lia.
  Qed.

  Definition total_subs (ls : list lookup) : nat := fold_right (fun l acc => length (l_subs l) + acc)%nat 0%nat ls.

  Lemma read_lookups_calls pos offs : forall count ls,
    read_lookups data sr cap pos offs count = Ok ls ->
    (length (all_calls ls) <= 2 * total_subs ls)%nat.
  Proof.
    induction offs as [|o r IH]; intros count ls; cbn [read_lookups].
    - intros H. injection H as <-. cbn. lia.
    - destruct (read_lookup data sr cap pos o count) as [[l c']| | |] eqn:El; try discriminate.
      destruct (read_lookups data sr cap pos r c') as [ls'| | |] eqn:Er; try discriminate.
      intros H. injection H as <-. unfold all_calls. cbn [flat_map total_subs fold_right].
      rewrite app_length. pose proof (read_lookup_calls _ _ _ _ _ El). specialize (IH _ _ Er).
      unfold all_calls in IH. fold (total_subs ls'). lia.
  Qed.

  Lemma read_lookup_list_calls pos ls :
    read_lookup_list data sr cap pos = Ok ls -> (length (all_calls ls) <= 2 * total_subs ls)%nat.
  Proof.
    unfold read_lookup_list.
    destruct (get16 data pos); [|discriminate].
    destruct (get16s data (pos + 2) _); [|discriminate]. apply read_lookups_calls.
  Qed.
End Calls.

Lemma total_subs_le ls : N.of_nat (total_subs ls) + N.of_nat (length ls) = lookups_size ls.
Proof.
  induction ls as [|l ls IH]; [reflexivity|].
  change (lookups_size (l :: ls)) with (1 + N.of_nat (length (l_subs l)) + lookups_size ls).
  change (total_subs (l :: ls)) with (length (l_subs l) + total_subs ls)%nat.
  cbn [length]. lia.
Qed.

Lemma read_gtab_calls maxwork cap sr data g :
  read_gtab maxwork cap sr data = Ok g ->
  (length (all_calls (g_lookups g)) <= 2 * total_subs (g_lookups g))%nat.
Proof.
  unfold read_gtab.
  destruct (get data 0 10) as [h|]; [|discriminate].
  destruct (negb (rd16 h =? 1) || (1 <? rd16 (skipn 2 h))); [discriminate|].
  match goal with |- (match ?m with _ => _ end) = _ -> _ => destruct m end; [|discriminate].
  destruct ((rd16 (skipn 4 h) =? 0) || (rd16 (skipn 8 h) =? 0)).
  { intros H. injection H as <-. cbn. lia. }
  match goal with |- (if ?c then _ else _) = _ -> _ => destruct c end; [discriminate|].
  match goal with |- (if ?c then _ else _) = _ -> _ => destruct c end; [discriminate|].
  destruct (read_script_list maxwork (len data) data (rd16 (skipn 4 h))); try discriminate.
  destruct (read_feature_list data (rd16 (skipn 6 h))); try discriminate.
  destruct (read_lookup_list data (sr data) cap (rd16 (skipn 8 h))) as [ls| | |] eqn:El; try discriminate.
  intros H. injection H as <-. cbn [g_lookups]. eapply read_lookup_list_calls. exact El.
Qed.

Lemma gtab_read_work t data g :
  C02.Proofs.bytes_lt data -> M_gtab_read t data = Ok g ->
  lookups_size (g_lookups g) <= gtab_lookupCap /\
  N.of_nat (length (all_calls (g_lookups g))) <= 2 * gtab_lookupCap /\
  distinct_calls (g_lookups g) <= 2 * gtab_lookupCap /\
  (g_features g = [] \/ features_size (g_features g) <= 65535 + 4 + 2 * 65535).
Proof.
  intros Hb H. unfold M_gtab_read in H.
  destruct (read_gtab_sizes _ _ _ _ _ Hb H) as [Hs Hf].
  pose proof (read_gtab_calls _ _ _ _ _ H) as Hc.
  pose proof (total_subs_le (g_lookups g)) as Ht.
  pose proof (distinct_calls_le (g_lookups g)) as Hd.
  repeat split; try assumption; lia.
Qed.

(* ---- decoded size ---- *)

Lemma omapM_length {A B} (f : A -> outcome B) l : forall r, omapM f l = Ok r -> length r = length l.
Proof.
  induction l as [|a l IH]; intros r; cbn [omapM].
  - intros H. injection H as <-. reflexivity.
  - destruct (f a); cbn [obind]; try discriminate.
    destruct (omapM f l) as [tl| | |]; cbn [obind]; try discriminate.
    intros H. injection H as <-. cbn [length]. f_equal. apply IH. reflexivity.
Qed.

Lemma sumN_le_bound (l : list N) B : Forall (fun x => x <= B) l -> sumN l <= N.of_nat (length l) * B.
Proof.
  induction 1 as [|x l Hx _ IH]; cbn [sumN fold_right length]; [lia|].
  fold (sumN l). lia.
Qed.

Definition subs_count (ls : list lookupC) : nat := fold_right (fun l acc => length (lc_subs l) + acc)%nat 0%nat ls.

Lemma lookups_cells_bound ls B :
  (forall l s, In l ls -> In s (lc_subs l) -> subtable_cells s <= B) ->
  lookups_cells ls <= N.of_nat (subs_count ls) * B.
Proof.
  induction ls as [|l ls IH]; intros H; [cbn; lia|].
  unfold lookups_cells in *. cbn [map sumN fold_right subs_count]. fold (sumN (map lookup_cells ls)).
  assert (H1 : lookup_cells l <= N.of_nat (length (lc_subs l)) * B).
  { unfold lookup_cells. rewrite <- (map_length subtable_cells). apply sumN_le_bound.
    apply Forall_forall. intros x Hx. apply in_map_iff in Hx. destruct Hx as (s & <- & Hs).
    apply (H l s); [left; reflexivity|exact Hs]. }
  specialize (IH (fun l' s Hl Hs => H l' s (or_intror Hl) Hs)). fold (subs_count ls). lia.
Qed.

Lemma decode_lookups_count t data : forall ls out,
  omapM (decode_lookup t data) ls = Ok out -> subs_count out = total_subs ls.
Proof.
  induction ls as [|l ls IH]; intros out; cbn [omapM].
  - intros H. injection H as <-. reflexivity.
  - destruct (decode_lookup t data l) as [lc| | |] eqn:El; cbn [obind]; try discriminate.
    destruct (omapM (decode_lookup t data) ls) as [tl| | |] eqn:Et; cbn [obind]; try discriminate.
    intros H. injection H as <-. cbn [subs_count total_subs fold_right].
    fold (subs_count tl). fold (total_subs ls). rewrite (IH tl eq_refl). f_equal.
    unfold decode_lookup in El.
    destruct (omapM (decode_sub t data) (l_subs l)) as [subs| | |] eqn:Es; cbn [obind] in El; try discriminate.
    injection El as <-. cbn [lc_subs]. apply (omapM_length _ _ _ Es).
Qed.

Lemma gtab_decoded_cells_if t data fs ls B :
  C02.Proofs.bytes_lt data -> M_gtab_decode t data = Ok (fs, ls) ->
  (forall l s, In l ls -> In s (lc_subs l) -> subtable_cells s <= B) ->
  lookups_cells ls <= gtab_lookupCap * B.
Proof.
  intros Hb H HB. unfold M_gtab_decode in H.
  destruct (M_gtab_read t data) as [g| | |] eqn:Eg; cbn [obind] in H; try discriminate.
  destruct (omapM (decode_lookup t data) (g_lookups g)) as [out| | |] eqn:Eo; cbn [obind] in H; try discriminate.
  injection H as <- <-.
  destruct (gtab_read_work t data g Hb Eg) as (Hs & _).
  pose proof (decode_lookups_count t data _ _ Eo) as Hc.
  pose proof (total_subs_le (g_lookups g)) as Ht.
  pose proof (lookups_cells_bound out B HB) as Hl. rewrite Hc in Hl.
  assert (N.of_nat (total_subs (g_lookups g)) <= gtab_lookupCap) by lia.
  nia.
Qed.

(* an accepted table decodes: every leaf of an accepted table reads again *)
Lemma read_subs_leaves t data base tp : forall offs subs,
  read_subs (sr_concrete t data) base tp offs = Ok subs ->
  Forall (fun s => match s with SLeaf p tp' _ => exists x, read_subtable t data p tp' = Ok x | SExt _ _ => True end) subs.
Proof.
  induction offs as [|o r IH]; intros subs; cbn [read_subs].
  - intros H. injection H as <-. constructor.
  - destruct (sr_concrete t data (base + o) tp) as [s| | |] eqn:Es; try discriminate.
    destruct (read_subs (sr_concrete t data) base tp r) as [ss| | |] eqn:Er; try discriminate.
    intros H. injection H as <-. constructor; [|apply IH; reflexivity].
    destruct s as [e eo|p tp' f]; [exact I|].
    destruct (sr_concrete_leaf _ _ _ _ _ _ _ Es) as (-> & -> & x & Hx). eauto.
Qed.

Definition leaf_ok (t : table) (data : list N) (s : subt) : Prop :=
  match s with
  | SLeaf p tp' _ => exists x, read_subtable t data p tp' = Ok x
  | SExt _ _ => False
  end.

Lemma resolve_ext_leaves t data base tp : tp <> ext_of t -> forall offs subs subs',
  resolve_ext (sr_concrete t data) base tp offs subs = Ok subs' -> Forall (leaf_ok t data) subs'.
Proof.
  intros Hne. induction offs as [|o ro IH]; intros subs subs'; destruct subs as [|[tt eo|p tt f] rs];
    cbn [resolve_ext]; try discriminate.
  - intros H. injection H as <-. constructor.
  - destruct (negb (tt =? tp)); [discriminate|].
    destruct (sr_concrete t data (base + o + eo) tp) as [s| | |] eqn:Es; try discriminate.
    destruct (resolve_ext (sr_concrete t data) base tp ro rs) as [ss| | |] eqn:Er; try discriminate.
    intros H. injection H as <-. constructor; [|eapply IH; exact Er].
    destruct s as [e eo'|p tp' f].
    + exfalso. unfold sr_concrete in Es.
      destruct (read_subtable_any t data (base + o + eo) tp) as [[e1 o1|s1]| | |] eqn:Ea; try discriminate.
      exact (Proofs_props.read_any_not_ext t data _ tp e1 o1 Hne Ea).
    + destruct (sr_concrete_leaf _ _ _ _ _ _ _ Es) as (-> & -> & x & Hx). exists x. exact Hx.
Qed.

(* the first pass of a lookup of the extension type yields extension records only *)
Lemma sr_concrete_ext_type t data pos s :
  sr_concrete t data pos (ext_of t) = Ok s -> exists e o, s = SExt e o.
Proof.
  unfold sr_concrete, read_subtable_any.
  destruct (seek data pos) as [|a [|b r]]; try discriminate.
  rewrite dispatch_spec. cbn [obind].
  destruct (S_dispatch t (ext_of t) (w16 a b)) as [k|] eqn:D; [|discriminate].
  assert (k = RExt).
  { pose proof (dispatch_spec t (ext_of t) (w16 a b)) as Hd. rewrite D in Hd.
    destruct t; cbn [ext_of] in *; unfold S_dispatch in D;
      change c08_gsubExt with 7 in *; change c08_gposExt with 9 in *;
      destruct ((10 <=? _) || (10 <=? w16 a b)); try discriminate;
      destruct (w16 a b) as [|[[|[]|]|[]|]]; try discriminate; injection D as <-; reflexivity. }
  subst k. cbn [run_reader].
  destruct (seek data (pos + 2)) as [|c [|d [|e [|f [|g [|h r']]]]]]; try discriminate.
  intros H. injection H as <-. eauto.
Qed.

Lemma read_subs_not_ext t data base tp : tp <> ext_of t -> forall offs subs,
  read_subs (sr_concrete t data) base tp offs = Ok subs -> Forall (leaf_ok t data) subs.
Proof.
  intros Hne offs subs H. pose proof (read_subs_leaves t data base tp offs subs H) as HL.
  assert (Hno : forall s, In s subs -> forall e o, s <> SExt e o).
  { clear HL. revert subs H. induction offs as [|o r IH]; intros subs; cbn [read_subs].
    - intros H. injection H as <-. intros s [].
    - destruct (sr_concrete t data (base + o) tp) as [s0| | |] eqn:Es; try discriminate.
      destruct (read_subs (sr_concrete t data) base tp r) as [ss| | |] eqn:Er; try discriminate.
      intros H. injection H as <-. intros s [<-|Hs]; [|exact (IH ss eq_refl s Hs)].
      intros e o0 ->. unfold sr_concrete in Es.
      destruct (read_subtable_any t data (base + o) tp) as [[e1 o1|s1]| | |] eqn:Ea; try discriminate.
      exact (Proofs_props.read_any_not_ext t data _ tp e1 o1 Hne Ea). }
  apply Forall_forall. intros s Hs. pose proof (proj1 (Forall_forall _ _) HL s Hs) as Hl.
  destruct s as [e o|p tp' f]; [exfalso; exact (Hno _ Hs e o eq_refl)|exact Hl].
Qed.

Section Accepted.
  Variable t : table.
  Variable data : list N.
  Variable cap : N.

  Lemma read_lookup_leaves pos off count l c' :
    read_lookup data (sr_concrete t data) cap pos off count = Ok (l, c') ->
    Forall (leaf_ok t data) (l_subs l).
  Proof.
    unfold read_lookup.
    destruct (get data (pos + off) 6) as [b|]; [|discriminate].
    destruct (cap <? _); [discriminate|].
    destruct (get16s data (pos + off + 6) _) as [offs|]; [|discriminate].
    match goal with |- (match ?m with _ => _ end) = _ -> _ => destruct m as [mfs|] end; [|discriminate].
    destruct (read_subs (sr_concrete t data) (pos + off) (rd16 b) offs) as [subs| | |] eqn:Es; try discriminate.
    destruct subs as [|[tt eo|p tt f] rs].
    - intros H. injection H as <- _. constructor.
    - destruct (tt =? rd16 b) eqn:Et; [discriminate|]. apply N.eqb_neq in Et.
      destruct (resolve_ext (sr_concrete t data) (pos + off) tt offs (SExt tt eo :: rs)) as [subs'| | |] eqn:Er;
        try discriminate.
      intros H. injection H as <- _. cbn [l_subs].
      (* the lookup's own type is the extension type: only then is a record an extension record *)
      assert (Hext : rd16 b = ext_of t).
      { destruct (N.eq_dec (rd16 b) (ext_of t)) as [E|E]; [exact E|exfalso].
        pose proof (read_subs_not_ext t data _ _ E _ _ Es) as HL.
        apply Forall_cons_iff in HL. destruct HL as [[] _]. }
      apply (resolve_ext_leaves t data (pos + off) tt ltac:(congruence) _ _ _ Er).
    - intros H. injection H as <- _. cbn [l_subs].
      assert (Hne : rd16 b <> ext_of t).
      { intros E. destruct offs as [|o ro]; cbn [read_subs] in Es; [discriminate|].
        rewrite E in Es.
        destruct (sr_concrete t data (pos + off + o) (ext_of t)) as [s0| | |] eqn:E0; try discriminate.
        destruct (sr_concrete_ext_type t data _ _ E0) as (e & o' & ->).
        destruct (read_subs _ _ _ ro); discriminate. }
      exact (read_subs_not_ext t data _ _ Hne _ _ Es).
  Qed.

  Lemma read_lookups_leaves pos offs : forall count ls,
    read_lookups data (sr_concrete t data) cap pos offs count = Ok ls ->
    Forall (fun l => Forall (leaf_ok t data) (l_subs l)) ls.
  Proof.
    induction offs as [|o r IH]; intros count ls; cbn [read_lookups].
    - intros H. injection H as <-. constructor.
    - destruct (read_lookup data (sr_concrete t data) cap pos o count) as [[l c']| | |] eqn:El; try discriminate.
      destruct (read_lookups data (sr_concrete t data) cap pos r c') as [ls'| | |] eqn:Er; try discriminate.
      intros H. injection H as <-. constructor; [eapply read_lookup_leaves; exact El|eapply IH; exact Er].
  Qed.
End Accepted.

Lemma decode_subs_ok t data subs :
  Forall (leaf_ok t data) subs -> exists out, omapM (decode_sub t data) subs = Ok out.
Proof.
  induction 1 as [|s subs Hs _ [out IH]]; [exists []; reflexivity|].
  destruct s as [e o|p tp f]; [destruct Hs|]. destruct Hs as [x Hx].
  exists (x :: out). cbn [omapM decode_sub]. rewrite Hx, IH. reflexivity.
Qed.

Lemma decode_lookups_ok t data ls :
  Forall (fun l => Forall (leaf_ok t data) (l_subs l)) ls ->
  exists out, omapM (decode_lookup t data) ls = Ok out.
Proof.
  induction 1 as [|l ls Hl _ [out IH]]; [exists []; reflexivity|].
  destruct (decode_subs_ok t data _ Hl) as [subs Hs].
  eexists. cbn [omapM]. unfold decode_lookup at 1. rewrite Hs. cbn [obind]. rewrite IH. reflexivity.
Qed.

(* whatever gtab.Read accepts decodes: every subtable slot of an accepted
   table holds a subtable that one of the real readers returned *)
Lemma gtab_accept_decodes t data g :
  M_gtab_read t data = Ok g -> exists ls, M_gtab_decode t data = Ok (g_features g, ls).
Proof.
  intros H. unfold M_gtab_decode. rewrite H. cbn [obind].
  assert (HL : Forall (fun l => Forall (leaf_ok t data) (l_subs l)) (g_lookups g)).
  { unfold M_gtab_read, read_gtab in H.
    destruct (get data 0 10) as [h|]; [|discriminate].
    destruct (negb (rd16 h =? 1) || (1 <? rd16 (skipn 2 h))); [discriminate|].
    match type of H with (match ?m with _ => _ end) = _ => destruct m end; [|discriminate].
    destruct ((rd16 (skipn 4 h) =? 0) || (rd16 (skipn 8 h) =? 0)).
    { injection H as <-. constructor. }
    match type of H with (if ?c then _ else _) = _ => destruct c end; [discriminate|].
    match type of H with (if ?c then _ else _) = _ => destruct c end; [discriminate|].
    destruct (read_script_list _ _ _ _); try discriminate.
    destruct (read_feature_list _ _); try discriminate.
    destruct (read_lookup_list data (sr_concrete t data) gtab_lookupCap (rd16 (skipn 8 h))) as [ls| | |] eqn:El;
      try discriminate.
    injection H as <-. cbn [g_lookups]. unfold read_lookup_list in El.
    destruct (get16 data _); [|discriminate]. destruct (get16s data _ _); [|discriminate].
    eapply read_lookups_leaves. exact El. }
  destruct (decode_lookups_ok t data _ HL) as [out Ho]. exists out. rewrite Ho. reflexivity.
Qed.
