(* C02B/Model.v — part C02B of property C02: the CONCRETE GSUB/GPOS reader.

   C02 models the top-level reader readGtab (header, script list, feature
   list, lookup list with extension resolution) with the subtable reader as a
   parameter, and proves it total for every non-panicking subtable reader.
   C08D models the real subtable readers readGsubSubtable / readGposSubtable
   (the dispatch regenerated from the Go source, the readers of all 20 subtable
   formats from C08, C08B, C08C).  This part plugs the second into the first:
   nothing is copied, both developments are imported.

   [sr_concrete t] is C02's subtable-reader parameter instantiated with the
   real readers of table t: an extension record becomes C02's [SExt], every
   other subtable a leaf [SLeaf pos type format] that identifies where it was
   read - its decoded content is [read_subtable_any t data pos type], a
   function of the bytes (the decode-once cache of readLookupList is
   semantically transparent for that reason).
   [M_gtab_read] is gtab.Read: C02's [read_gtab] with the regenerated
   constants and [sr_concrete]; [M_gtab_decode] adds the decoded subtables. *)
From Coq Require Import List NArith ZArith Bool Lia.
From Common Require Import Bytes Outcome.
From Gen Require Import C02 C08 C08D.
From C08 Require Import Model ModelSub ModelFL.
From C02 Require Import Model.
From C08D Require Import Model.
Import ListNotations.
Local Open Scope N_scope.

(* the subtable reader of table t as C02's parameter *)
Definition sr_concrete (t : table) (data : list N) (pos tp : N) : outcome subt :=
  match read_subtable_any t data pos tp with
  | Ok (SRExt e o) => Ok (SExt e o)
  | Ok (SRSub _) =>
    Ok (SLeaf pos tp (match seek data pos with a :: b :: _ => w16 a b | _ => 0 end))
  | Err => Err
  | Panic => Panic
  | OutOfFuel => OutOfFuel
  end.

(* gtab.Read *)
Definition M_gtab_read (t : table) (data : list N) : outcome gtab :=
  read_gtab gtab_maxScriptListWork gtab_lookupCap (sr_concrete t) data.

(* the decoded content of a lookup: every leaf read again at its position *)
Definition decode_sub (t : table) (data : list N) (s : subt) : outcome subtable :=
  match s with
  | SLeaf pos tp _ => read_subtable t data pos tp
  | SExt _ _ => Err                  (* an extension record left unresolved: never in an accepted table *)
  end.

Definition decode_lookup (t : table) (data : list N) (l : C02.Model.lookup) : outcome lookupC :=
  subs <- omapM (decode_sub t data) (l_subs l) ;;
  Ok {| lc_type := l_type l; lc_flags := l_flags l; lc_mfs := l_mfs l; lc_subs := subs |}.

(* what gtab.Read returns, as far as C02's model goes (the script list is
   modelled there at the accept/reject + work level): features and lookups *)
Definition M_gtab_decode (t : table) (data : list N)
  : outcome (list C02.Model.feature * list lookupC) :=
  g <- M_gtab_read t data ;;
  ls <- omapM (decode_lookup t data) (g_lookups g) ;;
  Ok (g_features g, ls).

(* ------------------------------------------------------------------ *)
(* decoded size: the number of scalar cells (glyph ids, classes, indices,
   coordinates, record fields) a decoded subtable holds - what the Go reader
   allocates for it, up to a constant factor per cell *)

Definition sumN (l : list N) : N := fold_right N.add 0 l.
Definition cells_nn (l : list (list N)) : N := sumN (map (fun x => 1 + lenN x) l).
Definition cells_acts (l : list ModelCtx.action) : N := 2 * lenN l.
Definition cells_srule (r : ModelCtx.srule) : N := 1 + lenN (fst r) + cells_acts (snd r).
Definition cells_crule (r : ModelChain.crule) : N :=
  1 + lenN (ModelChain.cr_back r) + lenN (ModelChain.cr_in r) + lenN (ModelChain.cr_look r) +
  cells_acts (ModelChain.cr_acts r).
Definition cells_osets {R} (f : R -> N) (l : list (option (list R))) : N :=
  sumN (map (fun o => match o with None => 1 | Some rs => 1 + sumN (map f rs) end) l).

Definition subtable_cells (s : subtable) : N :=
  match s with
  | TGsub11 gl _ => 1 + lenN gl
  | TGsub12 gl subst => lenN gl + lenN subst
  | TGsub21 gl seqs | TGsub31 gl seqs => lenN gl + cells_nn seqs
  | TGsub41 gl sets => lenN gl + sumN (map (fun q : list lig => 1 + sumN (map (fun l : lig => 2 + lenN (snd l)) q)) sets)
  | TGsub81 gl bk la subst => lenN gl + cells_nn bk + cells_nn la + lenN subst
  | TGpos11 gl _ => lenN gl + 8
  | TGpos12 gl adj => lenN gl + 8 * lenN adj
  | TGpos21 gs => sumN (map (fun g : ModelSub2.pgroup => 1 + 17 * lenN (snd g)) gs)
  | TGpos22 gl cd1 cd2 adj => lenN gl + 2 * lenN cd1 + 2 * lenN cd2 + sumN (map (fun row : list ModelSub2.vr2 => 1 + 16 * lenN row) adj)
  | TGpos31 gl recs => lenN gl + 4 * lenN recs
  | TGpos41 glm glb marks base | TGpos61 glm glb marks base =>
    lenN glm + lenN glb + 3 * lenN marks + sumN (map (fun row : list C08B.Model.anchor => 1 + 2 * lenN row) base)
  | TGpos51 glm gll marks ligs =>
    lenN glm + lenN gll + 3 * lenN marks +
    sumN (map (fun lg : list (list C08B.Model.anchor) => 1 + sumN (map (fun row : list C08B.Model.anchor => 1 + 2 * lenN row) lg)) ligs)
  | TSeq1 gl rules => lenN gl + cells_osets cells_srule rules
  | TSeq2 gl cls rules => lenN gl + 2 * lenN cls + cells_osets cells_srule rules
  | TSeq3 inp acts => cells_nn inp + cells_acts acts
  | TCh1 gl rules => lenN gl + cells_osets cells_crule rules
  | TCh2 gl cb ci cl rules => lenN gl + 2 * (lenN cb + lenN ci + lenN cl) + cells_osets cells_crule rules
  | TCh3 bk inp la acts => cells_nn bk + cells_nn inp + cells_nn la + cells_acts acts
  end.

Definition lookup_cells (l : lookupC) : N := sumN (map subtable_cells (lc_subs l)).
Definition lookups_cells (ls : list lookupC) : N := sumN (map lookup_cells ls).

(* a bound linear in the input size, with the constants of the harness guard
   (allocation <= 96 MiB + 2048 * len); what the statement of property C02 asks *)
Definition linear_bound (data : list N) : N := 100663296 + 2048 * lenN data.
