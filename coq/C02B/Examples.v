(* C02B/Examples.v — non-vacuity and the witnesses of the refuted statements. *)
From Coq Require Import List NArith ZArith Bool Lia.
From Common Require Import Bytes Outcome.
From Gen Require Import C02 C08 C08D.
From C08 Require Import Model ModelSub ModelFL.
From C08C Require Import ModelPre.
From C02 Require Import Model Proofs.
From C08D Require Import Model Spec.
From C08D Require Examples.
From C02B Require Import Model.
Import ListNotations.
Local Open Scope N_scope.

Definition bytes_ltb (l : list N) : bool := forallb (fun b => b <? 256) l.

(* the GSUB table with every subtable kind of C08D's Examples, as bytes *)
Definition bytes_of (o : outcome (list N)) : list N := match o with Ok b => b | _ => [] end.
Definition ex_bytes : list N := bytes_of (M_info_encode Examples.ex_gsub).

Example ex_bytes_ok : bytes_ltb ex_bytes = true /\ lenN ex_bytes = 658.
Proof. split; vm_compute; reflexivity. Qed.

(* gtab.Read with the real readers accepts it: 3 features, 8 lookups, 12 subtables *)
Example ex_accepted :
  match M_gtab_read GSUB ex_bytes with
  | Ok g => (length (g_features g), length (g_lookups g), lookups_size (g_lookups g),
             length (all_calls (g_lookups g)))
  | _ => (0%nat, 0%nat, 0, 0%nat)
  end = (3%nat, 8%nat, 20, 12%nat).
Proof. vm_compute. reflexivity. Qed.

(* the two readers - C02's top-level reader with the real subtable readers, and
   C08D's composition of C08's list readers - decode the same lookups *)
Example ex_readers_agree :
  match M_gtab_decode GSUB ex_bytes, M_info_read Examples.conv_all GSUB ex_bytes with
  | Ok (fs, ls), Ok o =>
    o_lookups o = Some ls /\
    match o_features o with
    | Some fl => map (fun f => (rd32 (fst f), snd f)) fl = map (fun f => (f_tag f, f_lookups f)) fs
    | None => False
    end
  | _, _ => False
  end.
Proof. vm_compute. split; reflexivity. Qed.

(* as a GPOS table the same bytes are rejected (unknown subtable formats), truncated too *)
Example ex_rejected :
  M_gtab_read GPOS ex_bytes = Err /\ M_gtab_read GSUB (firstn 600 ex_bytes) = Err.
Proof. split; vm_compute; reflexivity. Qed.

(* the table of more than 64 KiB with extension records (C08D) is accepted:
   the extension pass doubles the subtable-reader calls of the converted lookups *)
Definition big_bytes : list N := bytes_of (M_info_encode Examples.big_info).

Example big_accepted :
  match M_gtab_read GSUB big_bytes with
  | Ok g => (map l_type (g_lookups g), lookups_size (g_lookups g), length (all_calls (g_lookups g)),
             distinct_calls (g_lookups g))
  | _ => ([], 0, 0%nat, 0)
  end = ([1; 1; 1; 1], 9, 6%nat, 6).
Proof. vm_compute. reflexivity. Qed.

(* ---- decoded size out of proportion to the input (open findings of C02) ---- *)

(* a GSUB 2.1 subtable whose n sequence offsets all point at one sequence of n
   glyphs (alloc:gtab.Read/GSUB:gsub2_1-aliased-sequences-16000) *)
Definition w_alias21 (n : N) : list N :=
  let seqOff := 6 + 2 * n in
  let covOff := seqOff + 2 + 2 * n in
  [0; 1] ++ be16 covOff ++ be16 n ++ flat_map be16 (many n seqOff) ++
  be16 n ++ flat_map be16 (iota (N.to_nat n) 1) ++
  [0; 2; 0; 1] ++ be16 1 ++ be16 n ++ be16 0.

Example w_alias21_quadratic :
  bytes_ltb (w_alias21 500) = true /\ lenN (w_alias21 500) = 2018 /\
  match read_subtable GSUB (w_alias21 500) 0 2 with
  | Ok s => subtable_cells s
  | _ => 0
  end = 251000.
Proof. repeat split; vm_compute; reflexivity. Qed.

(* a SeqContext3 whose k input coverage offsets all point at one range of 1000
   glyphs (alloc:gtab.Read/GSUB:seq3-aliased-coverage) *)
Definition w_alias_seq3 (k : N) : list N :=
  let covOff := 6 + 2 * k in
  [0; 3] ++ be16 k ++ be16 0 ++ flat_map be16 (many k covOff) ++
  [0; 2; 0; 1] ++ be16 0 ++ be16 999 ++ be16 0.

Example w_alias_seq3_amplified :
  bytes_ltb (w_alias_seq3 200) = true /\ lenN (w_alias_seq3 200) = 416 /\
  match read_subtable GSUB (w_alias_seq3 200) 0 5 with
  | Ok s => subtable_cells s
  | _ => 0
  end = 200200.
Proof. repeat split; vm_compute; reflexivity. Qed.

(* a GPOS 2.1 subtable whose n pair set offsets all point at one pair set of n
   pairs (the same pattern in another offset-array format) *)
Definition w_alias_gpos21 (n : N) : list N :=
  let psOff := 10 + 2 * n in
  let covOff := psOff + 2 + 4 * n in
  [0; 1] ++ be16 covOff ++ be16 4 ++ be16 0 ++ be16 n ++ flat_map be16 (many n psOff) ++
  be16 n ++ flat_map (fun g => be16 g ++ be16 7) (iota (N.to_nat n) 1) ++
  [0; 2; 0; 1] ++ be16 1 ++ be16 n ++ be16 0.

Example w_alias_gpos21_quadratic :
  bytes_ltb (w_alias_gpos21 200) = true /\ lenN (w_alias_gpos21 200) = 1222 /\
  match read_subtable GPOS (w_alias_gpos21 200) 0 2 with
  | Ok s => subtable_cells s
  | _ => 0
  end = 680200.
Proof. repeat split; vm_compute; reflexivity. Qed.
