From Coq Require Import Extraction ExtrOcamlBasic.
From Common Require Import Conv.
From Gen Require Import Consts C06 C06B.
From C06 Require Import Model.
From C06B Require Import Model.
Extraction "c06b_model.ml" conv_anchor gtab_actionBudget observe2 R_shape2 in_domain2.
