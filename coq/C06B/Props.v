(* C06B/Props.v — theorems about the extended reference shaper R_shape2
   (C06's R_shape + GPOS 3.1 cursive attachment + GPOS 5.1 mark-to-ligature
   attachment), stated against the constants the translator extracted from
   opentype/gtab on this run (lookup-flag bits incl. RightToLeft, GDEF classes,
   action budget).  "The implementation equals R_shape2 on in_domain2 inputs"
   is decided by the correspondence run, not here. *)
From Coq Require Import List NArith ZArith Bool Arith Lia.
From Gen Require Import Consts C06 C06B.
From C06 Require Import Model Spec Util Proofs.
From Common Require Import Outcome.
From C06B Require Import Model Proofs Proofs_chain Proofs_props Proofs_c07.
Import ListNotations.

(* B = gtab_actionBudget, the action budget regenerated from layout.go (Proofs_props.B) *)

(* ------------------------------------------------------------------------
   1. GPOS 3.1.  cursive_adds_exactly: at a covered glyph the subtable always
   matches and rewrites exactly that glyph; glyph id, text and x offset stay;
   the advance and the y offset are the closed forms cur_line / cur_cross of
   Model.v, which the case theorems below spell out as the anchor arithmetic
   of the specification; every other glyph of the sequence is untouched and
   the scan resumes at the next position. *)
Theorem cursive_adds_exactly : forall kp rtl seq a b recs g0 en ex s,
  nth_error seq a = Some g0 -> assoc (gid g0) recs = Some (en, ex) -> s_seq s = seq ->
  let prev := next_kept kp (rev (firstn a seq)) 0 in
  let next := next_kept kp (slice seq (S a) b) (S a) in
  let g' := mkG (gid g0) (gtext g0) (gx g0)
              (cur_cross rtl recs g0 en ex (option_map (fun r => fst (fst r)) prev)
                         (option_map (fun r => fst (fst r)) next))
              (cur_line recs g0 ex
                 (option_map (fun r => (fst (fst r), sum_adv (slice seq (S a) (snd r)))) next)) in
  R_cursive kp rtl seq a b recs =
    Some (ESet [(a, g')] (S a), (glyph_fits g', cur_div kp recs seq a b en ex)) /\
  let seq' := s_seq (fst (apply_effect (ESet [(a, g')] (S a)) s)) in
  nth_error seq' a = Some g' /\ (forall q, q <> a -> nth_error seq' q = nth_error seq q) /\
  length seq' = length seq /\ snd (apply_effect (ESet [(a, g')] (S a)) s) = S a.
Proof. exact cursive_adds_exactly_proof. Qed.
Print Assumptions cursive_adds_exactly.

(* a glyph outside the coverage: the subtable does not match (c6) *)
Theorem cursive_matches_iff_covered : forall kp rtl seq a b recs g0,
  nth_error seq a = Some g0 ->
  (assoc (gid g0) recs = None -> R_cursive kp rtl seq a b recs = None) /\
  (forall r, assoc (gid g0) recs = Some r -> R_cursive kp rtl seq a b recs <> None).
Proof.
  intros kp rtl seq a b recs g0 Hn. split.
  - intros H. apply R_cursive_not_covered with g0; assumption.
  - intros [en ex] H. rewrite (R_cursive_eq kp rtl seq a b recs g0 en ex Hn H). discriminate.
Qed.
Print Assumptions cursive_matches_iff_covered.

(* (c1) the partners are the nearest glyphs the lookup flags keep: behind a
   inside the window, everything between skipped; before a likewise *)
Theorem cursive_partners : forall kp (seq : list glyph) a b,
  (forall gn l' q, next_kept kp (slice seq (S a) b) (S a) = Some (gn, l', q) ->
     a < q /\ q < b /\ nth_error seq q = Some gn /\ kp (gid gn) = true /\
     (forall i h, a < i < q -> nth_error seq i = Some h -> kp (gid h) = false)) /\
  (forall gp l' d, a <= length seq -> next_kept kp (rev (firstn a seq)) 0 = Some (gp, l', d) ->
     d < a /\ nth_error seq (a - S d) = Some gp /\ kp (gid gp) = true /\
     (forall i h, a - S d < i < a -> nth_error seq i = Some h -> kp (gid h) = false)).
Proof.
  intros kp seq a b. split.
  - intros gn l' q H. eapply next_kept_window_spec; eassumption.
  - intros gp l' d Ha H. eapply prev_kept_spec; eassumption.
Qed.
Print Assumptions cursive_partners.

(* (c3) line direction: with an exit anchor on the glyph and an entry anchor
   on the following kept glyph (same subtable) the ADVANCE becomes
   x + exit.x - x(next) - entry(next).x - advances of the skipped glyphs
   between, i.e. the two anchor points coincide on the line; in every other
   case the advance is not touched *)
Theorem cursive_line_direction : forall (recs : csub) g0 exx exy gn between nx ny (nex : anchor),
  assoc (gid gn) recs = Some (Some (nx, ny), nex) ->
  cur_line recs g0 (Some (exx, exy)) (Some (gn, between)) =
  (gx g0 + exx - gx gn - nx - between)%Z.
Proof. exact cur_line_attached. Qed.
Print Assumptions cursive_line_direction.

Theorem cursive_line_direction_no_pair : forall (recs : csub) g0 (ex : anchor) next,
  (ex = None \/ next = None \/
   exists gn between, next = Some (gn, between) /\
     (assoc (gid gn) recs = None \/ exists nex : anchor, assoc (gid gn) recs = Some (None, nex))) ->
  cur_line recs g0 ex next = gadv g0.
Proof. exact cur_line_unattached. Qed.
Print Assumptions cursive_line_direction_no_pair.

(* (c4) cross direction without RIGHT_TO_LEFT: the glyph is placed from its
   predecessor, y := y(prev) + exit(prev).y - entry.y (an assignment);
   with RIGHT_TO_LEFT from its successor, y := y(next) + entry(next).y - exit.y *)
Theorem cursive_cross_direction : forall (recs : csub) g0,
  (forall enx eny (ex : anchor) gp next (pen : anchor) pex pey,
     assoc (gid gp) recs = Some (pen, Some (pex, pey)) ->
     cur_cross false recs g0 (Some (enx, eny)) ex (Some gp) next = (gy gp + pey - eny)%Z) /\
  (forall (en : anchor) exx exy prev gn nx ny (nex : anchor),
     assoc (gid gn) recs = Some (Some (nx, ny), nex) ->
     cur_cross true recs g0 en (Some (exx, exy)) prev (Some gn) = (gy gn + ny - exy)%Z).
Proof.
  intros recs g0. split; intros.
  - eapply cur_cross_ltr; eassumption.
  - eapply cur_cross_rtl; eassumption.
Qed.
Print Assumptions cursive_cross_direction.

Theorem cursive_cross_direction_no_pair : forall (recs : csub) g0 (en ex : anchor) prev next,
  ((en = None \/ prev = None \/
    exists gp, prev = Some gp /\
      (assoc (gid gp) recs = None \/ exists pen : anchor, assoc (gid gp) recs = Some (pen, None))) ->
   cur_cross false recs g0 en ex prev next = gy g0) /\
  ((ex = None \/ next = None \/
    exists gn, next = Some gn /\
      (assoc (gid gn) recs = None \/ exists nex : anchor, assoc (gid gn) recs = Some (None, nex))) ->
   cur_cross true recs g0 en ex prev next = gy g0).
Proof.
  intros. split; intros.
  - apply cur_cross_ltr_unattached; assumption.
  - apply cur_cross_rtl_unattached; assumption.
Qed.
Print Assumptions cursive_cross_direction_no_pair.
Print Assumptions cursive_cross_direction.

(* the sentence of the specification, end to end: after a cursive lookup
   (one subtable, flags that skip nothing, sequence within the size cap) the
   exit point of every glyph coincides with the entry point of the following
   glyph, whenever both anchors exist - in the line direction through the
   advance, in the cross direction through the y offsets; chains of any
   length; without and with RIGHT_TO_LEFT *)
Theorem cursive_chain_aligned : forall flags mfs recs seq i g h exx exy enx eny (hen hex : anchor),
  length seq <= size_cap ->
  let out := fst (run_cursive None flags mfs [recs] seq) in
  nth_error out i = Some g -> nth_error out (S i) = Some h ->
  assoc (gid g) recs = Some (hen, Some (exx, exy)) ->
  assoc (gid h) recs = Some (Some (enx, eny), hex) ->
  (gx g + exx = gadv g + gx h + enx)%Z /\ (gy g + exy = gy h + eny)%Z.
Proof. intros. eapply chain_aligned; eassumption. Qed.
Print Assumptions cursive_chain_aligned.

(* RIGHT_TO_LEFT decides which end of a run stays where it was: without the
   flag the FIRST glyph of the sequence keeps its y offset, with it the LAST *)
Theorem cursive_baseline_end : forall flags mfs recs seq g,
  length seq <= size_cap ->
  let out := fst (run_cursive None flags mfs [recs] seq) in
  (has_flag flags c06b_RightToLeft = false -> nth_error seq 0 = Some g ->
     exists g', nth_error out 0 = Some g' /\ gy g' = gy g) /\
  (has_flag flags c06b_RightToLeft = true -> nth_error seq (length seq - 1) = Some g ->
     exists g', nth_error out (length seq - 1) = Some g' /\ gy g' = gy g).
Proof. intros. apply baseline_end. assumption. Qed.
Print Assumptions cursive_baseline_end.

(* ------------------------------------------------------------------------
   2. GPOS 5.1.  marklig_adds_exactly: the ligature is the first glyph before
   the mark that the flags keep and that is not a mark (m1); the component is
   the associated one, or the last one (m2); the mark's offsets change by
   ligature anchor - mark anchor, minus the advances from the ligature up to
   the mark (m3); glyph id, text and advance stay; every other glyph of the
   sequence is untouched. *)
Theorem marklig_adds_exactly : forall gd kp ca seq a sub g0 cls mx my gl l' d comps anchors lx ly s,
  nth_error seq a = Some g0 -> assoc (gid g0) (ms_marks sub) = Some (cls, (mx, my)) ->
  next_kept (lig_stop gd kp) (rev (firstn a seq)) 0 = Some (gl, l', d) ->
  assoc (gid gl) (ms_ligs sub) = Some comps ->
  nth_error comps (comp_index (length comps) (nth a ca 0)) = Some anchors ->
  nth_error anchors cls = Some (Some (lx, ly)) -> s_seq s = seq ->
  let g' := mkG (gid g0) (gtext g0)
                (gx g0 + (lx - mx - sum_adv (slice seq (a - S d) a)))%Z
                (gy g0 + (ly - my))%Z (gadv g0) in
  R_marklig gd kp ca seq a sub =
    Some (ESet [(a, g')] (S a), (glyph_fits g', dv0)) /\
  (d < a /\ nth_error seq (a - S d) = Some gl /\ kp (gid gl) = true /\ is_mark gd (gid gl) = false /\
   (forall i h, a - S d < i < a -> nth_error seq i = Some h ->
                kp (gid h) = false \/ is_mark gd (gid h) = true)) /\
  let seq' := s_seq (fst (apply_effect (ESet [(a, g')] (S a)) s)) in
  nth_error seq' a = Some g' /\ (forall q, q <> a -> nth_error seq' q = nth_error seq q) /\
  length seq' = length seq /\ snd (apply_effect (ESet [(a, g')] (S a)) s) = S a.
Proof. exact marklig_adds_exactly_proof. Qed.
Print Assumptions marklig_adds_exactly.

(* (m2) which component: the associated one when it exists, otherwise the last *)
Theorem marklig_component : forall n c,
  (1 <= c <= n -> comp_index n c = c - 1) /\ (c = 0 \/ n < c -> comp_index n c = n - 1).
Proof. exact comp_index_spec. Qed.
Print Assumptions marklig_component.

(* no mark record, no ligature before the mark, a ligature outside the
   coverage, a ligature without the component, a NULL anchor or a missing class
   column: the subtable does not match, nothing moves *)
Theorem marklig_no_attachment : forall gd kp ca seq a sub g0,
  nth_error seq a = Some g0 ->
  (assoc (gid g0) (ms_marks sub) = None -> R_marklig gd kp ca seq a sub = None) /\
  (forall cls mxy, assoc (gid g0) (ms_marks sub) = Some (cls, mxy) ->
     (next_kept (lig_stop gd kp) (rev (firstn a seq)) 0 = None -> R_marklig gd kp ca seq a sub = None) /\
     (forall gl l' d, next_kept (lig_stop gd kp) (rev (firstn a seq)) 0 = Some (gl, l', d) ->
        (assoc (gid gl) (ms_ligs sub) = None -> R_marklig gd kp ca seq a sub = None) /\
        (forall comps, assoc (gid gl) (ms_ligs sub) = Some comps ->
           (nth_error comps (comp_index (length comps) (nth a ca 0)) = None ->
              R_marklig gd kp ca seq a sub = None) /\
           (forall anchors, nth_error comps (comp_index (length comps) (nth a ca 0)) = Some anchors ->
              (nth_error anchors cls = None \/ nth_error anchors cls = Some None) ->
              R_marklig gd kp ca seq a sub = None)))).
Proof. exact marklig_no_attachment_proof. Qed.
Print Assumptions marklig_no_attachment.

(* ------------------------------------------------------------------------
   3. Scans.  A lookup of the new types never changes the length of the
   sequence, the glyph ids or the texts; cursive attachment never changes an
   x offset, mark-to-ligature attachment never an advance; a glyph the
   lookup flags skip is not touched (same glyph at the same position). *)
Theorem cursive_lookup_untouched : forall gd flags mfs subs seq,
  let out := fst (run_cursive gd flags mfs subs seq) in
  length out = length seq /\ map gid out = map gid seq /\ map gtext out = map gtext seq /\
  map gx out = map gx seq /\
  (forall i g, nth_error seq i = Some g -> keep gd flags mfs (gid g) = false ->
               nth_error out i = Some g).
Proof. exact cursive_lookup_facts. Qed.
Print Assumptions cursive_lookup_untouched.

Theorem marklig_lookup_untouched : forall gd flags mfs subs ca seq,
  let out := fst (run_marklig gd flags mfs subs ca seq) in
  length out = length seq /\ map gid out = map gid seq /\ map gtext out = map gtext seq /\
  map gadv out = map gadv seq /\
  (forall i g, nth_error seq i = Some g -> keep gd flags mfs (gid g) = false ->
               nth_error out i = Some g).
Proof. exact marklig_lookup_facts. Qed.
Print Assumptions marklig_lookup_untouched.

(* a whole run over lookups of the new types only *)
Theorem new_lookups_keep_glyphs : forall ll2 gd ca order seq,
  (forall li, In li order -> is_new_at ll2 li = true) ->
  let out := R_shape2 ll2 gd ca order seq in
  length out = length seq /\ map gid out = map gid seq /\ map gtext out = map gtext seq.
Proof.
  intros ll2 gd ca order seq H. unfold R_shape2, R_run2.
  apply (R_run2_new_ids ll2 gd gtab_actionBudget ca order (mkSt2 seq true dv0) H).
Qed.
Print Assumptions new_lookups_keep_glyphs.

(* resume position: a step either leaves the sequence alone or rewrites the
   glyph at p, which the flags keep; it always resumes at p+1 with the same
   length; a glyph the flags skip and a position where no subtable matches
   are passed over *)
Theorem new_step_resumes_next : forall kp p seq,
  (forall rtl subs, let r := xstep kp (try_cursive kp rtl subs) p seq in
     snd (fst r) = S p /\ length (fst (fst r)) = length seq) /\
  (forall gd ca subs, let r := xstep kp (try_marklig gd kp ca subs) p seq in
     snd (fst r) = S p /\ length (fst (fst r)) = length seq) /\
  (forall try, kp (gid_at seq p) = false -> xstep kp try p seq = (seq, S p, xtrue)) /\
  (forall try, try seq p = None -> xstep kp try p seq = (seq, S p, xtrue)).
Proof. exact new_step_resumes_next_proof. Qed.
Print Assumptions new_step_resumes_next.

(* left to right, every position once, never out of fuel (totality): the scan
   of a lookup of the new types over a sequence within the size cap is the
   plain iteration over the positions 0, 1, ..., |seq|-1 *)
Theorem new_scan_visits_each_position_once : forall kp seq,
  length seq <= size_cap ->
  (forall rtl subs, xscan (xstep kp (try_cursive kp rtl subs)) seq =
     piter xand (xstep kp (try_cursive kp rtl subs)) (length seq) 0 seq xtrue) /\
  (forall gd ca subs, xscan (xstep kp (try_marklig gd kp ca subs)) seq =
     piter xand (xstep kp (try_marklig gd kp ca subs)) (length seq) 0 seq xtrue).
Proof.
  intros kp seq Hc. split; intros.
  - apply (xscan_is_piter cshape); [apply try_cursive_unit | assumption].
  - apply (xscan_is_piter mshape); [apply try_marklig_unit | assumption].
Qed.
Print Assumptions new_scan_visits_each_position_once.

(* the generic scan is C06's scan: C06's theorems about `scan` and `rscan`
   (left_to_right_scan, skipped_untouched, reverse_chaining_from_end) are
   theorems about gscan / grscan of C06's step *)
Theorem generic_scan_is_c06_scan : forall ll gd lk,
  (forall fuel r seq ok, scan ll gd B lk fuel r seq ok = gscan andb false (step ll gd B lk) fuel r seq ok) /\
  (forall p seq acc, rscan ll gd B lk p seq = fst (grscan andb (step ll gd B lk) p seq acc)).
Proof.
  intros. split; intros.
  - apply scan_is_gscan.
  - apply rscan_is_grscan.
Qed.
Print Assumptions generic_scan_is_c06_scan.

(* ------------------------------------------------------------------------
   4. Composition with C06. *)

(* lookups run in lookup-list order, whatever their types *)
Theorem lookups_in_list_order2 : forall ll2 gd ca l1 l2 seq,
  R_shape2 ll2 gd ca (l1 ++ l2) seq = R_shape2 ll2 gd ca l2 (R_shape2 ll2 gd ca l1 seq).
Proof. exact R_shape2_app. Qed.
Print Assumptions lookups_in_list_order2.

Theorem lookups_in_list_order2_run : forall ll2 gd ca l1 l2 seq,
  R_run2 ll2 gd B ca (l1 ++ l2) seq =
  fold_left (apply_lookup2 ll2 gd B ca) l2 (R_run2 ll2 gd B ca l1 seq).
Proof. intros. apply R_run2_app. Qed.
Print Assumptions lookups_in_list_order2_run.

(* how one entry of the order is run: a missing index does nothing; one of
   C06's lookups is run by C06's apply_lookup on the projected list (so
   lookups_in_list_order, first_matching_subtable, left_to_right_scan, ... of
   C06 speak about it); the new types by their own scans *)
Theorem lookup_dispatch : forall ll2 gd ca acc li,
  (nth_error ll2 li = None -> apply_lookup2 ll2 gd B ca acc li = acc) /\
  (forall lk, nth_error ll2 li = Some (LOld lk) ->
     apply_lookup2 ll2 gd B ca acc li =
     let r := apply_lookup (map proj ll2) gd B (r_seq acc, r_ok acc) li in
     mkSt2 (fst r) (snd r) (r_dv acc)) /\
  (forall f m subs, nth_error ll2 li = Some (LCursive f m subs) ->
     r_seq (apply_lookup2 ll2 gd B ca acc li) = fst (run_cursive gd f m subs (r_seq acc))) /\
  (forall f m subs, nth_error ll2 li = Some (LMarkLig f m subs) ->
     r_seq (apply_lookup2 ll2 gd B ca acc li) = fst (run_marklig gd f m subs ca (r_seq acc))).
Proof.
  intros ll2 gd ca acc li. unfold apply_lookup2.
  split; [|split; [|split]]; intros; rewrite H; reflexivity.
Qed.
Print Assumptions lookup_dispatch.

(* an order naming only C06's lookups: R_shape2 IS C06's R_shape on the
   projected list, flag included; and for a list made of C06's lookups the
   static domain is C06's *)
Theorem conservative_over_c06 : forall ll2 gd ca order seq,
  (forall li, In li order -> is_old_at ll2 li = true) ->
  R_shape2 ll2 gd ca order seq = R_shape (map proj ll2) gd order seq /\
  r_ok (R_run2 ll2 gd B ca order seq) = snd (R_run (map proj ll2) gd B order seq) /\
  r_dv (R_run2 ll2 gd B ca order seq) = dv0.
Proof. exact conservative_over_c06_proof. Qed.
Print Assumptions conservative_over_c06.

Theorem conservative_over_c06_domain : forall ll gd ca order seq,
  in_domain2 (map LOld ll) gd ca order seq = in_domain ll gd order seq /\
  R_shape2 (map LOld ll) gd ca order seq = R_shape ll gd order seq.
Proof. exact conservative_over_c06_domain_proof. Qed.
Print Assumptions conservative_over_c06_domain.

(* the first matching subtable wins, for the new types as for C06's *)
Theorem first_matching_subtable2 : forall {S R} (f : S -> option R) pre sub post r,
  (forall x, In x pre -> f x = None) -> f sub = Some r ->
  first_some f (pre ++ sub :: post) = Some r.
Proof. intros. apply first_some_first; assumption. Qed.
Print Assumptions first_matching_subtable2.

Theorem first_matching_subtable2_inv : forall {S R} (f : S -> option R) subs r,
  first_some f subs = Some r ->
  exists pre sub post, subs = pre ++ sub :: post /\
    (forall x, In x pre -> f x = None) /\ f sub = Some r.
Proof. intros. apply first_some_inv. assumption. Qed.
Print Assumptions first_matching_subtable2_inv.

Theorem no_matching_subtable2 : forall {S R} (f : S -> option R) subs,
  (forall x, In x subs -> f x = None) -> first_some f subs = None.
Proof. intros. apply first_some_none. assumption. Qed.
Print Assumptions no_matching_subtable2.

Theorem first_matching_subtable2_instances : forall kp rtl csubs gd ca msubs seq p,
  try_cursive kp rtl csubs seq p = first_some (R_cursive kp rtl seq p (length seq)) csubs /\
  try_marklig gd kp ca msubs seq p = first_some (R_marklig gd kp ca seq p) msubs.
Proof. intros. split; reflexivity. Qed.
Print Assumptions first_matching_subtable2_instances.

(* ------------------------------------------------------------------------
   5. The tie to the code's mirror.  GPOS lookup types 3 and 5 are outside the
   quantifier of property C06; the reference above is the reading of the
   specification.  INSIDE the domain predicate - the step's flag pair is
   (true, dv0): results within int16, the partners under the lookup flags are
   the adjacent glyphs, no NULL anchor on an adjacent covered pair, no
   RIGHT_TO_LEFT (rtl = false) - the rule of the specification at a position
   and C07's mirror model of Gpos3_1.apply (C07.Model.apply_sub, translated
   data: NULL anchor = zero value, coverage index = position of the record)
   produce the same sequence and the same resume position, for every
   sequence, window, subtable and keep function; outside the coverage neither
   matches; and C07's mirror of Gpos5_1.apply never matches (lookup type 5 is
   reference only).  The `_refuted` witnesses of Examples.v show that each
   excluded reason is needed. *)
Theorem cursive_rule_is_code_mirror_in_domain : forall kp keep7 (recs : csub) seq a b g' k,
  b <= length seq ->
  R_cursive kp false seq a b recs = Some (ESet [(a, g')] (S a), (true, dv0)) ->
  M7.apply_sub keep7 (M7.Gpos3_1 (t_cov recs 0) (t_recs recs)) (map t_glyph seq) k a b =
  Ok (Some (S a), (map t_glyph (set_nth a g' seq), k)).
Proof. exact cursive_is_c07_mirror. Qed.
Print Assumptions cursive_rule_is_code_mirror_in_domain.

Theorem cursive_no_match_is_code_mirror : forall kp keep7 (recs : csub) seq a b g0 k,
  nth_error seq a = Some g0 ->
  R_cursive kp false seq a b recs = None ->
  M7.apply_sub keep7 (M7.Gpos3_1 (t_cov recs 0) (t_recs recs)) (map t_glyph seq) k a b =
  M7.nomatch (map t_glyph seq) k.
Proof. exact cursive_no_match_is_c07_mirror. Qed.
Print Assumptions cursive_no_match_is_code_mirror.

Theorem marklig_code_mirror_never_matches : forall keep7 (seq : list glyph) a g0 k b,
  nth_error seq a = Some g0 ->
  M7.apply_sub keep7 M7.Gpos5_1 (map t_glyph seq) k a b = M7.nomatch (map t_glyph seq) k.
Proof. exact marklig_c07_mirror_is_noop. Qed.
Print Assumptions marklig_code_mirror_never_matches.

(* the domain predicate of a run: RIGHT_TO_LEFT and every applied
   mark-to-ligature lookup put the input outside, whatever the sequence *)
Theorem domain_excludes_righttoleft_and_marklig : forall ll2 gd ca acc li f m,
  (forall subs, nth_error ll2 li = Some (LCursive f m subs) -> has_flag f c06b_RightToLeft = true ->
     dv_rtl (r_dv (apply_lookup2 ll2 gd B ca acc li)) = true) /\
  (forall subs, nth_error ll2 li = Some (LMarkLig f m subs) ->
     dv_lig (r_dv (apply_lookup2 ll2 gd B ca acc li)) = true).
Proof. exact domain_excludes_proof. Qed.
Print Assumptions domain_excludes_righttoleft_and_marklig.

(* ------------------------------------------------------------------------
   6. The observation of the driver. *)
Theorem observe2_spec : forall ll2 gd ca order seq,
  (defined2 ll2 gd ca order seq = false -> observe2 ll2 gd ca order seq = OOod) /\
  (in_domain2 ll2 gd ca order seq = true ->
     observe2 ll2 gd ca order seq = ODom (R_shape2 ll2 gd ca order seq)) /\
  (defined2 ll2 gd ca order seq = true -> in_domain2 ll2 gd ca order seq = false ->
     observe2 ll2 gd ca order seq =
     OOut (r_dv (R_run2 ll2 gd B ca order seq)) (R_shape2 ll2 gd ca order seq)).
Proof. exact observe2_spec_proof. Qed.
Print Assumptions observe2_spec.
