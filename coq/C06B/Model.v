(* C06B/Model.v — part C06B of property C06: the reference shaper extended by
   the two positioning lookup types C06's R_shape leaves out,

     GPOS lookup type 3, CursivePosFormat1 (cursive attachment)      R_cursive
     GPOS lookup type 5, MarkLigPosFormat1 (mark to ligature)        R_marklig

   written from the text of the OpenType specification (chapter "GPOS",
   lookup types 3 and 5, and chapter 2 "lookupFlag"), NOT from
   opentype/gtab/gpos.go / gpos5.go.  Everything about glyphs, sequences, the
   lookup-flag filter `keep`, the next-kept-glyph search `next_kept`, effects
   (`ESet`, `apply_effect`) and C06's own lookups (`apply_lookup`, `scan`,
   `rscan`, `step`) is IMPORTED from C06.Model; nothing of it is repeated
   here.  C06's `scan` is closed over C06's `step`; the generic scan `gscan`
   below is the same loop with the step function as a parameter, and
   Proofs.v shows that C06's scan IS gscan of C06's step (scan_is_gscan), so
   the scan theorems below speak about one loop.

   The reference shaper R_shape2 runs a lookup list whose entries are either
   one of C06's lookups (LOld, handled by C06's apply_lookup on the projected
   list) or a cursive / mark-to-ligature lookup.

   DECISIONS the specification leaves open (each is stated where it is taken):

   GPOS 3.1 (cursive).  The specification: "a text-processing client aligns
   the exit point of a glyph with the entry point of the following glyph. If no
   corresponding anchor point exists, either entryAnchorOffset or
   exitAnchorOffset may be NULL", and for the RIGHT_TO_LEFT lookup flag: "When
   this bit is set, the last glyph in a given sequence to which the cursive
   attachment lookup is applied, will be positioned on the baseline."
    (c1) "the following glyph" is the next glyph the lookup flags keep (chapter
         2: a lookup is applied as if the ignored glyphs were not present),
         inside the window of the lookup; "the preceding glyph" likewise.
    (c2) The glyph sequence is in pen order: the pen moves by the advance of
         every glyph (ignored ones included) along +x; the cross direction is y.
    (c3) Line direction: the ADVANCE OF THE FIRST glyph of a pair is set so that
         the two anchor points coincide:
             adv(a) := x(a) + exit(a).x - x(n) - entry(n).x - advances between.
         The second glyph's x offset and advance are not touched.  (Shifting
         the second glyph instead satisfies the same sentence; the library's
         glyph.Info has one advance per glyph and C06 takes the reading in
         which a positioning lookup at a position adjusts that position.)
    (c4) Cross direction: without RIGHT_TO_LEFT the first glyph of a run stays
         on the baseline and every later glyph is placed from its predecessor:
             y(a) := y(p) + exit(p).y - entry(a).y      (lookup scanned forward);
         with RIGHT_TO_LEFT the last glyph stays and every earlier glyph is
         placed from its successor:
             y(a) := y(n) + entry(n).y - exit(a).y      (lookup scanned from the end),
         so in both cases the offset used is the final one and chains of any
         length are aligned.  "Aligned" is an assignment: an earlier y offset
         or advance of the glyph is replaced.
    (c5) Both glyphs must be listed in the SAME subtable's coverage and the two
         anchors involved must not be NULL; otherwise that half does nothing.
    (c6) The subtable matches at a position (first-matching-subtable rule) iff
         the glyph is in its coverage - the target glyph is located, the action
         is performed "if specified" (chapter 2) - as C06 decides for GPOS 1.

   GPOS 5.1 (mark to ligature).  The specification: "each ligature glyph is
   defined to have multiple components ... and each component has a separate
   set of attachment points defined for the different mark classes ... the
   appropriate base attachment point is determined by which ligature component
   the mark is associated with. This is dependent on the original character
   string and subsequent character- or glyph-sequence processing, not the font
   data alone ... the text-layout client must keep track of associations of
   marks to particular ligature-glyph components."
    (m1) The ligature glyph of a mark: walking back from the mark over mark
         glyphs (GDEF class 3; several marks attach to one ligature) and over
         glyphs the lookup flags skip, the FIRST other glyph; it must be in the
         ligature coverage, otherwise the mark is not attached (a base glyph in
         between blocks the attachment).
    (m2) The component: the association is an INPUT of the reference (`ca`, one
         number per glyph position: k >= 1 = component k, 0 = no association);
         a mark without association, or with a component number beyond the
         ligature's component count, attaches to the LAST component (marks
         follow the glyph they combine with: in glyph order the mark stands
         behind the whole ligature).  The library's glyph.Info has no component
         tracking; the theorems hold for every association.
    (m3) Arithmetic exactly as C06 decides for GPOS 4.1: the mark's offsets
         change by (ligature anchor - mark anchor), minus the advances of the
         glyphs from the ligature up to the mark in the line direction; a NULL
         anchor or a missing class column means no attachment and no match.

   GPOS lookup types 3 and 5 are OUTSIDE the quantifier of property C06 (types
   1, 2, 4, 6, 7, 8): what the engine does there is not judged.  The engine's
   cursive code (gpos.go, marked TODO) looks at the ADJACENT glyphs whatever
   the lookup flags say, never looks at RIGHT_TO_LEFT and reads a NULL anchor
   as an anchor at the origin; its mark-to-ligature code is a declared no-op.
   The reference therefore computes, next to the specified outcome, a boolean
   DOMAIN (record dv: the reasons for being outside it; in_domain2 = none):
   inside it the engine implements the rule of the specification and is
   compared with the reference; outside it - RIGHT_TO_LEFT set, a partner
   glyph that is not the adjacent glyph because of the lookup flags, a NULL
   anchor on a pair of adjacent covered glyphs, every mark-to-ligature lookup -
   only the reference speaks.  Proofs_c07.v proves that inside the domain the
   cursive rule IS C07's mirror model of Gpos3_1.apply.

   Executable definitions only. *)
From Coq Require Import List NArith ZArith Bool Arith Lia.
From Gen Require Import Consts C06 C06B.
From C06 Require Import Model.
Import ListNotations.
Local Open Scope nat_scope.

(* ------------------------------------------------------------------ data *)

(* one EntryExitRecord: glyph, entry anchor, exit anchor (None = NULL offset) *)
Definition centry := (N * (anchor * anchor))%type.
Definition csub := list centry.                           (* GPOS 3.1 *)

Record msub := mkMsub {                                   (* GPOS 5.1 *)
  ms_marks : list (N * (nat * (Z * Z)));    (* mark glyph -> class, mark anchor *)
  ms_ligs : list (N * list (list anchor)) }.  (* ligature -> component -> class -> anchor *)

Inductive lookup2 :=
| LOld (lk : lookup)                                  (* one of C06's lookups *)
| LCursive (flags mfs : N) (subs : list csub)
| LMarkLig (flags mfs : N) (subs : list msub).

(* the reasons why an input is outside the domain where the engine implements
   the rules *)
Record dv := mkDv {
  dv_flags : bool;   (* cursive: a partner under the lookup flags is not the adjacent glyph *)
  dv_rtl : bool;     (* cursive: the lookup has RIGHT_TO_LEFT set *)
  dv_null : bool;    (* cursive: a NULL anchor on a pair of adjacent covered glyphs *)
  dv_lig : bool }.   (* a mark-to-ligature lookup was applied *)

Definition dv0 : dv := mkDv false false false false.
Definition dv_or (a b : dv) : dv :=
  mkDv (dv_flags a || dv_flags b) (dv_rtl a || dv_rtl b)
       (dv_null a || dv_null b) (dv_lig a || dv_lig b).
Definition dv_none (d : dv) : bool :=
  negb (dv_flags d || dv_rtl d || dv_null d || dv_lig d).

(* what a step reports: inside the reference's own domain (int16), reasons hit *)
Definition xflag := (bool * dv)%type.
Definition xtrue : xflag := (true, dv0).
Definition xfail : xflag := (false, dv0).
Definition xand (a b : xflag) : xflag := (fst a && fst b, dv_or (snd a) (snd b)).

(* ------------------------------------------------------ the generic scan *)

(* C06's left-to-right scan with the step function as a parameter (C06's scan
   is gscan andb false (step ...): Proofs.scan_is_gscan) *)
Section GScan.
Context {A : Type}.
Variable andA : A -> A -> A.
Variable failA : A.
Variable stp : nat -> list glyph -> list glyph * nat * A.

Fixpoint gscan (fuel r : nat) (seq : list glyph) (acc : A) : list glyph * A :=
  match fuel with
  | O => (seq, if r =? 0 then acc else failA)
  | S f =>
    if r =? 0 then (seq, acc) else
    match stp (length seq - r) seq with
    | (seq', next, a') =>
      if size_cap <? length seq' then (seq', failA)
      else gscan f (length seq' - next) seq' (andA acc a')
    end
  end.

(* from the end of the sequence: positions p-1, p-2, ..., 0 (C06's rscan is
   the glyph part of grscan: Proofs.rscan_is_grscan) *)
Fixpoint grscan (p : nat) (seq : list glyph) (acc : A) : list glyph * A :=
  match p with
  | O => (seq, acc)
  | S p' => match stp p' seq with (seq', _, a') => grscan p' seq' (andA acc a') end
  end.
End GScan.

(* ---------------------------------------------------- GPOS 3.1: cursive *)

Definition covered (recs : csub) (g : glyph) : bool :=
  match assoc (gid g) recs with Some _ => true | None => false end.

(* (c4) cross direction *)
Definition cur_cross (rtl : bool) (recs : csub) (g0 : glyph) (en ex : anchor)
           (prev next : option glyph) : Z :=
  if rtl then
    match ex, next with
    | Some (_, exy), Some gn =>
      match assoc (gid gn) recs with
      | Some (Some (_, ny), _) => (gy gn + ny - exy)%Z
      | _ => gy g0
      end
    | _, _ => gy g0
    end
  else
    match en, prev with
    | Some (_, eny), Some gp =>
      match assoc (gid gp) recs with
      | Some (_, Some (_, pey)) => (gy gp + pey - eny)%Z
      | _ => gy g0
      end
    | _, _ => gy g0
    end.

(* (c3) line direction; `between` = advances of the skipped glyphs between the two *)
Definition cur_line (recs : csub) (g0 : glyph) (ex : anchor) (next : option (glyph * Z)) : Z :=
  match ex, next with
  | Some (exx, _), Some (gn, between) =>
    match assoc (gid gn) recs with
    | Some (Some (nx, _), _) => (gx g0 + exx - gx gn - nx - between)%Z
    | _ => gadv g0
    end
  | _, _ => gadv g0
  end.

Definition opt_nat_eqb (a b : option nat) : bool :=
  match a, b with
  | Some x, Some y => x =? y
  | None, None => true
  | _, _ => false
  end.

Definition is_none {T} (o : option T) : bool := match o with None => true | Some _ => false end.

(* the partner glyphs as the RULE sees them (next kept glyph, if covered) and
   as the ENGINE sees them (adjacent glyph, if covered): positions *)
Definition rule_prev (kp : N -> bool) (recs : csub) (seq : list glyph) (a : nat) : option nat :=
  match next_kept kp (rev (firstn a seq)) 0 with
  | Some (gp, _, d) => if covered recs gp then Some (a - S d) else None
  | None => None
  end.
Definition rule_next (kp : N -> bool) (recs : csub) (seq : list glyph) (a b : nat) : option nat :=
  match next_kept kp (slice seq (S a) b) (S a) with
  | Some (gn, _, q) => if covered recs gn then Some q else None
  | None => None
  end.
Definition adj_prev (recs : csub) (seq : list glyph) (a : nat) : option nat :=
  match a with
  | O => None
  | S a' => match nth_error seq a' with
            | Some gp => if covered recs gp then Some a' else None
            | None => None
            end
  end.
Definition adj_next (recs : csub) (seq : list glyph) (a b : nat) : option nat :=
  if S a <? b then
    match nth_error seq (S a) with
    | Some gn => if covered recs gn then Some (S a) else None
    | None => None
    end
  else None.

Definition entry_at (recs : csub) (seq : list glyph) (p : nat) : anchor :=
  match nth_error seq p with
  | Some g => match assoc (gid g) recs with Some (en, _) => en | None => None end
  | None => None
  end.
Definition exit_at (recs : csub) (seq : list glyph) (p : nat) : anchor :=
  match nth_error seq p with
  | Some g => match assoc (gid g) recs with Some (_, ex) => ex | None => None end
  | None => None
  end.

(* the out-of-domain reasons of one cursive step (RIGHT_TO_LEFT is judged per
   lookup, see run_cursive) *)
Definition cur_div (kp : N -> bool) (recs : csub) (seq : list glyph) (a b : nat) (en ex : anchor) : dv :=
  let rp := rule_prev kp recs seq a in
  let rn := rule_next kp recs seq a b in
  let ap := adj_prev recs seq a in
  let an := adj_next recs seq a b in
  mkDv (negb (opt_nat_eqb rp ap && opt_nat_eqb rn an))
       false
       (match ap with Some p => is_none en || is_none (exit_at recs seq p) | None => false end ||
        match an with Some q => is_none ex || is_none (entry_at recs seq q) | None => false end)
       false.

(* cursive attachment at position a inside the window [a,b) *)
Definition R_cursive (kp : N -> bool) (rtl : bool) (seq : list glyph) (a b : nat) (recs : csub)
  : option (effect * xflag) :=
  match nth_error seq a with
  | None => None
  | Some g0 =>
    match assoc (gid g0) recs with
    | None => None                                            (* (c6) *)
    | Some (en, ex) =>
      let prev := next_kept kp (rev (firstn a seq)) 0 in              (* (c1) *)
      let next := next_kept kp (slice seq (S a) b) (S a) in
      let pg := option_map (fun r => fst (fst r)) prev in
      let ng := option_map (fun r => fst (fst r)) next in
      let nb := option_map (fun r => (fst (fst r), sum_adv (slice seq (S a) (snd r)))) next in
      let g' := mkG (gid g0) (gtext g0) (gx g0)
                    (cur_cross rtl recs g0 en ex pg ng)
                    (cur_line recs g0 ex nb) in
      Some (ESet [(a, g')] (S a), (glyph_fits g', cur_div kp recs seq a b en ex))
    end
  end.

(* -------------------------------------------- GPOS 5.1: mark to ligature *)

(* (m2) component k (1-based) of n components; 0 or beyond n: the last one *)
Definition comp_index (n c : nat) : nat :=
  if (1 <=? c) && (c <=? n) then c - 1 else n - 1.

(* (m1) glyphs the search for the ligature stops at *)
Definition lig_stop (gd : option gdef) (kp : N -> bool) (g : N) : bool :=
  kp g && negb (is_mark gd g).

Definition R_marklig (gd : option gdef) (kp : N -> bool) (ca : list nat) (seq : list glyph)
           (a : nat) (sub : msub) : option (effect * xflag) :=
  match nth_error seq a with
  | None => None
  | Some g0 =>
    match assoc (gid g0) (ms_marks sub) with
    | None => None
    | Some (cls, (mx, my)) =>
      match next_kept (lig_stop gd kp) (rev (firstn a seq)) 0 with
      | None => None
      | Some (gl, _, d) =>
        match assoc (gid gl) (ms_ligs sub) with
        | None => None
        | Some comps =>
          match nth_error comps (comp_index (length comps) (nth a ca 0)) with
          | None => None
          | Some anchors =>
            match nth_error anchors cls with
            | Some (Some (lx, ly)) =>
              let g' := mkG (gid g0) (gtext g0)
                            (gx g0 + (lx - mx - sum_adv (slice seq (a - S d) a)))%Z
                            (gy g0 + (ly - my))%Z (gadv g0) in
              Some (ESet [(a, g')] (S a), (glyph_fits g', dv0))
            | _ => None
            end
          end
        end
      end
    end
  end.

(* ------------------------------------------- one lookup of the new types *)

(* the first matching subtable wins *)
Fixpoint first_some {S R : Type} (f : S -> option R) (l : list S) : option R :=
  match l with
  | [] => None
  | x :: l' => match f x with Some r => Some r | None => first_some f l' end
  end.

(* one step of the scan at position p: glyphs the flags skip are passed
   over, otherwise the first matching subtable is applied *)
Definition xstep (kp : N -> bool) (try : list glyph -> nat -> option (effect * xflag))
           (p : nat) (seq : list glyph) : list glyph * nat * xflag :=
  if kp (gid_at seq p) then
    match try seq p with
    | Some (e, fl) =>
      let r := apply_effect e (mkSt seq [] 0 true) in (s_seq (fst r), snd r, fl)
    | None => (seq, S p, xtrue)
    end
  else (seq, S p, xtrue).

Definition try_cursive (kp : N -> bool) (rtl : bool) (subs : list csub)
           (seq : list glyph) (p : nat) : option (effect * xflag) :=
  first_some (R_cursive kp rtl seq p (length seq)) subs.

Definition try_marklig (gd : option gdef) (kp : N -> bool) (ca : list nat) (subs : list msub)
           (seq : list glyph) (p : nat) : option (effect * xflag) :=
  first_some (R_marklig gd kp ca seq p) subs.

Definition xscan (stp : nat -> list glyph -> list glyph * nat * xflag) (seq : list glyph)
  : list glyph * xflag :=
  gscan xand xfail stp (length seq) (length seq) seq xtrue.
Definition xrscan (stp : nat -> list glyph -> list glyph * nat * xflag) (seq : list glyph)
  : list glyph * xflag :=
  grscan xand stp (length seq) seq xtrue.

(* a cursive lookup: forward, or from the end when RIGHT_TO_LEFT is set (c4);
   the engine never looks at the flag: such a lookup is outside the domain *)
Definition run_cursive (gd : option gdef) (flags mfs : N) (subs : list csub) (seq : list glyph)
  : list glyph * xflag :=
  let kp := keep gd flags mfs in
  if has_flag flags c06b_RightToLeft then
    let r := xrscan (xstep kp (try_cursive kp true subs)) seq in
    (fst r, (fst (snd r) && (length seq <=? size_cap),
             dv_or (snd (snd r)) (mkDv false true false false)))
  else xscan (xstep kp (try_cursive kp false subs)) seq.

(* the association is positional: it is used while it describes the current
   sequence (same length), otherwise no mark has an association *)
Definition ca_for (ca : list nat) (seq : list glyph) : list nat :=
  if length ca =? length seq then ca else [].

(* the engine declares lookup type 5 unimplemented: outside the domain *)
Definition run_marklig (gd : option gdef) (flags mfs : N) (subs : list msub) (ca : list nat)
           (seq : list glyph) : list glyph * xflag :=
  let kp := keep gd flags mfs in
  let r := xscan (xstep kp (try_marklig gd kp (ca_for ca seq) subs)) seq in
  (fst r, (fst (snd r), dv_or (snd (snd r)) (mkDv false false false true))).

(* ------------------------------------------------------ the lookup list *)

(* what C06's engine sees of the list: a new lookup is a lookup without
   subtables (a nested action naming it does nothing; such lists are outside
   the static domain, see static_ok2) *)
Definition proj (l : lookup2) : lookup :=
  match l with
  | LOld lk => lk
  | LCursive f m _ => mkLookup f m []
  | LMarkLig f m _ => mkLookup f m []
  end.

Record st2 := mkSt2 { r_seq : list glyph; r_ok : bool; r_dv : dv }.

Section Engine2.
Variable ll2 : list lookup2.
Variable gd : option gdef.
Variable budget : nat.
Variable ca : list nat.

Definition apply_lookup2 (acc : st2) (li : nat) : st2 :=
  match nth_error ll2 li with
  | None => acc
  | Some (LOld _) =>
    let r := apply_lookup (map proj ll2) gd budget (r_seq acc, r_ok acc) li in
    mkSt2 (fst r) (snd r) (r_dv acc)
  | Some (LCursive f m subs) =>
    let r := run_cursive gd f m subs (r_seq acc) in
    mkSt2 (fst r) (r_ok acc && fst (snd r)) (dv_or (r_dv acc) (snd (snd r)))
  | Some (LMarkLig f m subs) =>
    let r := run_marklig gd f m subs ca (r_seq acc) in
    mkSt2 (fst r) (r_ok acc && fst (snd r)) (dv_or (r_dv acc) (snd (snd r)))
  end.

Definition R_run2 (order : list nat) (seq : list glyph) : st2 :=
  fold_left apply_lookup2 order (mkSt2 seq true dv0).
End Engine2.

(* --------------------------------------------------------- static domain *)

Definition anchor_static (a : anchor) : bool :=
  match a with
  | Some (x, y) => negb (Z.eqb x 0 && Z.eqb y 0)   (* the library cannot tell it from NULL *)
  | None => true
  end.

Definition csub_static (recs : csub) : bool :=
  nodupN (keys recs) &&
  forallb (fun e => anchor_static (fst (snd e)) && anchor_static (snd (snd e))) recs.

Definition msub_static (s : msub) : bool :=
  nodupN (keys (ms_marks s)) && nodupN (keys (ms_ligs s)) &&
  forallb (fun lg => forallb (forallb anchor_static) (snd lg)) (ms_ligs s) &&
  forallb (fun mk => forallb (fun lg => forallb (fun row => fst (snd mk) <? length row) (snd lg))
                             (ms_ligs s)) (ms_marks s).

(* the nested actions of C06's contextual subtables *)
Definition sub_actions (sub : subtable) : list action :=
  match sub with
  | SCtx1 m => flat_map (fun e => flat_map snd (snd e)) m
  | SCtx2 _ _ rules => flat_map (flat_map snd) rules
  | SCtx3 _ acts => acts
  | SChain1 m => flat_map (fun e => flat_map snd (snd e)) m
  | SChain2 _ _ _ _ rules => flat_map (flat_map snd) rules
  | SChain3 _ _ _ acts => acts
  | _ => []
  end.

Definition is_old_at (ll2 : list lookup2) (li : nat) : bool :=
  match nth_error ll2 li with
  | Some (LCursive _ _ _) | Some (LMarkLig _ _ _) => false
  | _ => true
  end.

(* new lookups as NESTED lookups of a contextual rule are outside the
   reference (C06's engine is closed over C06's subtables) *)
Definition lookup2_static (ll2 : list lookup2) (l : lookup2) : bool :=
  match l with
  | LOld lk => forallb (fun sub => forallb (fun act => is_old_at ll2 (snd act)) (sub_actions sub))
                       (lk_subs lk)
  | LCursive _ _ subs => forallb csub_static subs
  | LMarkLig _ _ subs => forallb msub_static subs
  end.

Definition static_ok2 (ll2 : list lookup2) (gd : option gdef) : bool :=
  static_ok (map proj ll2) gd && forallb (lookup2_static ll2) ll2.

(* ------------------------------------------------------------ entry points *)

Definition R_shape2 (ll2 : list lookup2) (gd : option gdef) (ca : list nat) (order : list nat)
           (seq : list glyph) : list glyph :=
  r_seq (R_run2 ll2 gd gtab_actionBudget ca order seq).

(* the outcome is defined by the rules (and C06's domain for C06's lookups) *)
Definition defined2 (ll2 : list lookup2) (gd : option gdef) (ca : list nat) (order : list nat)
           (seq : list glyph) : bool :=
  static_ok2 ll2 gd && forallb glyph_fits seq &&
  r_ok (R_run2 ll2 gd gtab_actionBudget ca order seq).

(* ... and the engine implements the rules: it must agree *)
Definition in_domain2 (ll2 : list lookup2) (gd : option gdef) (ca : list nat) (order : list nat)
           (seq : list glyph) : bool :=
  defined2 ll2 gd ca order seq &&
  dv_none (r_dv (R_run2 ll2 gd gtab_actionBudget ca order seq)).

(* observation printed by the driver *)
Inductive obs :=
| OOod                                   (* outside the reference's domain *)
| ODom (out : list glyph)                (* the engine must produce this *)
| OOut (d : dv) (out : list glyph).      (* outside the domain for the reasons d; the rules give this *)

Definition observe2 (ll2 : list lookup2) (gd : option gdef) (ca : list nat) (order : list nat)
           (seq : list glyph) : obs :=
  let r := R_run2 ll2 gd gtab_actionBudget ca order seq in
  if static_ok2 ll2 gd && forallb glyph_fits seq && r_ok r then
    if dv_none (r_dv r) then ODom (r_seq r) else OOut (r_dv r) (r_seq r)
  else OOod.
