(* C06B/Proofs_chain.v — the sentence of the specification for cursive
   attachment, end to end: after the lookup the exit point of every glyph
   coincides with the entry point of the following glyph (flags that skip
   nothing, one subtable), for chains of any length, in both scan directions;
   and which end of a run stays on its baseline. *)
From Coq Require Import List NArith ZArith Bool Arith Lia.
From Gen Require Import Consts C06 C06B.
From C06 Require Import Model Spec Util Proofs.
From C06B Require Import Model Proofs.
Import ListNotations.

Lemma next_kept_all : forall kp (l : list glyph) p,
  (forall g, kp g = true) ->
  next_kept kp l p = match l with [] => None | g :: l' => Some (g, l', p) end.
Proof. intros kp [|g l] p H; cbn [next_kept]; [reflexivity|]. rewrite H. reflexivity. Qed.

Lemma firstn_S_snoc {T} : forall (l : list T) p x,
  nth_error l p = Some x -> firstn (S p) l = firstn p l ++ [x].
Proof.
  induction l as [|y l IH]; intros p x H.
  - destruct p; discriminate.
  - destruct p; cbn in *.
    + inversion H. reflexivity.
    + f_equal. apply IH. assumption.
Qed.

Lemma skipn_head {T} : forall (l : list T) k,
  match skipn k l with [] => nth_error l k = None | x :: _ => nth_error l k = Some x end.
Proof.
  induction l as [|y l IH]; intros k.
  - destruct k; reflexivity.
  - destruct k; cbn; [reflexivity | apply IH].
Qed.

Lemma slice_to_end {T} : forall (l : list T) i, slice l i (length l) = skipn i l.
Proof.
  intros l i. unfold slice. apply firstn_all2. rewrite skipn_length. lia.
Qed.

(* the glyph before position p *)
Definition pred_at (s : list glyph) (p : nat) : option glyph :=
  match p with O => None | S p' => nth_error s p' end.

(* one cursive step when the flags skip nothing, one subtable *)
Definition cstep1 (rtl : bool) (recs : csub) (p : nat) (s : list glyph) : list glyph :=
  match nth_error s p with
  | Some g0 =>
    match assoc (gid g0) recs with
    | Some (en, ex) =>
      set_nth p (mkG (gid g0) (gtext g0) (gx g0)
                     (cur_cross rtl recs g0 en ex (pred_at s p) (nth_error s (S p)))
                     (cur_line recs g0 ex (option_map (fun h => (h, 0%Z)) (nth_error s (S p))))) s
    | None => s
    end
  | None => s
  end.

Lemma prev_all : forall kp (s : list glyph) p g0,
  (forall g, kp g = true) -> nth_error s p = Some g0 ->
  option_map (fun r : glyph * list glyph * nat => fst (fst r)) (next_kept kp (rev (firstn p s)) 0) = pred_at s p.
Proof.
  intros kp s p g0 Hk Hp. rewrite next_kept_all by assumption.
  destruct p as [|p']; [reflexivity|]. cbn [pred_at].
  assert (Hlt : p' < length s).
  { assert (S p' < length s) by (apply nth_error_Some; congruence). lia. }
  destruct (nth_error s p') as [x|] eqn:E; [|apply nth_error_None in E; lia].
  rewrite (firstn_S_snoc s p' x E), rev_app_distr. reflexivity.
Qed.

Lemma next_all : forall kp (s : list glyph) p,
  (forall g, kp g = true) ->
  next_kept kp (slice s (S p) (length s)) (S p) =
  match skipn (S p) s with [] => None | g :: l' => Some (g, l', S p) end.
Proof. intros. rewrite slice_to_end. apply next_kept_all. assumption. Qed.

Lemma xstep_all_is_cstep1 : forall kp rtl recs p s,
  (forall g, kp g = true) ->
  fst (fst (xstep kp (try_cursive kp rtl [recs]) p s)) = cstep1 rtl recs p s.
Proof.
  intros kp rtl recs p s Hk. unfold xstep, cstep1. rewrite Hk.
  unfold try_cursive. cbn [first_some]. unfold R_cursive.
  destruct (nth_error s p) as [g0|] eqn:Hp; [|reflexivity].
  destruct (assoc (gid g0) recs) as [[en ex]|] eqn:Ha; [|reflexivity].
  rewrite (prev_all kp s p g0 Hk Hp). rewrite next_all by assumption.
  pose proof (skipn_head s (S p)) as Hh.
  destruct (skipn (S p) s) as [|h l'].
  - rewrite Hh. cbn [option_map apply_effect fst snd s_seq fold_left]. reflexivity.
  - rewrite Hh. cbn [option_map apply_effect fst snd s_seq fold_left].
    unfold slice. rewrite Nat.sub_diag. cbn [firstn sum_adv]. reflexivity.
Qed.

Lemma cstep1_length : forall rtl recs p s, length (cstep1 rtl recs p s) = length s.
Proof.
  intros. unfold cstep1. destruct (nth_error s p) as [g0|]; [|reflexivity].
  destruct (assoc (gid g0) recs) as [[en ex]|]; [|reflexivity]. apply set_nth_length.
Qed.

Lemma cstep1_other : forall rtl recs p s j, j <> p ->
  nth_error (cstep1 rtl recs p s) j = nth_error s j.
Proof.
  intros. unfold cstep1. destruct (nth_error s p) as [g0|]; [|reflexivity].
  destruct (assoc (gid g0) recs) as [[en ex]|]; [|reflexivity].
  apply nth_error_set_nth_other. auto.
Qed.

(* what the step leaves at position p *)
Lemma cstep1_at : forall rtl recs p s g0,
  nth_error s p = Some g0 ->
  exists g', nth_error (cstep1 rtl recs p s) p = Some g' /\
    gid g' = gid g0 /\ gx g' = gx g0 /\
    match assoc (gid g0) recs with
    | Some (en, ex) =>
      gy g' = cur_cross rtl recs g0 en ex (pred_at s p) (nth_error s (S p)) /\
      gadv g' = cur_line recs g0 ex (option_map (fun h => (h, 0%Z)) (nth_error s (S p)))
    | None => g' = g0
    end.
Proof.
  intros rtl recs p s g0 Hp. unfold cstep1. rewrite Hp.
  destruct (assoc (gid g0) recs) as [[en ex]|].
  - eexists. split.
    + apply nth_error_set_nth_same. apply nth_error_Some. congruence.
    + repeat split.
  - exists g0. auto.
Qed.

(* --------------------------------------------------------- the invariants *)

Section Chain.
Variable recs : csub.

Definition line_ok (s : list glyph) (i : nat) : Prop :=
  forall g h exx exy enx eny (hen hex : anchor),
  nth_error s i = Some g -> nth_error s (S i) = Some h ->
  assoc (gid g) recs = Some (hen, Some (exx, exy)) ->
  assoc (gid h) recs = Some (Some (enx, eny), hex) ->
  (gx g + exx = gadv g + gx h + enx)%Z.

Definition cross_ok (s : list glyph) (i : nat) : Prop :=
  forall g h exx exy enx eny (hen hex : anchor),
  nth_error s i = Some g -> nth_error s (S i) = Some h ->
  assoc (gid g) recs = Some (hen, Some (exx, exy)) ->
  assoc (gid h) recs = Some (Some (enx, eny), hex) ->
  (gy g + exy = gy h + eny)%Z.

(* forward pass: before the step at p the pairs (i,i+1) with i < p are aligned
   on the line, those with i+1 < p across it *)
Definition inv_f (p : nat) (s : list glyph) : Prop :=
  (forall i, i < p -> line_ok s i) /\ (forall i, S i < p -> cross_ok s i).

Lemma inv_f_step : forall p s, inv_f p s -> inv_f (S p) (cstep1 false recs p s).
Proof.
  intros p s [HL HC]. set (s' := cstep1 false recs p s).
  assert (Hoth : forall j, j <> p -> nth_error s' j = nth_error s j)
    by (intros; apply cstep1_other; assumption).
  destruct (nth_error s p) as [g0|] eqn:Hp.
  2:{ (* beyond the end: nothing changes *)
    assert (Hs : s' = s) by (unfold s', cstep1; rewrite Hp; reflexivity).
    rewrite Hs. split.
    - intros i Hi. destruct (Nat.eq_dec i p) as [->|Hne]; [|apply HL; lia].
      intros g h exx exy enx eny hen hex Hg. congruence.
    - intros i Hi. destruct (Nat.eq_dec (S i) p) as [<-|Hne]; [|apply HC; lia].
      intros g h exx exy enx eny hen hex Hg Hh. congruence. }
  destruct (cstep1_at false recs p s g0 Hp) as (g' & Hg' & Hid & Hx & Hrest). fold s' in Hg'.
  split.
  - intros i Hi g h exx exy enx eny hen hex Hg Hh Ag Ah.
    destruct (Nat.eq_dec i p) as [->|Hne].
    + (* the pair (p, p+1): the advance just set *)
      rewrite Hg' in Hg. inversion Hg; subst g. rewrite Hoth in Hh by lia.
      rewrite Hid in Ag. rewrite Ag in Hrest. destruct Hrest as [_ Hadv].
      rewrite Hh in Hadv. cbn [option_map] in Hadv.
      rewrite (cur_line_attached recs g0 exx exy h 0%Z enx eny hex Ah) in Hadv. lia.
    + assert (i < p) by lia. rewrite Hoth in Hg by lia.
      destruct (Nat.eq_dec (S i) p) as [E|Hne2].
      * (* the pair (p-1, p): the second glyph keeps its x offset *)
        rewrite E, Hg' in Hh. inversion Hh; subst h.
        rewrite Hid in Ah. rewrite Hx.
        apply (HL i H g g0 exx exy enx eny hen hex Hg); [rewrite E; assumption | assumption | assumption].
      * rewrite Hoth in Hh by lia. apply (HL i H g h exx exy enx eny hen hex); assumption.
  - intros i Hi g h exx exy enx eny hen hex Hg Hh Ag Ah.
    assert (Hip : i <> p) by lia. rewrite Hoth in Hg by assumption.
    destruct (Nat.eq_dec (S i) p) as [E|Hne2].
    + (* the pair (p-1, p): the y offset just set *)
      rewrite E, Hg' in Hh. inversion Hh; subst h.
      rewrite Hid in Ah. rewrite Ah in Hrest. destruct Hrest as [Hy _].
      rewrite <- E in Hy. cbn [pred_at] in Hy. rewrite Hg in Hy.
      rewrite (cur_cross_ltr recs g0 enx eny hex g (nth_error s (S (S i))) hen exx exy Ag) in Hy. lia.
    + rewrite Hoth in Hh by lia. apply (HC i ltac:(lia) g h exx exy enx eny hen hex); assumption.
Qed.

(* from the end: before the step at p-1 the pairs (i,i+1) with i >= p are aligned *)
Definition inv_r (p : nat) (s : list glyph) : Prop :=
  forall i, p <= i -> line_ok s i /\ cross_ok s i.

Lemma inv_r_step : forall p s, inv_r (S p) s -> inv_r p (cstep1 true recs p s).
Proof.
  intros p s H. set (s' := cstep1 true recs p s).
  assert (Hoth : forall j, j <> p -> nth_error s' j = nth_error s j)
    by (intros; apply cstep1_other; assumption).
  intros i Hi. destruct (Nat.eq_dec i p) as [->|Hne].
  2:{ destruct (H i ltac:(lia)) as [HL HC]. split;
      intros g h exx exy enx eny hen hex Hg Hh; rewrite Hoth in Hg, Hh by lia;
      [eapply HL | eapply HC]; eassumption. }
  destruct (nth_error s p) as [g0|] eqn:Hp.
  2:{ assert (Hs : s' = s) by (unfold s', cstep1; rewrite Hp; reflexivity).
      rewrite Hs. split; intros g h exx exy enx eny hen hex Hg; congruence. }
  destruct (cstep1_at true recs p s g0 Hp) as (g' & Hg' & Hid & Hx & Hrest). fold s' in Hg'.
  split; intros g h exx exy enx eny hen hex Hg Hh Ag Ah;
    rewrite Hg' in Hg; inversion Hg; subst g; rewrite Hoth in Hh by lia;
    rewrite Hid in Ag; rewrite Ag in Hrest; destruct Hrest as [Hy Hadv]; rewrite Hh in Hy, Hadv.
  - cbn [option_map] in Hadv.
    rewrite (cur_line_attached recs g0 exx exy h 0%Z enx eny hex Ah) in Hadv. lia.
  - rewrite (cur_cross_rtl recs g0 hen exx exy (pred_at s p) h enx eny hex Ah) in Hy. lia.
Qed.
End Chain.

(* ----------------------------------------------------------- whole passes *)

Lemma piter_cstep1 : forall kp rtl recs,
  (forall g, kp g = true) ->
  forall n p s acc,
  exists acc', piter xand (xstep kp (try_cursive kp rtl [recs])) n p s acc =
               (fold_left (fun s q => cstep1 rtl recs q s) (seq p n) s, acc').
Proof.
  intros kp rtl recs Hk. induction n as [|n IH]; intros p s acc; cbn [piter seq fold_left].
  - eexists. reflexivity.
  - pose proof (xstep_all_is_cstep1 kp rtl recs p s Hk) as E.
    destruct (xstep kp (try_cursive kp rtl [recs]) p s) as [[s' nx] a']. cbn [fst] in E. subst s'.
    apply IH.
Qed.

Lemma grscan_cstep1 : forall kp rtl recs,
  (forall g, kp g = true) ->
  forall p s acc,
  exists acc', grscan xand (xstep kp (try_cursive kp rtl [recs])) p s acc =
               (fold_left (fun s q => cstep1 rtl recs q s) (rev (seq 0 p)) s, acc').
Proof.
  intros kp rtl recs Hk. induction p as [|p IH]; intros s acc.
  - eexists. reflexivity.
  - cbn [grscan]. rewrite seq_S, rev_app_distr. cbn [rev app fold_left Nat.add].
    pose proof (xstep_all_is_cstep1 kp rtl recs p s Hk) as E.
    destruct (xstep kp (try_cursive kp rtl [recs]) p s) as [[s' nx] a']. cbn [fst] in E. subst s'.
    apply IH.
Qed.

Lemma fold_forward_inv : forall recs n p s,
  inv_f recs p s -> inv_f recs (p + n) (fold_left (fun s q => cstep1 false recs q s) (seq p n) s).
Proof.
  intros recs n. induction n as [|n IH]; intros p s H; cbn [seq fold_left].
  - rewrite Nat.add_0_r. assumption.
  - replace (p + S n) with (S p + n) by lia. apply IH. apply inv_f_step. assumption.
Qed.

Lemma fold_reverse_inv : forall recs p s,
  inv_r recs p s -> inv_r recs 0 (fold_left (fun s q => cstep1 true recs q s) (rev (seq 0 p)) s).
Proof.
  intros recs p. induction p as [|p IH]; intros s H.
  - assumption.
  - rewrite seq_S, rev_app_distr. cbn [rev app fold_left Nat.add].
    apply IH. apply inv_r_step. assumption.
Qed.

Lemma fold_cstep1_length : forall rtl recs l s,
  length (fold_left (fun s q => cstep1 rtl recs q s) l s) = length s.
Proof.
  intros rtl recs l. induction l as [|q l IH]; intros s; cbn [fold_left]; [reflexivity|].
  rewrite IH. apply cstep1_length.
Qed.

Lemma keep_nogdef_all : forall flags mfs g, keep None flags mfs g = true.
Proof. reflexivity. Qed.

(* the output of the lookup as a fold of cstep1 *)
Lemma run_cursive_nogdef : forall flags mfs recs seq,
  length seq <= size_cap ->
  fst (run_cursive None flags mfs [recs] seq) =
  if has_flag flags c06b_RightToLeft
  then fold_left (fun s q => cstep1 true recs q s) (rev (List.seq 0 (length seq))) seq
  else fold_left (fun s q => cstep1 false recs q s) (List.seq 0 (length seq)) seq.
Proof.
  intros flags mfs recs seq Hc. unfold run_cursive.
  set (kp := keep None flags mfs).
  assert (Hk : forall g, kp g = true) by (intro; reflexivity).
  destruct (has_flag flags c06b_RightToLeft); cbn [fst].
  - unfold xrscan.
    destruct (grscan_cstep1 kp true recs Hk (length seq) seq xtrue) as (acc' & E).
    rewrite E. reflexivity.
  - rewrite (xscan_is_piter cshape kp _ seq (try_cursive_unit kp false [recs]) Hc).
    destruct (piter_cstep1 kp false recs Hk (length seq) 0 seq xtrue) as (acc' & E).
    rewrite E. reflexivity.
Qed.

Lemma chain_aligned : forall flags mfs recs seq i g h exx exy enx eny (hen hex : anchor),
  length seq <= size_cap ->
  let out := fst (run_cursive None flags mfs [recs] seq) in
  nth_error out i = Some g -> nth_error out (S i) = Some h ->
  assoc (gid g) recs = Some (hen, Some (exx, exy)) ->
  assoc (gid h) recs = Some (Some (enx, eny), hex) ->
  (gx g + exx = gadv g + gx h + enx)%Z /\ (gy g + exy = gy h + eny)%Z.
Proof.
  intros flags mfs recs seq i g h exx exy enx eny hen hex Hc out Hg Hh Ag Ah.
  unfold out in *. rewrite run_cursive_nogdef in Hg, Hh by assumption.
  destruct (has_flag flags c06b_RightToLeft).
  - assert (Hinv : inv_r recs (length seq) seq).
    { intros j Hj. split; intros g1 h1 a1 a2 a3 a4 a5 a6 G1 H1;
        assert (S j < length seq) by (apply nth_error_Some; congruence); lia. }
    pose proof (fold_reverse_inv recs (length seq) seq Hinv i (Nat.le_0_l i)) as [HL HC].
    split; [eapply HL | eapply HC]; eassumption.
  - assert (Hinv : inv_f recs 0 seq) by (split; intros j Hj; lia).
    pose proof (fold_forward_inv recs (length seq) 0 seq Hinv) as [HL HC]. cbn [Nat.add] in HL, HC.
    assert (Hlen : S i < length seq).
    { rewrite <- (fold_cstep1_length false recs (List.seq 0 (length seq)) seq).
      apply nth_error_Some. congruence. }
    split; [eapply (HL i) | eapply (HC i)]; try eassumption; lia.
Qed.

(* ------------------------------------------- which end keeps its baseline *)

Lemma fold_untouched : forall rtl recs l s j,
  ~ In j l -> nth_error (fold_left (fun s q => cstep1 rtl recs q s) l s) j = nth_error s j.
Proof.
  intros rtl recs l. induction l as [|q l IH]; intros s j H; cbn [fold_left]; [reflexivity|].
  rewrite IH by (intro; apply H; right; assumption).
  apply cstep1_other. intro; apply H; left; congruence.
Qed.

Lemma baseline_end : forall flags mfs recs seq g,
  length seq <= size_cap ->
  let out := fst (run_cursive None flags mfs [recs] seq) in
  (has_flag flags c06b_RightToLeft = false -> nth_error seq 0 = Some g ->
     exists g', nth_error out 0 = Some g' /\ gy g' = gy g) /\
  (has_flag flags c06b_RightToLeft = true -> nth_error seq (length seq - 1) = Some g ->
     exists g', nth_error out (length seq - 1) = Some g' /\ gy g' = gy g).
Proof.
  intros flags mfs recs seq g Hc out. unfold out. rewrite run_cursive_nogdef by assumption.
  split; intros Hf Hg; rewrite Hf.
  - destruct seq as [|g0 seq']; [discriminate|]. cbn in Hg. inversion Hg; subst g0.
    cbn [length List.seq fold_left].
    rewrite fold_untouched by (rewrite in_seq; lia).
    destruct (cstep1_at false recs 0 (g :: seq') g eq_refl) as (g' & Hg' & _ & _ & Hrest).
    exists g'. split; [assumption|].
    destruct (assoc (gid g) recs) as [[en ex]|]; [|congruence].
    destruct Hrest as [Hy _]. rewrite Hy. apply cur_cross_ltr_unattached. right. left. reflexivity.
  - assert (Hn : length seq - 1 < length seq) by (apply nth_error_Some; congruence).
    destruct (length seq) as [|n] eqn:El; [lia|].
    replace (S n - 1) with n in * by lia.
    rewrite seq_S, rev_app_distr. cbn [rev app fold_left Nat.add].
    rewrite fold_untouched by (rewrite <- in_rev, in_seq; lia).
    destruct (cstep1_at true recs n seq g Hg) as (g' & Hg' & _ & _ & Hrest).
    exists g'. split; [assumption|].
    destruct (assoc (gid g) recs) as [[en ex]|]; [|congruence].
    destruct Hrest as [Hy _]. rewrite Hy. apply cur_cross_rtl_unattached. right. left.
    apply nth_error_None. lia.
Qed.
