(* C06B/Proofs_c07.v — the tie between the specification reading of GPOS 3.1
   (R_cursive, written from the OpenType text) and the code's mirror (C07's
   M_shape, which mirrors Gpos3_1.apply statement by statement, wrap-around
   included): INSIDE the domain predicate - no RIGHT_TO_LEFT, the partners
   under the lookup flags are the adjacent glyphs, no NULL anchor on an
   adjacent covered pair, results within int16 - the rule of the specification
   and C07's apply_sub (Gpos3_1 ...) do the same thing to the sequence.
   C07's definitions are imported (C07.Model), nothing is repeated. *)
From Coq Require Import List NArith ZArith Bool Arith Lia.
From Common Require Import Outcome.
From Gen Require Import Consts C06 C06B.
From C06 Require Import Model Spec Util Proofs.
From C06B Require Import Model Proofs.
From C07 Require Model.
Import ListNotations.

Module M7 := C07.Model.

(* ------------------------------------------------- translation of the data *)

Definition t_glyph (g : glyph) : M7.glyph := M7.mkG (gid g) (gtext g) (gx g) (gy g) (gadv g).

(* the library's anchor.Table: a NULL offset is the zero value *)
Definition t_anchor (a : anchor) : M7.anchor := match a with Some p => p | None => (0, 0)%Z end.

(* coverage.Table: glyph -> index of its record *)
Fixpoint t_cov (recs : csub) (i : nat) : M7.covtab :=
  match recs with
  | [] => []
  | (g, _) :: r => (g, i) :: t_cov r (S i)
  end.

Definition t_recs (recs : csub) : list (M7.anchor * M7.anchor) :=
  map (fun e => (t_anchor (fst (snd e)), t_anchor (snd (snd e)))) recs.

Lemma cov_find_assoc : forall (recs : csub) i0 g,
  match assoc g recs with
  | Some (en, ex) => exists i, M7.cov_find (t_cov recs i0) g = Some i /\ i0 <= i /\
                               nth_error (t_recs recs) (i - i0) = Some (t_anchor en, t_anchor ex)
  | None => M7.cov_find (t_cov recs i0) g = None
  end.
Proof.
  induction recs as [|[k [en ex]] recs IH]; intros i0 g; cbn [assoc t_cov M7.cov_find].
  - reflexivity.
  - rewrite (N.eqb_sym k g). destruct (N.eqb g k).
    + exists i0. rewrite Nat.sub_diag. repeat split; auto.
    + specialize (IH (S i0) g). destruct (assoc g recs) as [[en' ex']|]; [|assumption].
      destruct IH as (i & Hf & Hle & Hn). exists i. split; [assumption|]. split; [lia|].
      replace (i - i0) with (S (i - S i0)) by lia. assumption.
Qed.

Lemma upd_map_set_nth : forall (seq : list glyph) a g',
  a < length seq -> M7.oupd (map t_glyph seq) a (t_glyph g') = Ok (map t_glyph (set_nth a g' seq)).
Proof.
  unfold M7.oupd. induction seq as [|x seq IH]; intros a g' H; cbn [length] in H; [lia|].
  destruct a as [|a]; cbn [map M7.upd set_nth]; [reflexivity|].
  specialize (IH a g' ltac:(lia)). destruct (M7.upd (map t_glyph seq) a (t_glyph g')); [|discriminate].
  inversion IH. reflexivity.
Qed.

Lemma oget_map : forall (seq : list glyph) i g,
  nth_error seq i = Some g -> M7.oget (map t_glyph seq) i = Ok (t_glyph g).
Proof. intros. unfold M7.oget. rewrite nth_error_map, H. reflexivity. Qed.

(* ---------------------------------------------------------- int16 wrap *)

Lemma wrap_fits : forall z, fits16 z = true -> M7.wrap_i16 z = z.
Proof.
  intros z H. unfold fits16 in H. apply andb_true_iff in H. destruct H as [H1 H2].
  apply Z.leb_le in H1. apply Z.leb_le in H2. unfold M7.wrap_i16.
  rewrite Z.mod_small by lia. lia.
Qed.

Lemma wrap_add_l : forall x y, M7.wrap_i16 (M7.wrap_i16 x + y) = M7.wrap_i16 (x + y).
Proof.
  intros x y. unfold M7.wrap_i16. f_equal.
  replace ((x + 32768) mod 65536 - 32768 + y + 32768)%Z with ((x + 32768) mod 65536 + y)%Z by lia.
  rewrite Z.add_mod_idemp_l by lia. f_equal. lia.
Qed.

Lemma wrap_sub_l : forall x y, M7.wrap_i16 (M7.wrap_i16 x - y) = M7.wrap_i16 (x - y).
Proof. intros. unfold Z.sub. apply wrap_add_l. Qed.

Lemma wrap_sub3 : forall x y z,
  M7.wrap_i16 (M7.wrap_i16 (M7.wrap_i16 x - y) - z) = M7.wrap_i16 (x - y - z).
Proof.
  intros. rewrite wrap_sub_l.
  replace (M7.wrap_i16 x - y - z)%Z with (M7.wrap_i16 x + (- y - z))%Z by lia.
  rewrite wrap_add_l. f_equal. lia.
Qed.

(* ------------------------------------------- the two halves of the step *)

Lemma cross_rule_none : forall kp (recs : csub) seq a g0 (en ex : anchor) ng,
  rule_prev kp recs seq a = None ->
  cur_cross false recs g0 en ex
    (option_map (fun r : glyph * list glyph * nat => fst (fst r)) (next_kept kp (rev (firstn a seq)) 0)) ng = gy g0.
Proof.
  intros kp recs seq a g0 en ex ng H. unfold rule_prev in H. unfold cur_cross.
  destruct en as [[enx eny]|]; [|reflexivity].
  destruct (next_kept kp (rev (firstn a seq)) 0) as [[[gp l'] d]|]; [|reflexivity].
  cbn [option_map fst]. unfold covered in H.
  destruct (assoc (gid gp) recs); [discriminate | reflexivity].
Qed.

Lemma line_rule_none : forall kp (recs : csub) seq a b g0 (ex : anchor),
  rule_next kp recs seq a b = None ->
  cur_line recs g0 ex
    (option_map (fun r : glyph * list glyph * nat => (fst (fst r), sum_adv (slice seq (S a) (snd r))))
                (next_kept kp (slice seq (S a) b) (S a))) = gadv g0.
Proof.
  intros kp recs seq a b g0 ex H. unfold rule_next in H. unfold cur_line.
  destruct ex as [[exx exy]|]; [|reflexivity].
  destruct (next_kept kp (slice seq (S a) b) (S a)) as [[[gn l'] q]|]; [|reflexivity].
  cbn [option_map fst snd]. unfold covered in H.
  destruct (assoc (gid gn) recs); [discriminate | reflexivity].
Qed.

Lemma opt_nat_eqb_eq : forall a b, opt_nat_eqb a b = true -> a = b.
Proof.
  intros [x|] [y|] H; cbn in H; try discriminate; [|reflexivity].
  apply Nat.eqb_eq in H. congruence.
Qed.

(* the glyph before a: C07's gpos3_prev computes the y offset of the rule *)
Lemma prev_tie : forall kp (recs : csub) seq a g0 (en ex : anchor) ng,
  nth_error seq a = Some g0 ->
  rule_prev kp recs seq a = adj_prev recs seq a ->
  match adj_prev recs seq a with
  | Some p => is_none en || is_none (exit_at recs seq p)
  | None => false
  end = false ->
  let Y := cur_cross false recs g0 en ex
             (option_map (fun r : glyph * list glyph * nat => fst (fst r)) (next_kept kp (rev (firstn a seq)) 0)) ng in
  fits16 Y = true ->
  M7.gpos3_prev (t_cov recs 0) (t_recs recs) (map t_glyph seq) a (t_glyph g0) (snd (t_anchor en)) =
  Ok (M7.mkG (gid g0) (gtext g0) (gx g0) Y (gadv g0)).
Proof.
  intros kp recs seq a g0 en ex ng Hn HF HN Y HY.
  assert (Ha : a < length seq) by (apply nth_error_Some; congruence).
  destruct a as [|a1].
  - (* no glyph before *)
    cbn [M7.gpos3_prev]. unfold adj_prev in HF.
    unfold Y. rewrite (cross_rule_none kp recs seq 0 g0 en ex ng HF). reflexivity.
  - cbn [M7.gpos3_prev].
    destruct (nth_error seq a1) as [pg|] eqn:Hp; [|apply nth_error_None in Hp; lia].
    rewrite (oget_map seq a1 pg Hp). cbn [obind t_glyph M7.g_gid].
    pose proof (cov_find_assoc recs 0 (gid pg)) as Hc.
    unfold adj_prev in HF, HN. rewrite Hp in HF, HN. unfold covered in HF, HN.
    destruct (assoc (gid pg) recs) as [[pen pex]|] eqn:Ap.
    + (* the adjacent glyph is covered: both look at it *)
      destruct Hc as (i & Hf & _ & Hr). rewrite Nat.sub_0_r in Hr. rewrite Hf.
      unfold M7.oget. rewrite Hr. cbn [obind].
      apply orb_false_iff in HN. destruct HN as [HNe HNx].
      destruct en as [[enx eny]|]; [|discriminate].
      unfold exit_at in HNx. rewrite Hp, Ap in HNx.
      destruct pex as [[pxx pxy]|]; [|discriminate].
      cbn [t_anchor snd fst M7.g_gid M7.g_text M7.g_xoff M7.g_yoff M7.g_adv t_glyph].
      (* the rule's partner is the same glyph *)
      unfold rule_prev in HF.
      destruct (next_kept kp (rev (firstn (S a1) seq)) 0) as [[[gp l'] d]|] eqn:Hk; [|discriminate].
      destruct (prev_kept_spec kp seq (S a1) gp l' d Hk ltac:(lia)) as (Hd & Hgp & _).
      destruct (covered recs gp); [|discriminate].
      inversion HF as [Hpos]. replace (S a1 - S d) with a1 in Hgp by lia.
      rewrite Hp in Hgp. inversion Hgp; subst gp.
      unfold Y in *. try rewrite Hk in *. cbn [option_map fst] in *.
      rewrite (cur_cross_ltr recs g0 enx eny ex pg ng pen pxx pxy Ap) in *.
      rewrite wrap_sub_l. rewrite wrap_fits by assumption. reflexivity.
    + (* not covered: nothing from this side *)
      rewrite Hc. unfold Y. rewrite (cross_rule_none kp recs seq (S a1) g0 en ex ng HF). reflexivity.
Qed.

(* the glyph behind a: C07's gpos3_next computes the advance of the rule *)
Lemma next_tie : forall kp (recs : csub) seq a b g0 (en ex : anchor) y,
  nth_error seq a = Some g0 -> b <= length seq ->
  rule_next kp recs seq a b = adj_next recs seq a b ->
  match adj_next recs seq a b with
  | Some q => is_none ex || is_none (entry_at recs seq q)
  | None => false
  end = false ->
  let ADV := cur_line recs g0 ex
               (option_map (fun r : glyph * list glyph * nat => (fst (fst r), sum_adv (slice seq (S a) (snd r))))
                           (next_kept kp (slice seq (S a) b) (S a))) in
  fits16 ADV = true ->
  M7.gpos3_next (t_cov recs 0) (t_recs recs) (map t_glyph seq) a b
                (M7.mkG (gid g0) (gtext g0) (gx g0) y (gadv g0)) (fst (t_anchor ex)) =
  Ok (M7.mkG (gid g0) (gtext g0) (gx g0) y ADV).
Proof.
  intros kp recs seq a b g0 en ex y Hn Hb HF HN ADV HA.
  unfold M7.gpos3_next. unfold adj_next in HF, HN.
  destruct (S a <? b) eqn:Hab.
  2:{ unfold ADV. rewrite (line_rule_none kp recs seq a b g0 ex HF). reflexivity. }
  apply Nat.ltb_lt in Hab.
  destruct (nth_error seq (S a)) as [ng|] eqn:Hq; [|apply nth_error_None in Hq; lia].
  rewrite (oget_map seq (S a) ng Hq). cbn [obind t_glyph M7.g_gid].
  pose proof (cov_find_assoc recs 0 (gid ng)) as Hc. unfold covered in HF, HN.
  destruct (assoc (gid ng) recs) as [[nen nex]|] eqn:An.
  - destruct Hc as (i & Hf & _ & Hr). rewrite Nat.sub_0_r in Hr. rewrite Hf.
    unfold M7.oget. rewrite Hr. cbn [obind].
    apply orb_false_iff in HN. destruct HN as [HNx HNe].
    destruct ex as [[exx exy]|]; [|discriminate].
    unfold entry_at in HNe. rewrite Hq, An in HNe.
    destruct nen as [[nx ny]|]; [|discriminate].
    cbn [t_anchor snd fst M7.g_gid M7.g_text M7.g_xoff M7.g_yoff M7.g_adv].
    unfold rule_next in HF.
    destruct (next_kept kp (slice seq (S a) b) (S a)) as [[[gn l'] q]|] eqn:Hk; [|discriminate].
    destruct (next_kept_window_spec kp seq a b gn l' q Hk) as (_ & _ & Hgn & _).
    destruct (covered recs gn); [|discriminate].
    inversion HF as [Hpos]. subst q. rewrite Hq in Hgn. inversion Hgn; subst gn.
    unfold ADV in *. cbn [option_map fst snd] in *.
    assert (Hz : sum_adv (slice seq (S a) (S a)) = 0%Z)
      by (unfold slice; rewrite Nat.sub_diag; reflexivity).
    rewrite Hz in *.
    rewrite (cur_line_attached recs g0 exx exy ng 0%Z nx ny nex An) in *.
    cbn [t_glyph M7.g_xoff]. rewrite wrap_sub3. rewrite Z.sub_0_r in *.
    rewrite wrap_fits by assumption. reflexivity.
  - rewrite Hc. unfold ADV. rewrite (line_rule_none kp recs seq a b g0 ex HF). reflexivity.
Qed.

(* --------------------------------------------------------------- the tie *)

(* inside the domain (flag pair: within int16, no reason for being outside)
   the rule of the specification at position a and C07's mirror of
   Gpos3_1.apply produce the same sequence and the same resume position;
   outside the coverage neither matches *)
Lemma cursive_is_c07_mirror : forall kp keep7 (recs : csub) seq a b g' k,
  b <= length seq ->
  R_cursive kp false seq a b recs = Some (ESet [(a, g')] (S a), (true, dv0)) ->
  M7.apply_sub keep7 (M7.Gpos3_1 (t_cov recs 0) (t_recs recs)) (map t_glyph seq) k a b =
  Ok (Some (S a), (map t_glyph (set_nth a g' seq), k)).
Proof.
  intros kp keep7 recs seq a b g' k Hb H.
  unfold R_cursive in H.
  destruct (nth_error seq a) as [g0|] eqn:Hn; [|discriminate].
  destruct (assoc (gid g0) recs) as [[en ex]|] eqn:Ha; [|discriminate].
  injection H as Hg Hfit HF HN.
  assert (Hlen : a < length seq) by (apply nth_error_Some; congruence).
  (* the domain conditions *)
  apply negb_false_iff in HF. apply andb_true_iff in HF. destruct HF as [HFp HFn].
  apply opt_nat_eqb_eq in HFp. apply opt_nat_eqb_eq in HFn.
  apply orb_false_iff in HN. destruct HN as [HNp HNn].
  unfold glyph_fits in Hfit. cbn [gx gy gadv] in Hfit.
  apply andb_true_iff in Hfit. destruct Hfit as [Hfit HfA].
  apply andb_true_iff in Hfit. destruct Hfit as [_ HfY].
  (* C07's step *)
  unfold M7.apply_sub. rewrite (oget_map seq a g0 Hn). cbn [obind t_glyph M7.g_gid].
  pose proof (cov_find_assoc recs 0 (gid g0)) as Hc. rewrite Ha in Hc.
  destruct Hc as (i & Hf & _ & Hr). rewrite Nat.sub_0_r in Hr. rewrite Hf.
  unfold M7.oget at 1. rewrite Hr. cbn [obind].
  destruct (t_anchor en) as [enx eny] eqn:Een. destruct (t_anchor ex) as [exx exy] eqn:Eex.
  pose proof (prev_tie kp recs seq a g0 en ex
                (option_map (fun r : glyph * list glyph * nat => fst (fst r))
                            (next_kept kp (slice seq (S a) b) (S a))) Hn HFp HNp HfY) as Hp.
  rewrite Een in Hp. cbn [snd] in Hp.
  change (M7.mkG (gid g0) (gtext g0) (gx g0) (gy g0) (gadv g0)) with (t_glyph g0).
  rewrite Hp. cbn [obind].
  pose proof (next_tie kp recs seq a b g0 en ex
                (cur_cross false recs g0 en ex
                   (option_map (fun r : glyph * list glyph * nat => fst (fst r)) (next_kept kp (rev (firstn a seq)) 0))
                   (option_map (fun r : glyph * list glyph * nat => fst (fst r)) (next_kept kp (slice seq (S a) b) (S a))))
                Hn Hb HFn HNn HfA) as Hx.
  rewrite Eex in Hx. cbn [fst] in Hx. rewrite Hx. cbn [obind].
  subst g'.
  match goal with |- context [M7.oupd _ a ?G] =>
    change G with (t_glyph (mkG (gid g0) (gtext g0) (gx g0)
      (cur_cross false recs g0 en ex
         (option_map (fun r : glyph * list glyph * nat => fst (fst r)) (next_kept kp (rev (firstn a seq)) 0))
         (option_map (fun r : glyph * list glyph * nat => fst (fst r)) (next_kept kp (slice seq (S a) b) (S a))))
      (cur_line recs g0 ex
         (option_map (fun r : glyph * list glyph * nat => (fst (fst r), sum_adv (slice seq (S a) (snd r))))
                     (next_kept kp (slice seq (S a) b) (S a))))))
  end.
  rewrite upd_map_set_nth by assumption. reflexivity.
Qed.

Lemma cursive_no_match_is_c07_mirror : forall kp keep7 (recs : csub) seq a b g0 k,
  nth_error seq a = Some g0 ->
  R_cursive kp false seq a b recs = None ->
  M7.apply_sub keep7 (M7.Gpos3_1 (t_cov recs 0) (t_recs recs)) (map t_glyph seq) k a b =
  M7.nomatch (map t_glyph seq) k.
Proof.
  intros kp keep7 recs seq a b g0 k Hn H. unfold R_cursive in H. rewrite Hn in H.
  destruct (assoc (gid g0) recs) as [[en ex]|] eqn:Ha; [discriminate|].
  unfold M7.apply_sub. rewrite (oget_map seq a g0 Hn). cbn [obind t_glyph M7.g_gid].
  pose proof (cov_find_assoc recs 0 (gid g0)) as Hc. rewrite Ha in Hc. rewrite Hc. reflexivity.
Qed.

(* mark-to-ligature: C07's mirror of Gpos5_1.apply never matches *)
Lemma marklig_c07_mirror_is_noop : forall keep7 (seq : list glyph) a g0 k b,
  nth_error seq a = Some g0 ->
  M7.apply_sub keep7 M7.Gpos5_1 (map t_glyph seq) k a b = M7.nomatch (map t_glyph seq) k.
Proof.
  intros. unfold M7.apply_sub. rewrite (oget_map seq a g0 H). reflexivity.
Qed.
