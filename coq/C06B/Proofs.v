(* C06B/Proofs.v — lemmas about the extended reference shaper R_shape2. *)
From Coq Require Import List NArith ZArith Bool Arith Lia.
From Gen Require Import Consts C06 C06B.
From C06 Require Import Model Spec Util Proofs.
From C06B Require Import Model.
Import ListNotations.

(* ------------------------------------------- C06's scan is the generic scan *)

Lemma scan_is_gscan : forall ll gd budget lk fuel r seq ok,
  scan ll gd budget lk fuel r seq ok = gscan andb false (step ll gd budget lk) fuel r seq ok.
Proof.
  intros ll gd budget lk fuel. induction fuel as [|f IH]; intros r seq ok; cbn [scan gscan].
  - destruct (r =? 0); [rewrite andb_true_r | rewrite andb_false_r]; reflexivity.
  - destruct (r =? 0); [reflexivity|].
    destruct (step ll gd budget lk (length seq - r) seq) as [[seq' next] ok'].
    destruct (size_cap <? length seq'); [reflexivity | apply IH].
Qed.

Lemma rscan_is_grscan : forall ll gd budget lk p seq acc,
  rscan ll gd budget lk p seq = fst (grscan andb (step ll gd budget lk) p seq acc).
Proof.
  intros ll gd budget lk p. induction p as [|p IH]; intros seq acc; cbn [rscan grscan].
  - reflexivity.
  - destruct (step ll gd budget lk p seq) as [[seq' next] ok']. apply IH.
Qed.

(* --------------------------------------------- generic facts about gscan *)

Section GScanFacts.
Context {A : Type}.
Variable andA : A -> A -> A.
Variable failA : A.
Variable stp : nat -> list glyph -> list glyph * nat * A.

(* any reflexive, transitive relation every step respects is respected by the
   scans *)
Variable R : list glyph -> list glyph -> Prop.
Hypothesis R_refl : forall s, R s s.
Hypothesis R_trans : forall s1 s2 s3, R s1 s2 -> R s2 s3 -> R s1 s3.
Hypothesis R_step : forall p s, R s (fst (fst (stp p s))).

Lemma gscan_invariant : forall fuel r seq acc, R seq (fst (gscan andA failA stp fuel r seq acc)).
Proof.
  induction fuel as [|f IH]; intros r seq acc; cbn [gscan].
  - apply R_refl.
  - destruct (r =? 0); [apply R_refl|].
    pose proof (R_step (length seq - r) seq) as Hs.
    destruct (stp (length seq - r) seq) as [[seq' next] a']. cbn [fst] in Hs.
    destruct (size_cap <? length seq'); [assumption|].
    eapply R_trans; [exact Hs | apply IH].
Qed.

Lemma grscan_invariant : forall p seq acc, R seq (fst (grscan andA stp p seq acc)).
Proof.
  induction p as [|p IH]; intros seq acc; cbn [grscan].
  - apply R_refl.
  - pose proof (R_step p seq) as Hs.
    destruct (stp p seq) as [[seq' next] a']. cbn [fst] in Hs.
    eapply R_trans; [exact Hs | apply IH].
Qed.
End GScanFacts.

(* positions p, p+1, ..., p+n-1 one after the other *)
Fixpoint piter {A} (andA : A -> A -> A) (stp : nat -> list glyph -> list glyph * nat * A)
         (n p : nat) (seq : list glyph) (acc : A) : list glyph * A :=
  match n with
  | O => (seq, acc)
  | S n' => match stp p seq with (seq', _, a') => piter andA stp n' (S p) seq' (andA acc a') end
  end.

(* a step that keeps the length and resumes at the next position *)
Definition unit_step {A} (stp : nat -> list glyph -> list glyph * nat * A) : Prop :=
  forall p seq, length (fst (fst (stp p seq))) = length seq /\ snd (fst (stp p seq)) = S p.

(* resume position and totality: with unit steps the scan visits the
   positions |seq|-r, ..., |seq|-1 once each, in this order, and never ends
   by lack of fuel or by the size cap *)
Lemma gscan_unit_is_piter {A} (andA : A -> A -> A) (failA : A) stp :
  unit_step stp ->
  forall fuel r seq acc,
  r <= fuel -> r <= length seq -> length seq <= size_cap ->
  gscan andA failA stp fuel r seq acc = piter andA stp r (length seq - r) seq acc.
Proof.
  intros Hu. induction fuel as [|f IH]; intros r seq acc Hf Hr Hc.
  - assert (r = 0) by lia. subst. reflexivity.
  - cbn [gscan]. destruct r as [|r]; [reflexivity|].
    cbn [Nat.eqb piter].
    pose proof (Hu (length seq - S r) seq) as [Hl Hn].
    destruct (stp (length seq - S r) seq) as [[seq' next] a']. cbn [fst snd] in Hl, Hn.
    assert (Hcap : (size_cap <? length seq') = false) by (apply Nat.ltb_ge; lia).
    rewrite Hcap. subst next.
    replace (length seq' - S (length seq - S r)) with r by lia.
    rewrite IH by lia. rewrite Hl. replace (length seq - r) with (S (length seq - S r)) by lia.
    reflexivity.
Qed.

Lemma grscan_length {A} (andA : A -> A -> A) stp :
  unit_step stp -> forall p seq (acc : A), length (fst (grscan andA stp p seq acc)) = length seq.
Proof.
  intros Hu. induction p as [|p IH]; intros seq acc; cbn [grscan]; [reflexivity|].
  pose proof (Hu p seq) as [Hl _]. destruct (stp p seq) as [[seq' next] a']. cbn [fst] in Hl.
  rewrite IH. assumption.
Qed.

Lemma piter_length {A} (andA : A -> A -> A) stp :
  unit_step stp -> forall n p seq (acc : A), length (fst (piter andA stp n p seq acc)) = length seq.
Proof.
  intros Hu. induction n as [|n IH]; intros p seq acc; cbn [piter]; [reflexivity|].
  pose proof (Hu p seq) as [Hl _]. destruct (stp p seq) as [[seq' next] a']. cbn [fst] in Hl.
  rewrite IH. assumption.
Qed.

(* ------------------------------------------------- pointwise relations *)

Definition pointwise (Rg : glyph -> glyph -> Prop) (s s' : list glyph) : Prop :=
  length s' = length s /\
  forall i g, nth_error s i = Some g -> exists g', nth_error s' i = Some g' /\ Rg g g'.

Lemma pointwise_refl (Rg : glyph -> glyph -> Prop) : (forall g, Rg g g) -> forall s, pointwise Rg s s.
Proof. intros H s. split; [reflexivity|]. intros i g Hg. exists g. auto. Qed.

Lemma pointwise_trans (Rg : glyph -> glyph -> Prop) : (forall a b c, Rg a b -> Rg b c -> Rg a c) ->
  forall s1 s2 s3, pointwise Rg s1 s2 -> pointwise Rg s2 s3 -> pointwise Rg s1 s3.
Proof.
  intros Ht s1 s2 s3 [L1 H1] [L2 H2]. split; [congruence|].
  intros i g Hg. destruct (H1 i g Hg) as (g' & Hg' & R1).
  destruct (H2 i g' Hg') as (g'' & Hg'' & R2). exists g''. split; [assumption|eauto].
Qed.

Lemma pointwise_set_nth (Rg : glyph -> glyph -> Prop) : (forall g, Rg g g) ->
  forall s p g0 g', nth_error s p = Some g0 -> Rg g0 g' -> pointwise Rg s (set_nth p g' s).
Proof.
  intros Hr s p g0 g' Hp HR. split; [apply set_nth_length|].
  intros i g Hg. destruct (Nat.eq_dec i p) as [->|Hne].
  - exists g'. split.
    + apply nth_error_set_nth_same. apply nth_error_Some. congruence.
    + congruence.
  - exists g. split; [|apply Hr]. rewrite nth_error_set_nth_other by auto. assumption.
Qed.

(* what a positioning step of the new types may do to one glyph: id and text
   stay; a glyph the flags skip is not touched at all *)
Definition keeps_id (g g' : glyph) : Prop := gid g' = gid g /\ gtext g' = gtext g.
Definition crel (kp : N -> bool) (g g' : glyph) : Prop :=
  keeps_id g g' /\ gx g' = gx g /\ (kp (gid g) = false -> g' = g).
Definition mrel (kp : N -> bool) (g g' : glyph) : Prop :=
  keeps_id g g' /\ gadv g' = gadv g /\ (kp (gid g) = false -> g' = g).

Lemma crel_refl kp g : crel kp g g.
Proof. repeat split. Qed.
Lemma mrel_refl kp g : mrel kp g g.
Proof. repeat split. Qed.
Lemma crel_trans kp a b c : crel kp a b -> crel kp b c -> crel kp a c.
Proof.
  intros [[I1 T1] [X1 K1]] [[I2 T2] [X2 K2]]. repeat split; try congruence.
  intros Hk. rewrite K2 by (rewrite I1; assumption). apply K1. assumption.
Qed.
Lemma mrel_trans kp a b c : mrel kp a b -> mrel kp b c -> mrel kp a c.
Proof.
  intros [[I1 T1] [X1 K1]] [[I2 T2] [X2 K2]]. repeat split; try congruence.
  intros Hk. rewrite K2 by (rewrite I1; assumption). apply K1. assumption.
Qed.

(* ------------------------------------------------------- the rules' shape *)

(* a `try` function whose effect rewrites exactly the glyph at the position *)
Definition unit_try (Rg : glyph -> glyph -> Prop)
           (try : list glyph -> nat -> option (effect * xflag)) : Prop :=
  forall seq p e fl, try seq p = Some (e, fl) ->
  exists g0 g', nth_error seq p = Some g0 /\ e = ESet [(p, g')] (S p) /\ Rg g0 g'.

Lemma first_some_inv {S R} (f : S -> option R) : forall l r,
  first_some f l = Some r ->
  exists pre x post, l = pre ++ x :: post /\ (forall y, In y pre -> f y = None) /\ f x = Some r.
Proof.
  induction l as [|x l IH]; intros r H; cbn [first_some] in H; [discriminate|].
  destruct (f x) as [r'|] eqn:E.
  - inversion H; subst. exists [], x, l. repeat split; auto. intros y [].
  - destruct (IH r H) as (pre & y & post & -> & Hp & Hy).
    exists (x :: pre), y, post. repeat split; auto.
    intros z [<-|Hz]; auto.
Qed.

Lemma first_some_first {S R} (f : S -> option R) : forall pre x post r,
  (forall y, In y pre -> f y = None) -> f x = Some r ->
  first_some f (pre ++ x :: post) = Some r.
Proof.
  induction pre as [|y pre IH]; intros x post r Hp Hx; cbn [first_some app].
  - rewrite Hx. reflexivity.
  - rewrite (Hp y) by (left; reflexivity). apply IH; [|assumption].
    intros z Hz. apply Hp. right. assumption.
Qed.

Lemma first_some_none {S R} (f : S -> option R) : forall l,
  (forall y, In y l -> f y = None) -> first_some f l = None.
Proof.
  induction l as [|x l IH]; intros H; cbn [first_some]; [reflexivity|].
  rewrite (H x) by (left; reflexivity). apply IH. intros y Hy. apply H. right. assumption.
Qed.

Definition cshape (g0 g' : glyph) : Prop := keeps_id g0 g' /\ gx g' = gx g0.
Definition mshape (g0 g' : glyph) : Prop := keeps_id g0 g' /\ gadv g' = gadv g0.

Lemma R_cursive_shape : forall kp rtl seq a b recs e fl,
  R_cursive kp rtl seq a b recs = Some (e, fl) ->
  exists g0 g', nth_error seq a = Some g0 /\ e = ESet [(a, g')] (S a) /\ cshape g0 g'.
Proof.
  intros kp rtl seq a b recs e fl H. unfold R_cursive in H.
  destruct (nth_error seq a) as [g0|]; [|discriminate].
  destruct (assoc (gid g0) recs) as [[en ex]|]; [|discriminate].
  inversion H; subst. eexists. eexists. split; [reflexivity|]. split; [reflexivity|].
  repeat split.
Qed.

Lemma R_marklig_shape : forall gd kp ca seq a sub e fl,
  R_marklig gd kp ca seq a sub = Some (e, fl) ->
  exists g0 g', nth_error seq a = Some g0 /\ e = ESet [(a, g')] (S a) /\ mshape g0 g'.
Proof.
  intros gd kp ca seq a sub e fl H. unfold R_marklig in H.
  destruct (nth_error seq a) as [g0|]; [|discriminate].
  destruct (assoc (gid g0) (ms_marks sub)) as [[cls [mx my]]|]; [|discriminate].
  destruct (next_kept (lig_stop gd kp) (rev (firstn a seq)) 0) as [[[gl l'] d]|]; [|discriminate].
  destruct (assoc (gid gl) (ms_ligs sub)) as [comps|]; [|discriminate].
  destruct (nth_error comps (comp_index (length comps) (nth a ca 0))) as [anchors|]; [|discriminate].
  destruct (nth_error anchors cls) as [[[lx ly]|]|]; try discriminate.
  inversion H; subst. eexists. eexists. split; [reflexivity|]. split; [reflexivity|].
  repeat split.
Qed.

Lemma try_cursive_unit : forall kp rtl subs, unit_try cshape (try_cursive kp rtl subs).
Proof.
  intros kp rtl subs seq p e fl H. unfold try_cursive in H.
  apply first_some_inv in H. destruct H as (pre & x & post & _ & _ & Hx).
  eapply R_cursive_shape. exact Hx.
Qed.

Lemma try_marklig_unit : forall gd kp ca subs, unit_try mshape (try_marklig gd kp ca subs).
Proof.
  intros gd kp ca subs seq p e fl H. unfold try_marklig in H.
  apply first_some_inv in H. destruct H as (pre & x & post & _ & _ & Hx).
  eapply R_marklig_shape. exact Hx.
Qed.

(* one step: either nothing happens, or the glyph at p - kept by the flags -
   is replaced by a glyph in relation Rg; the scan resumes at p+1 *)
Lemma xstep_cases : forall Rg kp try p seq,
  unit_try Rg try ->
  (xstep kp try p seq = (seq, S p, xtrue)) \/
  (exists g0 g' fl, nth_error seq p = Some g0 /\ kp (gid g0) = true /\ Rg g0 g' /\
                    try seq p = Some (ESet [(p, g')] (S p), fl) /\
                    xstep kp try p seq = (set_nth p g' seq, S p, fl)).
Proof.
  intros Rg kp try p seq Hu. unfold xstep.
  destruct (kp (gid_at seq p)) eqn:Hk; [|left; reflexivity].
  destruct (try seq p) as [[e fl]|] eqn:Ht; [|left; reflexivity].
  destruct (Hu seq p e fl Ht) as (g0 & g' & Hn & -> & HR).
  right. exists g0, g', fl. repeat split; auto.
  unfold gid_at in Hk. rewrite Hn in Hk. assumption.
Qed.

Lemma xstep_unit : forall Rg kp try, unit_try Rg try -> unit_step (xstep kp try).
Proof.
  intros Rg kp try Hu p seq.
  destruct (xstep_cases Rg kp try p seq Hu) as [H|(g0 & g' & fl & _ & _ & _ & _ & H)];
    rewrite H; cbn [fst snd]; split; auto. apply set_nth_length.
Qed.

Lemma xstep_pointwise_c : forall kp try p seq,
  unit_try cshape try -> pointwise (crel kp) seq (fst (fst (xstep kp try p seq))).
Proof.
  intros kp try p seq Hu.
  destruct (xstep_cases cshape kp try p seq Hu) as [H|(g0 & g' & fl & Hn & Hk & [Hi Hx] & _ & H)];
    rewrite H; cbn [fst].
  - apply pointwise_refl. apply crel_refl.
  - eapply pointwise_set_nth; [apply crel_refl | exact Hn |].
    repeat split; try apply Hi; auto. intros Hf. congruence.
Qed.

Lemma xstep_pointwise_m : forall kp try p seq,
  unit_try mshape try -> pointwise (mrel kp) seq (fst (fst (xstep kp try p seq))).
Proof.
  intros kp try p seq Hu.
  destruct (xstep_cases mshape kp try p seq Hu) as [H|(g0 & g' & fl & Hn & Hk & [Hi Hx] & _ & H)];
    rewrite H; cbn [fst].
  - apply pointwise_refl. apply mrel_refl.
  - eapply pointwise_set_nth; [apply mrel_refl | exact Hn |].
    repeat split; try apply Hi; auto. intros Hf. congruence.
Qed.

(* ------------------------------------------------ whole lookups: invariants *)

Lemma run_cursive_pointwise : forall gd flags mfs subs seq,
  pointwise (crel (keep gd flags mfs)) seq (fst (run_cursive gd flags mfs subs seq)).
Proof.
  intros gd flags mfs subs seq. unfold run_cursive.
  set (kp := keep gd flags mfs).
  destruct (has_flag flags c06b_RightToLeft); cbn [fst].
  - unfold xrscan.
    apply (grscan_invariant xand _ (pointwise (crel kp))).
    + apply pointwise_refl, crel_refl.
    + apply pointwise_trans, crel_trans.
    + intros p s'. apply xstep_pointwise_c, try_cursive_unit.
  - unfold xscan.
    apply (gscan_invariant xand xfail _ (pointwise (crel kp))).
    + apply pointwise_refl, crel_refl.
    + apply pointwise_trans, crel_trans.
    + intros p s'. apply xstep_pointwise_c, try_cursive_unit.
Qed.

Lemma run_marklig_pointwise : forall gd flags mfs subs ca seq,
  pointwise (mrel (keep gd flags mfs)) seq (fst (run_marklig gd flags mfs subs ca seq)).
Proof.
  intros gd flags mfs subs ca seq. unfold run_marklig, xscan. cbn [fst].
  apply (gscan_invariant xand xfail _ (pointwise (mrel (keep gd flags mfs)))).
  - apply pointwise_refl, mrel_refl.
  - apply pointwise_trans, mrel_trans.
  - intros p s'. apply xstep_pointwise_m, try_marklig_unit.
Qed.

Lemma pointwise_map {T} (Rg : glyph -> glyph -> Prop) (f : glyph -> T) :
  (forall g g', Rg g g' -> f g' = f g) ->
  forall s s', pointwise Rg s s' -> map f s' = map f s.
Proof.
  intros Hf s. induction s as [|g s IH]; intros s' [Hl H].
  - destruct s'; [reflexivity|discriminate].
  - destruct s' as [|g' s']; [discriminate|]. cbn [map]. f_equal.
    + destruct (H 0 g eq_refl) as (g'' & Hg & HR). cbn in Hg. inversion Hg; subst. apply Hf. assumption.
    + apply IH. split; [cbn in Hl; lia|]. intros i x Hx. apply (H (S i) x Hx).
Qed.

(* -------------------------------------------------- scans of the new types *)

(* resume position / totality: a lookup of the new types visits every
   position 0, 1, ..., |seq|-1 once, in this order *)
Lemma xscan_is_piter : forall Rg kp try seq,
  unit_try Rg try -> length seq <= size_cap ->
  xscan (xstep kp try) seq = piter xand (xstep kp try) (length seq) 0 seq xtrue.
Proof.
  intros Rg kp try seq Hu Hc. unfold xscan.
  rewrite (gscan_unit_is_piter xand xfail _ (xstep_unit Rg kp try Hu)) by lia.
  rewrite Nat.sub_diag. reflexivity.
Qed.

(* -------------------------------------------------------- cursive: the rule *)

Lemma R_cursive_eq : forall kp rtl seq a b recs g0 en ex,
  nth_error seq a = Some g0 -> assoc (gid g0) recs = Some (en, ex) ->
  R_cursive kp rtl seq a b recs =
  let prev := next_kept kp (rev (firstn a seq)) 0 in
  let next := next_kept kp (slice seq (S a) b) (S a) in
  let g' := mkG (gid g0) (gtext g0) (gx g0)
              (cur_cross rtl recs g0 en ex (option_map (fun r => fst (fst r)) prev)
                         (option_map (fun r => fst (fst r)) next))
              (cur_line recs g0 ex
                 (option_map (fun r => (fst (fst r), sum_adv (slice seq (S a) (snd r)))) next)) in
  Some (ESet [(a, g')] (S a), (glyph_fits g', cur_div kp recs seq a b en ex)).
Proof. intros. unfold R_cursive. rewrite H, H0. reflexivity. Qed.

Lemma R_cursive_not_covered : forall kp rtl seq a b recs g0,
  nth_error seq a = Some g0 -> assoc (gid g0) recs = None ->
  R_cursive kp rtl seq a b recs = None.
Proof. intros. unfold R_cursive. rewrite H, H0. reflexivity. Qed.

(* the partner glyphs: the nearest kept glyph before a / behind a inside the window *)
Lemma prev_kept_spec : forall kp (seq : list glyph) a gp l' d,
  next_kept kp (rev (firstn a seq)) 0 = Some (gp, l', d) -> a <= length seq ->
  d < a /\ nth_error seq (a - S d) = Some gp /\ kp (gid gp) = true /\
  (forall i h, a - S d < i < a -> nth_error seq i = Some h -> kp (gid h) = false).
Proof.
  intros kp seq a gp l' d H Ha.
  apply next_kept_spec in H. destruct H as (_ & Hn & Hk & _ & Hs).
  rewrite Nat.sub_0_r in *.
  assert (Hl : length (firstn a seq) = a) by (apply firstn_length_le; assumption).
  assert (Hd : d < a).
  { assert (d < length (rev (firstn a seq))) by (apply nth_error_Some; congruence).
    rewrite rev_length, Hl in H. assumption. }
  assert (Hrev : forall i x, i < a -> nth_error (rev (firstn a seq)) i = Some x ->
                             nth_error seq (a - S i) = Some x).
  { intros i x Hi Hx. rewrite nth_error_nth' with (d := x) in Hx by (rewrite rev_length; lia).
    rewrite rev_nth in Hx by lia. rewrite Hl in Hx.
    inversion Hx as [Hx']. rewrite Hx'.
    rewrite <- (nth_error_firstn_lt seq a (a - S i)) by lia.
    rewrite nth_error_nth' with (d := x) by lia. rewrite Hx'. reflexivity. }
  split; [assumption|]. split; [apply Hrev; assumption|]. split; [assumption|].
  intros i h Hi Hh. apply (Hs (a - S i) h); [lia|].
  rewrite nth_error_nth' with (d := h) by (rewrite rev_length; lia).
  rewrite rev_nth by lia. rewrite Hl. replace (a - S (a - S i)) with i by lia.
  f_equal. apply nth_error_nth.
  rewrite nth_error_firstn_lt by lia. assumption.
Qed.

Lemma next_kept_window_spec : forall kp (seq : list glyph) a b gn l' q,
  next_kept kp (slice seq (S a) b) (S a) = Some (gn, l', q) ->
  a < q /\ q < b /\ nth_error seq q = Some gn /\ kp (gid gn) = true /\
  (forall i h, a < i < q -> nth_error seq i = Some h -> kp (gid h) = false).
Proof.
  intros kp seq a b gn l' q H.
  pose proof (pair_second_kept _ _ _ _ _ _ _ H) as (Haq & Hq & _).
  apply next_kept_spec in H. destruct H as (Hle & Hn & Hk & _ & Hs).
  pose proof (nth_error_slice _ _ _ _ _ Hn) as [_ Hb].
  repeat split; auto; try lia.
  intros i h Hi Hh. apply (Hs (i - S a) h); [lia|].
  unfold slice. rewrite nth_error_firstn_lt by lia.
  rewrite nth_error_skipn_add. replace (S a + (i - S a)) with i by lia. assumption.
Qed.

(* ------------------------------------------------ mark to ligature: the rule *)

Lemma R_marklig_eq : forall gd kp ca seq a sub g0 cls mx my gl l' d comps anchors lx ly,
  nth_error seq a = Some g0 -> assoc (gid g0) (ms_marks sub) = Some (cls, (mx, my)) ->
  next_kept (lig_stop gd kp) (rev (firstn a seq)) 0 = Some (gl, l', d) ->
  assoc (gid gl) (ms_ligs sub) = Some comps ->
  nth_error comps (comp_index (length comps) (nth a ca 0)) = Some anchors ->
  nth_error anchors cls = Some (Some (lx, ly)) ->
  let g' := mkG (gid g0) (gtext g0)
                (gx g0 + (lx - mx - sum_adv (slice seq (a - S d) a)))%Z
                (gy g0 + (ly - my))%Z (gadv g0) in
  R_marklig gd kp ca seq a sub =
  Some (ESet [(a, g')] (S a), (glyph_fits g', dv0)).
Proof.
  intros. unfold R_marklig. rewrite H, H0, H1, H2, H3, H4. reflexivity.
Qed.

Lemma comp_index_spec : forall n c,
  (1 <= c <= n -> comp_index n c = c - 1) /\
  (c = 0 \/ n < c -> comp_index n c = n - 1).
Proof.
  intros n c. unfold comp_index. split; intros H.
  - replace (1 <=? c) with true by (symmetry; apply Nat.leb_le; lia).
    replace (c <=? n) with true by (symmetry; apply Nat.leb_le; lia). reflexivity.
  - destruct H as [->|H]; [reflexivity|].
    replace (c <=? n) with false by (symmetry; apply Nat.leb_gt; lia).
    rewrite andb_false_r. reflexivity.
Qed.

(* ------------------------------------------------------- the lookup list *)

Lemma apply_lookup2_seq_indep : forall ll2 gd budget ca li s1 s2,
  r_seq s1 = r_seq s2 ->
  r_seq (apply_lookup2 ll2 gd budget ca s1 li) = r_seq (apply_lookup2 ll2 gd budget ca s2 li).
Proof.
  intros ll2 gd budget ca li s1 s2 H. unfold apply_lookup2.
  destruct (nth_error ll2 li) as [[lk|f m subs|f m subs]|]; cbn [r_seq]; try (rewrite H; reflexivity).
  rewrite H. apply apply_lookup_fst_indep.
Qed.

Lemma fold_lookup2_seq_indep : forall ll2 gd budget ca order s1 s2,
  r_seq s1 = r_seq s2 ->
  r_seq (fold_left (apply_lookup2 ll2 gd budget ca) order s1) =
  r_seq (fold_left (apply_lookup2 ll2 gd budget ca) order s2).
Proof.
  intros ll2 gd budget ca order. induction order as [|li order IH]; intros s1 s2 H; cbn [fold_left].
  - assumption.
  - apply IH. apply apply_lookup2_seq_indep. assumption.
Qed.

Lemma R_run2_app : forall ll2 gd budget ca l1 l2 seq,
  R_run2 ll2 gd budget ca (l1 ++ l2) seq =
  fold_left (apply_lookup2 ll2 gd budget ca) l2 (R_run2 ll2 gd budget ca l1 seq).
Proof. intros. unfold R_run2. apply fold_left_app. Qed.

Lemma R_shape2_app : forall ll2 gd ca l1 l2 seq,
  R_shape2 ll2 gd ca (l1 ++ l2) seq = R_shape2 ll2 gd ca l2 (R_shape2 ll2 gd ca l1 seq).
Proof.
  intros. unfold R_shape2. rewrite R_run2_app. unfold R_run2 at 2.
  apply fold_lookup2_seq_indep. reflexivity.
Qed.

(* an order naming only C06's lookups (or nothing): R_run2 is C06's R_run on
   the projected list *)
Lemma R_run2_old : forall ll2 gd budget ca order seq ok d,
  (forall li, In li order -> is_old_at ll2 li = true) ->
  fold_left (apply_lookup2 ll2 gd budget ca) order (mkSt2 seq ok d) =
  let r := fold_left (apply_lookup (map proj ll2) gd budget) order (seq, ok) in
  mkSt2 (fst r) (snd r) d.
Proof.
  intros ll2 gd budget ca order. induction order as [|li order IH]; intros seq ok d H; cbn [fold_left].
  - reflexivity.
  - assert (Hli : is_old_at ll2 li = true) by (apply H; left; reflexivity).
    assert (Hstep : apply_lookup2 ll2 gd budget ca (mkSt2 seq ok d) li =
              let r := apply_lookup (map proj ll2) gd budget (seq, ok) li in mkSt2 (fst r) (snd r) d).
    { unfold apply_lookup2, is_old_at in *.
      destruct (nth_error ll2 li) as [[lk|f m subs|f m subs]|] eqn:E; try discriminate.
      - reflexivity.
      - unfold apply_lookup. rewrite nth_error_map, E. reflexivity. }
    rewrite Hstep. cbn zeta.
    destruct (apply_lookup (map proj ll2) gd budget (seq, ok) li) as [s1 o1]. cbn [fst snd].
    apply IH. intros x Hx. apply H. right. assumption.
Qed.

(* a list made of C06's lookups only *)
Lemma proj_old : forall ll, map proj (map LOld ll) = ll.
Proof. induction ll as [|x ll IH]; cbn [map proj]; [reflexivity | rewrite IH; reflexivity]. Qed.

Lemma is_old_at_old : forall ll li, is_old_at (map LOld ll) li = true.
Proof.
  intros ll li. unfold is_old_at. rewrite nth_error_map.
  destruct (nth_error ll li); reflexivity.
Qed.

Lemma static_ok2_old : forall ll gd, static_ok2 (map LOld ll) gd = static_ok ll gd.
Proof.
  intros ll gd. unfold static_ok2. rewrite proj_old.
  replace (forallb (lookup2_static (map LOld ll)) (map LOld ll)) with true; [apply andb_true_r|].
  symmetry. apply forallb_forall. intros x Hx. apply in_map_iff in Hx. destruct Hx as (lk & <- & _).
  cbn [lookup2_static]. apply forallb_forall. intros sub _. apply forallb_forall. intros act _.
  apply is_old_at_old.
Qed.

(* ------------------------------------------ consequences of the invariants *)

Lemma pointwise_skipped : forall (Rg : glyph -> glyph -> Prop) kp s s',
  (forall g g', Rg g g' -> kp (gid g) = false -> g' = g) ->
  pointwise Rg s s' ->
  forall i g, nth_error s i = Some g -> kp (gid g) = false -> nth_error s' i = Some g.
Proof.
  intros Rg kp s s' HR [_ H] i g Hg Hk. destruct (H i g Hg) as (g' & Hg' & R1).
  rewrite (HR g g' R1 Hk) in Hg'. assumption.
Qed.

Lemma cursive_lookup_facts : forall gd flags mfs subs seq,
  let out := fst (run_cursive gd flags mfs subs seq) in
  length out = length seq /\ map gid out = map gid seq /\ map gtext out = map gtext seq /\
  map gx out = map gx seq /\
  (forall i g, nth_error seq i = Some g -> keep gd flags mfs (gid g) = false ->
               nth_error out i = Some g).
Proof.
  intros gd flags mfs subs seq out.
  pose proof (run_cursive_pointwise gd flags mfs subs seq) as P. fold out in P.
  split; [apply P|]. split; [|split; [|split]].
  - apply (pointwise_map _ gid (fun g g' (R : crel _ g g') => proj1 (proj1 R)) _ _ P).
  - apply (pointwise_map _ gtext (fun g g' (R : crel _ g g') => proj2 (proj1 R)) _ _ P).
  - apply (pointwise_map _ gx (fun g g' (R : crel _ g g') => proj1 (proj2 R)) _ _ P).
  - apply (pointwise_skipped _ _ _ _ (fun g g' (R : crel _ g g') => proj2 (proj2 R)) P).
Qed.

Lemma marklig_lookup_facts : forall gd flags mfs subs ca seq,
  let out := fst (run_marklig gd flags mfs subs ca seq) in
  length out = length seq /\ map gid out = map gid seq /\ map gtext out = map gtext seq /\
  map gadv out = map gadv seq /\
  (forall i g, nth_error seq i = Some g -> keep gd flags mfs (gid g) = false ->
               nth_error out i = Some g).
Proof.
  intros gd flags mfs subs ca seq out.
  pose proof (run_marklig_pointwise gd flags mfs subs ca seq) as P. fold out in P.
  split; [apply P|]. split; [|split; [|split]].
  - apply (pointwise_map _ gid (fun g g' (R : mrel _ g g') => proj1 (proj1 R)) _ _ P).
  - apply (pointwise_map _ gtext (fun g g' (R : mrel _ g g') => proj2 (proj1 R)) _ _ P).
  - apply (pointwise_map _ gadv (fun g g' (R : mrel _ g g') => proj1 (proj2 R)) _ _ P).
  - apply (pointwise_skipped _ _ _ _ (fun g g' (R : mrel _ g g') => proj2 (proj2 R)) P).
Qed.

(* an order naming only lookups of the new types (or nothing): glyph ids,
   texts and the length never change *)
Definition is_new_at (ll2 : list lookup2) (li : nat) : bool :=
  match nth_error ll2 li with
  | Some (LOld _) => false
  | _ => true
  end.

Lemma R_run2_new_ids : forall ll2 gd budget ca order s,
  (forall li, In li order -> is_new_at ll2 li = true) ->
  let out := r_seq (fold_left (apply_lookup2 ll2 gd budget ca) order s) in
  length out = length (r_seq s) /\ map gid out = map gid (r_seq s) /\
  map gtext out = map gtext (r_seq s).
Proof.
  intros ll2 gd budget ca order. induction order as [|li order IH]; intros s H; cbn [fold_left].
  - auto.
  - assert (Hli : is_new_at ll2 li = true) by (apply H; left; reflexivity).
    assert (Hs : let s1 := apply_lookup2 ll2 gd budget ca s li in
                 length (r_seq s1) = length (r_seq s) /\ map gid (r_seq s1) = map gid (r_seq s) /\
                 map gtext (r_seq s1) = map gtext (r_seq s)).
    { unfold apply_lookup2, is_new_at in *.
      destruct (nth_error ll2 li) as [[lk|f m subs|f m subs]|]; try discriminate; cbn [r_seq].
      - pose proof (cursive_lookup_facts gd f m subs (r_seq s)) as (A & B & C & _). auto.
      - pose proof (marklig_lookup_facts gd f m subs ca (r_seq s)) as (A & B & C & _). auto.
      - auto. }
    cbn zeta in Hs. destruct Hs as (A & B & C).
    destruct (IH (apply_lookup2 ll2 gd budget ca s li)) as (A' & B' & C').
    { intros x Hx. apply H. right. assumption. }
    repeat split; congruence.
Qed.

(* -------------------------------------------- the arithmetic, case by case *)

Lemma cur_line_attached : forall (recs : csub) g0 exx exy gn between nx ny (nex : anchor),
  assoc (gid gn) recs = Some (Some (nx, ny), nex) ->
  cur_line recs g0 (Some (exx, exy)) (Some (gn, between)) =
  (gx g0 + exx - gx gn - nx - between)%Z.
Proof. intros. unfold cur_line. rewrite H. reflexivity. Qed.

Lemma cur_line_unattached : forall (recs : csub) g0 (ex : anchor) next,
  (ex = None \/ next = None \/
   exists gn between, next = Some (gn, between) /\
     (assoc (gid gn) recs = None \/ exists nex : anchor, assoc (gid gn) recs = Some (None, nex))) ->
  cur_line recs g0 ex next = gadv g0.
Proof.
  intros recs g0 ex next H. unfold cur_line.
  destruct ex as [[exx exy]|]; [|reflexivity].
  destruct next as [[gn between]|]; [|reflexivity].
  destruct H as [H|[H|(gn' & b' & H & H')]]; try discriminate.
  inversion H; subst. destruct H' as [H'|(nex & H')]; rewrite H'; reflexivity.
Qed.

Lemma cur_cross_ltr : forall (recs : csub) g0 enx eny (ex : anchor) gp next (pen : anchor) pex pey,
  assoc (gid gp) recs = Some (pen, Some (pex, pey)) ->
  cur_cross false recs g0 (Some (enx, eny)) ex (Some gp) next = (gy gp + pey - eny)%Z.
Proof. intros. unfold cur_cross. rewrite H. reflexivity. Qed.

Lemma cur_cross_rtl : forall (recs : csub) g0 (en : anchor) exx exy prev gn nx ny (nex : anchor),
  assoc (gid gn) recs = Some (Some (nx, ny), nex) ->
  cur_cross true recs g0 en (Some (exx, exy)) prev (Some gn) = (gy gn + ny - exy)%Z.
Proof. intros. unfold cur_cross. rewrite H. reflexivity. Qed.

Lemma cur_cross_ltr_unattached : forall (recs : csub) g0 (en ex : anchor) prev next,
  (en = None \/ prev = None \/
   exists gp, prev = Some gp /\
     (assoc (gid gp) recs = None \/ exists pen : anchor, assoc (gid gp) recs = Some (pen, None))) ->
  cur_cross false recs g0 en ex prev next = gy g0.
Proof.
  intros recs g0 en ex prev next H. unfold cur_cross.
  destruct en as [[enx eny]|]; [|reflexivity].
  destruct prev as [gp|]; [|reflexivity].
  destruct H as [H|[H|(gp' & H & H')]]; try discriminate.
  inversion H; subst. destruct H' as [H'|(pen & H')]; rewrite H'; reflexivity.
Qed.

Lemma cur_cross_rtl_unattached : forall (recs : csub) g0 (en ex : anchor) prev next,
  (ex = None \/ next = None \/
   exists gn, next = Some gn /\
     (assoc (gid gn) recs = None \/ exists nex : anchor, assoc (gid gn) recs = Some (None, nex))) ->
  cur_cross true recs g0 en ex prev next = gy g0.
Proof.
  intros recs g0 en ex prev next H. unfold cur_cross.
  destruct ex as [[exx exy]|]; [|reflexivity].
  destruct next as [gn|]; [|reflexivity].
  destruct H as [H|[H|(gn' & H & H')]]; try discriminate.
  inversion H; subst. destruct H' as [H'|(nex & H')]; rewrite H'; reflexivity.
Qed.

(* the marklig search: the glyph found is the nearest preceding glyph which is
   kept by the flags and not a mark *)
Lemma lig_search_spec : forall gd kp (seq : list glyph) a gl l' d,
  next_kept (lig_stop gd kp) (rev (firstn a seq)) 0 = Some (gl, l', d) -> a <= length seq ->
  d < a /\ nth_error seq (a - S d) = Some gl /\ kp (gid gl) = true /\ is_mark gd (gid gl) = false /\
  (forall i h, a - S d < i < a -> nth_error seq i = Some h ->
               kp (gid h) = false \/ is_mark gd (gid h) = true).
Proof.
  intros gd kp seq a gl l' d H Ha.
  destruct (prev_kept_spec _ _ _ _ _ _ H Ha) as (Hd & Hn & Hk & Hs).
  unfold lig_stop in Hk. apply andb_true_iff in Hk. destruct Hk as [Hk Hm].
  apply negb_true_iff in Hm. repeat split; auto.
  intros i h Hi Hh. specialize (Hs i h Hi Hh). unfold lig_stop in Hs.
  apply andb_false_iff in Hs. destruct Hs as [Hs|Hs]; [left; assumption|].
  right. apply negb_false_iff. assumption.
Qed.

(* no subtable matches / the glyph is skipped: the step leaves the sequence alone *)
Lemma xstep_not_kept : forall kp try p seq,
  kp (gid_at seq p) = false -> xstep kp try p seq = (seq, S p, xtrue).
Proof. intros. unfold xstep. rewrite H. reflexivity. Qed.

Lemma xstep_no_match : forall kp try p seq,
  try seq p = None -> xstep kp try p seq = (seq, S p, xtrue).
Proof. intros. unfold xstep. rewrite H. destruct (kp (gid_at seq p)); reflexivity. Qed.

Lemma xstep_match : forall kp try p seq e fl,
  kp (gid_at seq p) = true -> try seq p = Some (e, fl) ->
  xstep kp try p seq =
  (s_seq (fst (apply_effect e (mkSt seq [] 0 true))), snd (apply_effect e (mkSt seq [] 0 true)), fl).
Proof. intros. unfold xstep. rewrite H, H0. reflexivity. Qed.
