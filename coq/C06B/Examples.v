(* C06B/Examples.v — non-vacuity: concrete, non-trivial values satisfying the
   hypotheses of every theorem of Props.v, runs of R_shape2 on the corpus
   cases, and `_refuted` witnesses showing that each side condition is needed
   (glyphs: 1 = A, 2 = B (base), 3 = L (ligature), 4 = M, 5 = N (marks),
   6 = X (initial form), 9 = W (ligature)). *)
From Coq Require Import List NArith ZArith Bool Arith Lia.
From Gen Require Import Consts C06 C06B.
From C06 Require Import Model Spec.
From Common Require Import Outcome.
From C06B Require Import Model Proofs Proofs_chain Proofs_props Proofs_c07 Props.
Import ListNotations.
Local Open Scope N_scope.

Definition gdx : option gdef :=
  Some (mkGdef [(2, 1); (3, 2); (4, 3); (5, 3); (9, 2)] [(4, 1); (5, 2)] [[4]; [5]]).
Definition G (g : N) (t : N) (x y adv : Z) : glyph := mkG g [t] x y adv.
Definition an (x y : Z) : anchor := Some (x, y).

(* entry and exit on A, B and on the mark M; X has no entry, L no exit *)
Definition recsA : csub :=
  [(1, (an 10 20, an 500 60)); (2, (an (-5) (-30), an 480 100)); (6, (None, an 300 40));
   (3, (an 20 (-10), None)); (4, (an 5 5, an 7 9))].
Definition all : N -> bool := fun _ => true.
Definition nomarks : N -> bool := keep gdx 8 0.

Definition seq3 := [G 1 65 3 7 600; G 2 66 (-4) 9 610; G 1 67 0 0 620].

(* ---- 1. cursive_adds_exactly and its case theorems ---- *)

Example ex_cursive_hyps :
  nth_error seq3 1%nat = Some (G 2 66 (-4) 9 610) /\
  assoc (gid (G 2 66 (-4) 9 610)) recsA = Some (an (-5) (-30), an 480 100).
Proof. split; reflexivity. Qed.

(* y = 7 + 60 - (-30), advance = -4 + 480 - 0 - 10 - 0; x offset, id, text unchanged *)
Example ex_cursive_adds_exactly :
  R_cursive all false seq3 1%nat 3%nat recsA =
  Some (ESet [(1%nat, G 2 66 (-4) 97 466)] 2%nat, (true, dv0)).
Proof. vm_compute. reflexivity. Qed.

Example ex_cursive_adds_exactly_rtl :   (* y = 0 + 20 - 100 from the successor *)
  R_cursive all true seq3 1%nat 3%nat recsA =
  Some (ESet [(1%nat, G 2 66 (-4) (-80) 466)] 2%nat, (true, dv0)).
Proof. vm_compute. reflexivity. Qed.

Example ex_cursive_matches_iff_covered :
  R_cursive all false [G 1 65 0 0 600; G 7 66 0 0 600] 1%nat 2%nat recsA = None /\
  assoc 7 recsA = None.
Proof. split; vm_compute; reflexivity. Qed.

(* partners under IgnoreMarks: the mark at position 1 is skipped *)
Definition seqAMA := [G 1 65 0 0 600; G 4 66 0 0 25; G 1 67 0 0 600].
Example ex_cursive_partners :
  next_kept nomarks (slice seqAMA 1 3) 1 = Some (G 1 67 0 0 600, [], 2%nat) /\
  next_kept nomarks (rev (firstn 2 seqAMA)) 0 = Some (G 1 65 0 0 600, [], 1%nat) /\
  (* the advance of the skipped mark is subtracted: 0 + 500 - 0 - 10 - 25 *)
  R_cursive nomarks false seqAMA 0%nat 3%nat recsA =
  Some (ESet [(0%nat, G 1 65 0 0 465)] 1%nat, (true, mkDv true false false false)).
Proof. repeat split; vm_compute; reflexivity. Qed.

Example ex_line_direction :
  assoc (gid (G 1 67 0 0 620)) recsA = Some (an 10 20, an 500 60) /\
  cur_line recsA (G 2 66 (-4) 9 610) (an 480 100) (Some (G 1 67 0 0 620, 0%Z)) = 466%Z.
Proof. split; vm_compute; reflexivity. Qed.

Example ex_line_direction_no_pair :   (* L has no exit; X has no entry *)
  cur_line recsA (G 3 65 0 0 530) None (Some (G 1 66 0 0 600, 0%Z)) = 530%Z /\
  cur_line recsA (G 1 65 0 0 600) (an 500 60) (Some (G 6 66 0 0 700, 0%Z)) = 600%Z /\
  assoc 6 recsA = Some (None, an 300 40).
Proof. repeat split; vm_compute; reflexivity. Qed.

Example ex_cross_direction :
  cur_cross false recsA (G 2 66 (-4) 9 610) (an (-5) (-30)) (an 480 100) (Some (G 1 65 3 7 600)) None = 97%Z /\
  cur_cross true recsA (G 2 66 (-4) 9 610) (an (-5) (-30)) (an 480 100) None (Some (G 1 67 0 0 620)) = (-80)%Z /\
  cur_cross false recsA (G 6 66 0 30 700) None (an 300 40) (Some (G 3 65 0 0 530)) None = 30%Z.
Proof. repeat split; vm_compute; reflexivity. Qed.

(* ---- chains ---- *)

Definition chain4 := [G 1 65 3 7 600; G 2 66 (-4) 9 610; G 1 67 0 0 620; G 2 68 1 1 630].

Example ex_chain_out :
  fst (run_cursive None 0 0 [recsA] chain4) =
  [G 1 65 3 7 512; G 2 66 (-4) 97 466; G 1 67 0 177 504; G 2 68 1 267 630] /\
  fst (run_cursive None 1 0 [recsA] chain4) =
  [G 1 65 3 (-259) 512; G 2 66 (-4) (-169) 466; G 1 67 0 (-89) 504; G 2 68 1 1 630].
Proof. split; vm_compute; reflexivity. Qed.

(* the hypotheses of cursive_chain_aligned on the pair (1,2), and its conclusion *)
Example ex_chain_aligned :
  let out := fst (run_cursive None 0 0 [recsA] chain4) in
  (length chain4 <= size_cap)%nat /\
  nth_error out 1%nat = Some (G 2 66 (-4) 97 466) /\ nth_error out 2%nat = Some (G 1 67 0 177 504) /\
  assoc 2 recsA = Some (an (-5) (-30), an 480 100) /\ assoc 1 recsA = Some (an 10 20, an 500 60) /\
  ((-4) + 480 = 466 + 0 + 10)%Z /\ (97 + 100 = 177 + 20)%Z.
Proof. cbv zeta. repeat split; try (vm_compute; reflexivity). apply Nat.leb_le. vm_compute. reflexivity. Qed.

Example ex_baseline_end :
  has_flag 0 c06b_RightToLeft = false /\ has_flag 1 c06b_RightToLeft = true /\
  map gy (fst (run_cursive None 0 0 [recsA] chain4)) = [7; 97; 177; 267]%Z /\
  map gy (fst (run_cursive None 1 0 [recsA] chain4)) = [-259; -169; -89; 1]%Z.
Proof. repeat split; vm_compute; reflexivity. Qed.

(* ---- 2. marklig_adds_exactly ---- *)

Definition subA : msub :=
  mkMsub [(4, (0%nat, (40, 10)%Z)); (5, (1%nat, (10, -10)%Z))]
         [(3, [[an 150 710; None]; [an 450 720; an 440 (-90)]]);
          (9, [[an 80 690; an 85 (-60)]; [an 230 691; an 235 (-61)]; [an 380 692; None]; [an 530 693; an 535 (-63)]])].
Definition seqLMN := [G 3 65 0 0 530; G 4 66 0 0 0; G 5 67 1 2 0].

Example ex_marklig_hyps :
  nth_error seqLMN 2%nat = Some (G 5 67 1 2 0) /\ assoc 5 (ms_marks subA) = Some (1%nat, (10, -10)%Z) /\
  next_kept (lig_stop gdx all) (rev (firstn 2 seqLMN)) 0 = Some (G 3 65 0 0 530, [], 1%nat) /\
  nth_error [[an 150 710; None]; [an 450 720; an 440 (-90)]] (comp_index 2 (nth 2 [0; 1; 0]%nat 0%nat)) =
    Some [an 450 720; an 440 (-90)] /\
  nth_error [an 450 720; an 440 (-90)] 1%nat = Some (an 440 (-90)).
Proof. repeat split; vm_compute; reflexivity. Qed.

(* the mark N (class 1, no association) on the LAST component: x = 1 + (440 - 10 - 530 - 0),
   y = 2 + (-90 + 10); the mark M with association 1 on the FIRST: x = 150 - 40 - 530 *)
Example ex_marklig_adds_exactly :
  R_marklig gdx all [0; 1; 0]%nat seqLMN 2%nat subA =
    Some (ESet [(2%nat, G 5 67 (-99) (-78) 0)] 3%nat, (true, dv0)) /\
  R_marklig gdx all [0; 1; 0]%nat seqLMN 1%nat subA =
    Some (ESet [(1%nat, G 4 66 (-420) 700 0)] 2%nat, (true, dv0)) /\
  R_marklig gdx all [] seqLMN 1%nat subA =
    Some (ESet [(1%nat, G 4 66 (-120) 710 0)] 2%nat, (true, dv0)).
Proof. repeat split; vm_compute; reflexivity. Qed.

Example ex_marklig_component :
  comp_index 4 3 = 2%nat /\ comp_index 4 0 = 3%nat /\ comp_index 4 9 = 3%nat /\ comp_index 1 1 = 0%nat.
Proof. repeat split. Qed.

(* NULL anchor (N on the first component of L), no ligature before the mark,
   a base between ligature and mark, a ligature outside the coverage *)
Example ex_marklig_no_attachment :
  R_marklig gdx all [0; 0; 1]%nat seqLMN 2%nat subA = None /\
  R_marklig gdx all [] [G 4 65 0 0 0; G 3 66 0 0 530] 0%nat subA = None /\
  R_marklig gdx all [] [G 3 65 0 0 530; G 2 66 0 0 520; G 4 67 0 0 0] 2%nat subA = None /\
  R_marklig gdx all [] [G 1 65 0 0 510; G 4 66 0 0 0] 1%nat subA = None.
Proof. repeat split; vm_compute; reflexivity. Qed.

(* ---- 3. scans ---- *)

(* IgnoreMarks: the mark M - although in the coverage - is not touched, ids,
   texts and x offsets stay *)
Example ex_cursive_lookup_untouched :
  let seq := [G 1 65 1 0 600; G 4 66 2 3 25; G 1 67 0 0 600; G 4 68 0 0 0] in
  fst (run_cursive gdx 8 0 [recsA] seq) = [G 1 65 1 0 466; G 4 66 2 3 25; G 1 67 0 40 600; G 4 68 0 0 0] /\
  keep gdx 8 0 4 = false.
Proof. split; vm_compute; reflexivity. Qed.

Example ex_marklig_lookup_untouched :   (* IgnoreLigatures: nothing to attach to; MFS set 1 = {N}: M skipped *)
  fst (run_marklig gdx 4 0 [subA] [] seqLMN) = seqLMN /\
  fst (run_marklig gdx 16 1 [subA] [] seqLMN) = [G 3 65 0 0 530; G 4 66 0 0 0; G 5 67 (-99) (-78) 0] /\
  keep gdx 16 1 4 = false.
Proof. repeat split; vm_compute; reflexivity. Qed.

Example ex_new_step_resumes_next :
  xstep all (try_cursive all false [recsA]) 1%nat seq3 =
    ([G 1 65 3 7 600; G 2 66 (-4) 97 466; G 1 67 0 0 620], 2%nat, (true, dv0)) /\
  xstep nomarks (try_cursive nomarks false [recsA]) 1%nat seqAMA = (seqAMA, 2%nat, xtrue).
Proof. split; vm_compute; reflexivity. Qed.

Example ex_new_scan_visits_each_position_once :
  xscan (xstep all (try_cursive all false [recsA])) chain4 =
  piter xand (xstep all (try_cursive all false [recsA])) 4 0 chain4 xtrue.
Proof. vm_compute. reflexivity. Qed.

(* ---- 4. composition ---- *)

Definition ll_mixed : list lookup2 :=
  [LOld (mkLookup 8 0 [SLigature [(1, [([1], 3)])]]);          (* A A -> L, marks ignored *)
   LMarkLig 0 0 [subA];
   LCursive 8 0 [recsA];
   LOld (mkLookup 0 0 [SPos1 [1; 3] (mkV 0 (-20) 30 false)])].

(* A M A N: the ligature is formed, both marks move behind it; without
   association they attach to the last component *)
Definition seqAMAN := [G 1 65 0 0 510; G 4 66 0 0 0; G 1 67 0 0 510; G 5 68 0 0 0].
Example ex_mixed :
  R_shape2 ll_mixed gdx [] [0; 1]%nat seqAMAN =
    [mkG 3 [65; 67] 0 0 0; G 4 66 410 710 0; G 5 68 430 (-80) 0] /\
  defined2 ll_mixed gdx [] [0; 1]%nat seqAMAN = true /\
  in_domain2 ll_mixed gdx [] [0; 1]%nat seqAMAN = false /\
  r_dv (R_run2 ll_mixed gdx B [] [0; 1]%nat seqAMAN) = mkDv false false false true.
Proof. repeat split; vm_compute; reflexivity. Qed.

Example ex_lookups_in_list_order2 :
  R_shape2 ll_mixed gdx [] ([3; 2] ++ [0; 1])%nat seqAMAN =
  R_shape2 ll_mixed gdx [] [0; 1]%nat (R_shape2 ll_mixed gdx [] [3; 2]%nat seqAMAN).
Proof. vm_compute. reflexivity. Qed.

Example ex_lookup_dispatch :
  nth_error ll_mixed 7 = None /\ is_old_at ll_mixed 0 = true /\ is_old_at ll_mixed 3 = true /\
  is_old_at ll_mixed 7 = true /\ is_new_at ll_mixed 1 = true /\ is_new_at ll_mixed 2 = true.
Proof. repeat split. Qed.

(* only C06's lookups in the order: exactly C06's R_shape on the projected list *)
Example ex_conservative_over_c06 :
  R_shape2 ll_mixed gdx [] [0; 3; 7]%nat seqAMAN = R_shape (map proj ll_mixed) gdx [0; 3; 7]%nat seqAMAN /\
  R_shape2 ll_mixed gdx [] [0; 3; 7]%nat seqAMAN = [mkG 3 [65; 67] 0 (-20) 30; G 4 66 0 0 0; G 5 68 0 0 0] /\
  in_domain2 ll_mixed gdx [] [0; 3; 7]%nat seqAMAN = true.
Proof. repeat split; vm_compute; reflexivity. Qed.

Example ex_new_lookups_keep_glyphs :
  let out := R_shape2 ll_mixed gdx [] [2; 1; 2]%nat seqAMAN in
  map gid out = [1; 4; 1; 5] /\ map gtext out = [[65]; [66]; [67]; [68]].
Proof. split; vm_compute; reflexivity. Qed.

(* first matching subtable: the earlier subtable covers A (other anchors) and wins *)
Definition recsB : csub := [(1, (an 1 2, an 3 4))].
Example ex_first_matching_subtable2 :
  R_cursive all false seq3 0%nat 3%nat recsB = Some (ESet [(0%nat, G 1 65 3 7 600)] 1%nat, (true, dv0)) /\
  try_cursive all false [recsB; recsA] seq3 0%nat = R_cursive all false seq3 0%nat 3%nat recsB /\
  try_cursive all false [recsB; recsA] seq3 1%nat = R_cursive all false seq3 1%nat 3%nat recsA /\
  R_cursive all false seq3 1%nat 3%nat recsB = None.
Proof. repeat split; vm_compute; reflexivity. Qed.

(* ---- 5. observations: the corpus cases ---- *)

Example ex_observe_in_domain :
  observe2 [LCursive 0 0 [[(1, (an 10 20, an 500 60)); (2, (an (-5) (-30), an 480 100))]]] None [] [0%nat]
           [G 1 65 3 7 600; G 2 66 (-4) 9 610; G 1 67 0 0 620; G 9 68 1 1 630] =
  ODom [G 1 65 3 7 512; G 2 66 (-4) 97 466; G 1 67 0 177 620; G 9 68 1 1 630].
Proof. vm_compute. reflexivity. Qed.

Example ex_observe_null_anchor :      (* final form + initial form: nothing moves; outside the domain: dv_null *)
  observe2 [LCursive 0 0 [[(1, (an 500 100, None)); (2, (None, an 20 (-50)))]]] None [] [0%nat]
           [G 1 65 0 0 600; G 2 66 0 30 700] =
  OOut (mkDv false false true false) [G 1 65 0 0 600; G 2 66 0 30 700].
Proof. vm_compute. reflexivity. Qed.

Example ex_observe_rtl :
  observe2 [LCursive 1 0 [[(1, (an 10 20, an 500 60))]]] None [] [0%nat] [G 1 65 0 0 600; G 1 66 0 0 600] =
  OOut (mkDv false true false false) [G 1 65 0 (-40) 490; G 1 66 0 0 600].
Proof. vm_compute. reflexivity. Qed.

Example ex_observe_flags :
  observe2 [LCursive 8 0 [[(1, (an 10 20, an 500 60))]]] (Some (mkGdef [(4, 3)] [] [])) [] [0%nat]
           [G 1 65 0 0 600; G 4 66 0 0 0; G 1 67 0 0 600] =
  OOut (mkDv true false false false) [G 1 65 0 0 490; G 4 66 0 0 0; G 1 67 0 40 600].
Proof. vm_compute. reflexivity. Qed.

Example ex_observe_marklig :
  observe2 [LMarkLig 0 0 [mkMsub [(4, (0%nat, (40, 10)%Z))] [(3, [[an 150 710]; [an 450 720]])]]]
           (Some (mkGdef [(3, 2); (4, 3)] [] [])) [0; 1]%nat [0%nat] [mkG 3 [65; 66] 0 0 530; G 4 67 0 0 0] =
  OOut (mkDv false false false true) [mkG 3 [65; 66] 0 0 530; G 4 67 (-420) 700 0].
Proof. vm_compute. reflexivity. Qed.

Example ex_observe_ood :   (* an anchor at the origin; a nested new lookup; an offset leaving int16 *)
  observe2 [LCursive 0 0 [[(1, (an 0 0, an 500 60))]]] None [] [0%nat] [G 1 65 0 0 600] = OOod /\
  observe2 [LCursive 0 0 [recsA]; LOld (mkLookup 0 0 [SCtx3 [[1]] [(0%nat, 0%nat)]])] None [] [1%nat] [G 1 65 0 0 600] = OOod /\
  observe2 [LCursive 0 0 [[(1, (an 1 (-30000), an 2 30000))]]] None [] [0%nat] [G 1 65 0 0 1; G 1 66 0 0 2] = OOod.
Proof. repeat split; vm_compute; reflexivity. Qed.

(* ------------------------------------------------------------------------
   `_refuted` witnesses: each side condition of the theorems is needed; and
   for each reason that puts an input outside the domain predicate, the tie
   to the code's mirror (C07's apply_sub) fails there - these are the
   observations made on the engine, GPOS lookup types 3 and 5 being outside
   the quantifier of property C06. *)

(* ---- the tie inside the domain: hypotheses satisfiable, conclusion computed ---- *)
Example ex_cursive_is_c07_mirror :
  R_cursive all false seq3 1%nat 3%nat recsA = Some (ESet [(1%nat, G 2 66 (-4) 97 466)] 2%nat, (true, dv0)) /\
  (3 <= length seq3)%nat /\
  M7.apply_sub all (M7.Gpos3_1 (t_cov recsA 0) (t_recs recsA)) (map t_glyph seq3) [] 1%nat 3%nat =
    Ok (Some 2%nat, (map t_glyph (set_nth 1%nat (G 2 66 (-4) 97 466) seq3), [])).
Proof. repeat split; vm_compute; reflexivity. Qed.

Example ex_cursive_no_match_is_c07_mirror :
  R_cursive all false [G 1 65 0 0 600; G 7 66 0 0 600] 1%nat 2%nat recsA = None /\
  M7.apply_sub all (M7.Gpos3_1 (t_cov recsA 0) (t_recs recsA)) (map t_glyph [G 1 65 0 0 600; G 7 66 0 0 600]) [] 1%nat 2%nat =
    M7.nomatch (map t_glyph [G 1 65 0 0 600; G 7 66 0 0 600]) [].
Proof. split; vm_compute; reflexivity. Qed.

(* reason dv_null: final form + initial form.  The rule leaves the first
   glyph alone; the mirror of the code reads the NULL anchors as (0,0) and
   sets its advance to 0 *)
Theorem outside_domain_null_anchor_refuted :
  exists (recs : csub) seq g' d,
    R_cursive all false seq 0%nat 2%nat recs = Some (ESet [(0%nat, g')] 1%nat, (true, d)) /\
    d = mkDv false false true false /\ g' = G 1 65 0 0 600 /\
    M7.apply_sub all (M7.Gpos3_1 (t_cov recs 0) (t_recs recs)) (map t_glyph seq) [] 0%nat 2%nat =
      Ok (Some 1%nat, ([M7.mkG 1 [65] 0 0 0; M7.mkG 2 [66] 0 30 700], [])).
Proof.
  exists [(1, (an 500 100, None)); (2, (None, an 20 (-50)))], [G 1 65 0 0 600; G 2 66 0 30 700].
  eexists. eexists. repeat split; vm_compute; reflexivity.
Qed.

(* reason dv_flags: 'A M A' with IgnoreMarks.  The rule joins the two A
   across the mark (advance 465 = 0+500-0-10-25); the mirror looks at the
   adjacent mark M, which is in the coverage here, and attaches to it *)
Theorem outside_domain_lookup_flags_refuted :
  exists g' d,
    R_cursive nomarks false seqAMA 0%nat 3%nat recsA = Some (ESet [(0%nat, g')] 1%nat, (true, d)) /\
    d = mkDv true false false false /\ gadv g' = 465%Z /\
    M7.apply_sub nomarks (M7.Gpos3_1 (t_cov recsA 0) (t_recs recsA)) (map t_glyph seqAMA) [] 0%nat 3%nat =
      Ok (Some 1%nat, ([M7.mkG 1 [65] 0 0 495; M7.mkG 4 [66] 0 0 25; M7.mkG 1 [67] 0 0 600], [])).
Proof. eexists. eexists. repeat split; vm_compute; reflexivity. Qed.

(* reason dv_rtl: with RIGHT_TO_LEFT the rule places the first glyph from
   its successor (y = -40); the mirror never looks at the flag (y stays 0).
   A lookup with the flag is outside the domain whatever the sequence *)
Theorem outside_domain_righttoleft_refuted :
  exists (recs : csub) seq g',
    R_cursive all true seq 0%nat 2%nat recs = Some (ESet [(0%nat, g')] 1%nat, (true, dv0)) /\
    gy g' = (-40)%Z /\
    M7.apply_sub all (M7.Gpos3_1 (t_cov recs 0) (t_recs recs)) (map t_glyph seq) [] 0%nat 2%nat =
      Ok (Some 1%nat, ([M7.mkG 1 [65] 0 0 490; M7.mkG 1 [66] 0 0 600], [])) /\
    r_dv (R_run2 [LCursive 1 0 [recs]] None B [] [0%nat] seq) = mkDv false true false false /\
    r_dv (R_run2 [LCursive 1 0 [recs]] None B [] [0%nat] []) = mkDv false true false false.
Proof.
  exists [(1, (an 10 20, an 500 60))], [G 1 65 0 0 600; G 1 66 0 0 600].
  eexists. repeat split; vm_compute; reflexivity.
Qed.

(* reason dv_lig: the rule places the mark on its ligature component; the
   mirror of Gpos5_1.apply never matches.  Every applied mark-to-ligature
   lookup is outside the domain *)
Theorem outside_domain_marklig_refuted :
  exists g',
    R_marklig gdx all [] seqLMN 1%nat subA = Some (ESet [(1%nat, g')] 2%nat, (true, dv0)) /\
    g' = G 4 66 (-120) 710 0 /\
    M7.apply_sub all M7.Gpos5_1 (map t_glyph seqLMN) [] 1%nat 3%nat = M7.nomatch (map t_glyph seqLMN) [] /\
    r_dv (R_run2 [LMarkLig 0 0 [subA]] gdx B [] [0%nat] seqLMN) = mkDv false false false true /\
    r_dv (R_run2 [LMarkLig 0 0 [mkMsub [] []]] gdx B [] [0%nat] []) = mkDv false false false true.
Proof. eexists. repeat split; vm_compute; reflexivity. Qed.

(* the int16 condition of the tie: beyond int16 the code wraps (the mirror
   gives -25536), the rule does not (40000, flagged outside its domain) *)
Theorem outside_domain_int16_refuted :
  exists (recs : csub) seq g',
    R_cursive all false seq 1%nat 2%nat recs = Some (ESet [(1%nat, g')] 2%nat, (false, dv0)) /\
    gy g' = 40000%Z /\
    M7.apply_sub all (M7.Gpos3_1 (t_cov recs 0) (t_recs recs)) (map t_glyph seq) [] 1%nat 2%nat =
      Ok (Some 2%nat, ([M7.mkG 1 [65] 0 0 600; M7.mkG 1 [66] 0 (-25536) 600], [])).
Proof.
  exists [(1, (an 1 (-20000), an 2 20000))], [G 1 65 0 0 600; G 1 66 0 0 600].
  eexists. repeat split; vm_compute; reflexivity.
Qed.

(* ---- side conditions of the other theorems ---- *)

(* a NULL anchor is NOT an anchor at the origin: reading exit = NULL as (0,0)
   gives advance 0 + 0 - 0 - 0 = 0 instead of the untouched 600 *)
Theorem null_anchor_as_origin_refuted :
  exists (recs : csub) g0 gn,
    assoc (gid g0) recs = Some (an 500 100, None) /\ assoc (gid gn) recs = Some (None, an 20 (-50)) /\
    cur_line recs g0 None (Some (gn, 0%Z)) = 600%Z /\
    cur_line recs g0 (an 0 0) (Some (gn, 0%Z)) = 600%Z /\          (* no entry on the partner either *)
    cur_line [(1, (an 500 100, an 0 0)); (2, (an 0 0, an 20 (-50)))] g0 (an 0 0) (Some (gn, 0%Z)) = 0%Z.
Proof.
  exists [(1, (an 500 100, None)); (2, (None, an 20 (-50)))], (G 1 65 0 0 600), (G 2 66 0 30 700).
  repeat split; vm_compute; reflexivity.
Qed.

(* the neighbour is the next KEPT glyph, not the adjacent one *)
Theorem adjacent_neighbour_refuted :
  exists kp seq a b recs,
    R_cursive kp false seq a b recs <> R_cursive (fun _ => true) false seq a b recs /\
    fst (snd (match R_cursive kp false seq a b recs with Some r => r | None => (ESet [] 0%nat, xtrue) end)) = true.
Proof.
  exists nomarks, seqAMA, 0%nat, 3%nat, recsA. split; [vm_compute; discriminate | vm_compute; reflexivity].
Qed.

(* RIGHT_TO_LEFT changes the outcome *)
Theorem righttoleft_ignored_refuted :
  exists recs seq, fst (run_cursive None 1 0 [recs] seq) <> fst (run_cursive None 0 0 [recs] seq).
Proof. exists recsA, chain4. vm_compute. discriminate. Qed.

(* cursive_chain_aligned needs flags that skip nothing: with IgnoreMarks the
   pair (A, M) of ADJACENT glyphs - both in the coverage with anchors - is not
   aligned (the rule joins A with the next kept glyph) *)
Theorem chain_aligned_needs_no_skipping_refuted :
  exists flags mfs recs seq i g h exx exy enx eny (hen hex : anchor),
    let out := fst (run_cursive gdx flags mfs [recs] seq) in
    nth_error out i = Some g /\ nth_error out (S i) = Some h /\
    assoc (gid g) recs = Some (hen, Some (exx, exy)) /\ assoc (gid h) recs = Some (Some (enx, eny), hex) /\
    (gx g + exx <> gadv g + gx h + enx)%Z.
Proof.
  exists 8, 0, recsA, seqAMA, 0%nat, (G 1 65 0 0 465), (G 4 66 0 0 25), 500%Z, 60%Z, 5%Z, 5%Z, (an 10 20), (an 7 9).
  cbv zeta. repeat split; try (vm_compute; reflexivity). vm_compute. discriminate.
Qed.

(* the size cap of the scan (C06's): beyond 1024 glyphs the scan gives up,
   it is no longer the iteration over all positions *)
Theorem scan_size_cap_refuted :
  exists seq, (size_cap < length seq)%nat /\
    snd (xscan (xstep all (try_cursive all false [recsA])) seq) <>
    snd (piter xand (xstep all (try_cursive all false [recsA])) (length seq) 0 seq xtrue).
Proof.
  exists (repeat (G 7 65 0 0 600) 1025). split; [apply Nat.ltb_lt; vm_compute; reflexivity | vm_compute; discriminate].
Qed.

(* the component association decides the attachment point *)
Theorem marklig_component_ignored_refuted :
  exists ca1 ca2, R_marklig gdx all ca1 seqLMN 1%nat subA <> R_marklig gdx all ca2 seqLMN 1%nat subA.
Proof. exists [0; 1; 0]%nat, [0; 2; 0]%nat. vm_compute. discriminate. Qed.

(* a base between ligature and mark blocks the attachment although a covered
   ligature stands further back *)
Theorem marklig_base_between_refuted :
  exists seq a, R_marklig gdx all [] seq a subA = None /\
    exists g d, find_base (ms_ligs subA) (rev (firstn a seq)) 1 = Some (g, d).
Proof.
  exists [G 3 65 0 0 530; G 2 66 0 0 520; G 4 67 0 0 0], 2%nat. split; [vm_compute; reflexivity|].
  eexists. eexists. vm_compute. reflexivity.
Qed.

(* the order of the lookups matters: cursive attachment sets the advance mark
   attachment subtracts *)
Theorem lookup_order_refuted :
  exists ll2 seq, R_shape2 ll2 gdx [] [0; 1]%nat seq <> R_shape2 ll2 gdx [] [1; 0]%nat seq.
Proof.
  exists [LCursive 8 0 [[(3, (an 20 (-10), an 400 0)); (1, (an 10 20, an 500 60))]]; LMarkLig 0 0 [subA]],
         [G 3 65 0 0 530; G 4 66 0 0 0; G 1 67 0 0 510].
  vm_compute. discriminate.
Qed.

(* conservative_over_c06 needs an order of C06's lookups: the projected list
   knows nothing of the new types *)
Theorem conservative_needs_old_order_refuted :
  exists ll2 order seq, R_shape2 ll2 gdx [] order seq <> R_shape (map proj ll2) gdx order seq.
Proof. exists ll_mixed, [0; 1]%nat, seqAMAN. vm_compute. discriminate. Qed.

(* a glyph the flags KEEP is changed: the hypothesis of the untouched clauses is needed *)
Theorem kept_glyph_untouched_refuted :
  exists seq i g, nth_error seq i = Some g /\ keep gdx 0 0 (gid g) = true /\
    nth_error (fst (run_cursive gdx 0 0 [recsA] seq)) i <> Some g.
Proof. exists seq3, 1%nat, (G 2 66 (-4) 9 610). repeat split. vm_compute. discriminate. Qed.

(* a positional association of another length is not used *)
Example ex_ca_for : ca_for [3%nat] seqLMN = [] /\ ca_for [0; 1; 0]%nat seqLMN = [0; 1; 0]%nat.
Proof. split; reflexivity. Qed.

(* C06's scan is the generic scan: on a concrete GSUB lookup *)
Example ex_generic_scan :
  let lk := mkLookup 0 0 [SSingle2 [(1, 6)]] in
  scan [lk] None B lk 3 3 seq3 true = gscan andb false (step [lk] None B lk) 3 3 seq3 true /\
  map gid (fst (scan [lk] None B lk 3 3 seq3 true)) = [6; 2; 6].
Proof. split; vm_compute; reflexivity. Qed.

(* a list made of C06's lookups only: in_domain2 and R_shape2 are C06's *)
Example ex_conservative_over_c06_domain :
  let ll := [mkLookup 8 0 [SLigature [(1, [([1], 3)])]]] in
  in_domain2 (map LOld ll) gdx [] [0%nat] seqAMAN = in_domain ll gdx [0%nat] seqAMAN /\
  in_domain ll gdx [0%nat] seqAMAN = true /\
  map gid (R_shape2 (map LOld ll) gdx [] [0%nat] seqAMAN) = [3; 4; 5].
Proof. repeat split; vm_compute; reflexivity. Qed.

(* a lookup with RIGHT_TO_LEFT resp. of type 5 is outside the domain *)
Example ex_domain_excludes :
  nth_error ll_mixed 1 = Some (LMarkLig 0 0 [subA]) /\
  has_flag 1 c06b_RightToLeft = true /\ has_flag 8 c06b_RightToLeft = false /\
  dv_lig (r_dv (apply_lookup2 ll_mixed gdx B [] (mkSt2 [] true dv0) 1)) = true /\
  dv_none (r_dv (apply_lookup2 ll_mixed gdx B [] (mkSt2 [] true dv0) 2)) = true.
Proof. repeat split; vm_compute; reflexivity. Qed.
