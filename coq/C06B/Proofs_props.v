(* C06B/Proofs_props.v — the proofs behind the longer statements of Props.v
   (Props.v repeats each statement and closes it with `exact`). *)
From Coq Require Import List NArith ZArith Bool Arith Lia.
From Gen Require Import Consts C06 C06B.
From C06 Require Import Model Spec Util Proofs.
From C06B Require Import Model Proofs Proofs_chain.
Import ListNotations.

Definition B := gtab_actionBudget.

Lemma cursive_adds_exactly_proof : forall kp rtl seq a b recs g0 en ex s,
  nth_error seq a = Some g0 -> assoc (gid g0) recs = Some (en, ex) -> s_seq s = seq ->
  let prev := next_kept kp (rev (firstn a seq)) 0 in
  let next := next_kept kp (slice seq (S a) b) (S a) in
  let g' := mkG (gid g0) (gtext g0) (gx g0)
              (cur_cross rtl recs g0 en ex (option_map (fun r => fst (fst r)) prev)
                         (option_map (fun r => fst (fst r)) next))
              (cur_line recs g0 ex
                 (option_map (fun r => (fst (fst r), sum_adv (slice seq (S a) (snd r)))) next)) in
  R_cursive kp rtl seq a b recs =
    Some (ESet [(a, g')] (S a), (glyph_fits g', cur_div kp recs seq a b en ex)) /\
  let seq' := s_seq (fst (apply_effect (ESet [(a, g')] (S a)) s)) in
  nth_error seq' a = Some g' /\ (forall q, q <> a -> nth_error seq' q = nth_error seq q) /\
  length seq' = length seq /\ snd (apply_effect (ESet [(a, g')] (S a)) s) = S a.
Proof.
  intros kp rtl seq a b recs g0 en ex s Hn Ha Hs prev next g'. split.
  - apply R_cursive_eq; assumption.
  - pose proof (eset1_result seq a g' (S a) s Hs) as H.
    destruct H as (H1 & H2 & H3); [apply nth_error_Some; congruence|].
    repeat split; assumption.
Qed.

Lemma marklig_adds_exactly_proof : forall gd kp ca seq a sub g0 cls mx my gl l' d comps anchors lx ly s,
  nth_error seq a = Some g0 -> assoc (gid g0) (ms_marks sub) = Some (cls, (mx, my)) ->
  next_kept (lig_stop gd kp) (rev (firstn a seq)) 0 = Some (gl, l', d) ->
  assoc (gid gl) (ms_ligs sub) = Some comps ->
  nth_error comps (comp_index (length comps) (nth a ca 0)) = Some anchors ->
  nth_error anchors cls = Some (Some (lx, ly)) -> s_seq s = seq ->
  let g' := mkG (gid g0) (gtext g0)
                (gx g0 + (lx - mx - sum_adv (slice seq (a - S d) a)))%Z
                (gy g0 + (ly - my))%Z (gadv g0) in
  R_marklig gd kp ca seq a sub =
    Some (ESet [(a, g')] (S a), (glyph_fits g', dv0)) /\
  (d < a /\ nth_error seq (a - S d) = Some gl /\ kp (gid gl) = true /\ is_mark gd (gid gl) = false /\
   (forall i h, a - S d < i < a -> nth_error seq i = Some h ->
                kp (gid h) = false \/ is_mark gd (gid h) = true)) /\
  let seq' := s_seq (fst (apply_effect (ESet [(a, g')] (S a)) s)) in
  nth_error seq' a = Some g' /\ (forall q, q <> a -> nth_error seq' q = nth_error seq q) /\
  length seq' = length seq /\ snd (apply_effect (ESet [(a, g')] (S a)) s) = S a.
Proof.
  intros gd kp ca seq a sub g0 cls mx my gl l' d comps anchors lx ly s Hn Hm Hk Hl Hc Ha Hs g'.
  assert (Hlen : a < length seq) by (apply nth_error_Some; congruence).
  split; [|split].
  - eapply R_marklig_eq; eassumption.
  - eapply lig_search_spec; [eassumption | lia].
  - pose proof (eset1_result seq a g' (S a) s Hs Hlen) as (H1 & H2 & H3).
    repeat split; assumption.
Qed.

Lemma marklig_no_attachment_proof : forall gd kp ca seq a sub g0,
  nth_error seq a = Some g0 ->
  (assoc (gid g0) (ms_marks sub) = None -> R_marklig gd kp ca seq a sub = None) /\
  (forall cls mxy, assoc (gid g0) (ms_marks sub) = Some (cls, mxy) ->
     (next_kept (lig_stop gd kp) (rev (firstn a seq)) 0 = None -> R_marklig gd kp ca seq a sub = None) /\
     (forall gl l' d, next_kept (lig_stop gd kp) (rev (firstn a seq)) 0 = Some (gl, l', d) ->
        (assoc (gid gl) (ms_ligs sub) = None -> R_marklig gd kp ca seq a sub = None) /\
        (forall comps, assoc (gid gl) (ms_ligs sub) = Some comps ->
           (nth_error comps (comp_index (length comps) (nth a ca 0)) = None ->
              R_marklig gd kp ca seq a sub = None) /\
           (forall anchors, nth_error comps (comp_index (length comps) (nth a ca 0)) = Some anchors ->
              (nth_error anchors cls = None \/ nth_error anchors cls = Some None) ->
              R_marklig gd kp ca seq a sub = None)))).
Proof.
  intros gd kp ca seq a sub g0 Hn. unfold R_marklig. rewrite Hn. split.
  - intros H. rewrite H. reflexivity.
  - intros cls [mx my] Hm. rewrite Hm. split.
    + intros H. rewrite H. reflexivity.
    + intros gl l' d Hk. rewrite Hk. split.
      * intros H. rewrite H. reflexivity.
      * intros comps Hc. rewrite Hc. split.
        -- intros H. rewrite H. reflexivity.
        -- intros anchors Ha [H|H]; rewrite Ha, H; reflexivity.
Qed.

Lemma new_step_resumes_next_proof : forall kp p seq,
  (forall rtl subs, let r := xstep kp (try_cursive kp rtl subs) p seq in
     snd (fst r) = S p /\ length (fst (fst r)) = length seq) /\
  (forall gd ca subs, let r := xstep kp (try_marklig gd kp ca subs) p seq in
     snd (fst r) = S p /\ length (fst (fst r)) = length seq) /\
  (forall try, kp (gid_at seq p) = false -> xstep kp try p seq = (seq, S p, xtrue)) /\
  (forall try, try seq p = None -> xstep kp try p seq = (seq, S p, xtrue)).
Proof.
  intros kp p seq. split; [|split; [|split]].
  - intros rtl subs r. destruct (xstep_unit cshape kp _ (try_cursive_unit kp rtl subs) p seq). auto.
  - intros gd ca subs r. destruct (xstep_unit mshape kp _ (try_marklig_unit gd kp ca subs) p seq). auto.
  - intros. apply xstep_not_kept. assumption.
  - intros. apply xstep_no_match. assumption.
Qed.

Lemma conservative_over_c06_proof : forall ll2 gd ca order seq,
  (forall li, In li order -> is_old_at ll2 li = true) ->
  R_shape2 ll2 gd ca order seq = R_shape (map proj ll2) gd order seq /\
  r_ok (R_run2 ll2 gd B ca order seq) = snd (R_run (map proj ll2) gd B order seq) /\
  r_dv (R_run2 ll2 gd B ca order seq) = dv0.
Proof.
  intros ll2 gd ca order seq H. unfold R_shape2, R_shape, R_run2, R_run, B.
  rewrite (R_run2_old ll2 gd gtab_actionBudget ca order seq true dv0 H). cbn zeta.
  repeat split.
Qed.

Lemma conservative_over_c06_domain_proof : forall ll gd ca order seq,
  in_domain2 (map LOld ll) gd ca order seq = in_domain ll gd order seq /\
  R_shape2 (map LOld ll) gd ca order seq = R_shape ll gd order seq.
Proof.
  intros ll gd ca order seq.
  destruct (conservative_over_c06_proof (map LOld ll) gd ca order seq) as (H1 & H2 & H3).
  { intros li _. apply is_old_at_old. }
  rewrite proj_old in *. split; [|assumption].
  unfold in_domain2, defined2, in_domain. unfold B in *.
  rewrite static_ok2_old, H2, H3. cbn [dv_none dv0 dv_flags dv_rtl dv_null dv_lig orb negb].
  rewrite andb_true_r. reflexivity.
Qed.

Lemma observe2_spec_proof : forall ll2 gd ca order seq,
  (defined2 ll2 gd ca order seq = false -> observe2 ll2 gd ca order seq = OOod) /\
  (in_domain2 ll2 gd ca order seq = true ->
     observe2 ll2 gd ca order seq = ODom (R_shape2 ll2 gd ca order seq)) /\
  (defined2 ll2 gd ca order seq = true -> in_domain2 ll2 gd ca order seq = false ->
     observe2 ll2 gd ca order seq =
     OOut (r_dv (R_run2 ll2 gd B ca order seq)) (R_shape2 ll2 gd ca order seq)).
Proof.
  intros ll2 gd ca order seq. unfold observe2, in_domain2, defined2, R_shape2, B.
  destruct (static_ok2 ll2 gd && forallb glyph_fits seq &&
            r_ok (R_run2 ll2 gd gtab_actionBudget ca order seq)) eqn:E; cbn zeta.
  - split; [discriminate|]. split.
    + intros H. cbn [andb] in H. rewrite H. reflexivity.
    + intros _ H. cbn [andb] in H. rewrite H. reflexivity.
  - split; [reflexivity|]. split; [discriminate|]. intros H. discriminate.
Qed.

Lemma domain_excludes_proof : forall ll2 gd ca acc li f m,
  (forall subs, nth_error ll2 li = Some (LCursive f m subs) -> has_flag f c06b_RightToLeft = true ->
     dv_rtl (r_dv (apply_lookup2 ll2 gd B ca acc li)) = true) /\
  (forall subs, nth_error ll2 li = Some (LMarkLig f m subs) ->
     dv_lig (r_dv (apply_lookup2 ll2 gd B ca acc li)) = true).
Proof.
  intros ll2 gd ca acc li f m. split; intros subs H; unfold apply_lookup2; rewrite H.
  - intros Hf. cbn [r_dv]. unfold run_cursive. rewrite Hf. cbn [snd fst dv_or dv_rtl].
    apply orb_true_iff. right. apply orb_true_r.
  - cbn [r_dv]. unfold run_marklig. cbn [snd fst dv_or dv_lig].
    apply orb_true_iff. right. apply orb_true_r.
Qed.
