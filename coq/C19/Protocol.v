(* C19/Protocol.v — the goroutines of builder.Parse as a rendezvous-channel
   protocol.  Three processes:
     lexer   sends its items one by one over an unbuffered channel, then
             closes it (lexer.run);
     helper  (code before fixes/C19-decode-string.diff only) one goroutine
             per quoted string, sends the runes over an unbuffered channel,
             then closes it (decodeString);
     parser  receives items; on a string item it ranges over the helper's
             channel; at ANY point it may abort with a parse error, after which
             the deferred function drains the item channel (`for range
             tokens`) and Parse returns; it returns normally only after the
             last item.
   A send on an unbuffered channel is a joint step with the matching receive.
   The scheduler is any interleaving of the enabled steps.
   Definitions only; the theorems are in ProofsProtocol.v. *)
From Coq Require Import List Arith Bool.
Import ListNotations.

Inductive lex_st : Type :=
| LRun (k : nat)      (* k items still to be sent; blocked in `l.items <- item` if k > 0 *)
| LClosed.            (* close(l.items) done: the goroutine has ended *)

Inductive helper_st : Type :=
| HNone               (* no helper goroutine exists *)
| HRun (j : nat)      (* j runes still to be sent; blocked in `c <- r` if j > 0 *)
| HClosed.            (* close(c) done: the goroutine has ended *)

Inductive par_st : Type :=
| PRun                (* in p.parse() *)
| PStr                (* in `for r := range decodeString(...)` *)
| PDrain              (* in the deferred function: `for range tokens {}` *)
| PDone.              (* Parse has returned *)

Record pstate : Type := mkP { lx : lex_st; hp : helper_st; ps : par_st }.

(* with_helper = true: the code as found (string runes through a goroutine);
   false: the repaired code (decodeString returns a slice) *)
Inductive step (with_helper : bool) : pstate -> pstate -> Prop :=
| s_item : forall k h,                      (* the parser receives an item *)
    step with_helper (mkP (LRun (S k)) h PRun) (mkP (LRun k) h PRun)
| s_string : forall k h m,                  (* ... a string item: decodeString starts a helper *)
    with_helper = true -> h <> HRun 0 -> (forall j, h <> HRun (S j)) ->
    step with_helper (mkP (LRun (S k)) h PRun) (mkP (LRun k) (HRun m) PStr)
| s_rune : forall l j,                      (* the parser receives a rune from the helper *)
    step with_helper (mkP l (HRun (S j)) PStr) (mkP l (HRun j) PStr)
| s_hclose : forall l p,                    (* the helper closes its channel and ends *)
    step with_helper (mkP l (HRun 0) p) (mkP l HClosed p)
| s_strdone : forall l,                     (* the range loop over the runes ends *)
    step with_helper (mkP l HClosed PStr) (mkP l HClosed PRun)
| s_abort_run : forall l h,                 (* p.fatal(...) anywhere in the parser *)
    step with_helper (mkP l h PRun) (mkP l h PDrain)
| s_abort_str : forall l h,                 (* p.fatal("rune not mapped") inside the rune loop *)
    step with_helper (mkP l h PStr) (mkP l h PDrain)
| s_return : forall h,                      (* itemEOF was the last item: parse() returns *)
    step with_helper (mkP (LRun 0) h PRun) (mkP (LRun 0) h PDone)
| s_return' : forall h,
    step with_helper (mkP LClosed h PRun) (mkP LClosed h PDone)
| s_drain : forall k h,                     (* the drain loop receives (and drops) an item *)
    step with_helper (mkP (LRun (S k)) h PDrain) (mkP (LRun k) h PDrain)
| s_drained : forall h,                     (* the item channel is closed: Parse returns the error *)
    step with_helper (mkP LClosed h PDrain) (mkP LClosed h PDone)
| s_lclose : forall h p,                    (* the lexer closes its channel and ends *)
    step with_helper (mkP (LRun 0) h p) (mkP LClosed h p).

(* Parse(input) starts with a lexer that has n+1 items to send (the last one
   is itemEOF or an error item) and no helper *)
Definition init (n : nat) : pstate := mkP (LRun (S n)) HNone PRun.

Inductive reach (wh : bool) : pstate -> pstate -> Prop :=
| r_refl : forall s, reach wh s s
| r_step : forall s s' s'', step wh s s' -> reach wh s' s'' -> reach wh s s''.

Definition stuck (wh : bool) (s : pstate) : Prop := forall s', ~ step wh s s'.

(* invariant of the reachable states: the rune loop always has a helper to
   talk to, and Parse returns only once the lexer has sent its last item *)
Definition pinv (s : pstate) : Prop :=
  (ps s = PStr -> hp s <> HNone) /\
  (ps s = PDone -> lx s = LRun 0 \/ lx s = LClosed).

(* measure for termination: lexicographic (items the lexer still owes,
   runes the helper still owes + progress of the parser) *)
Definition lex_m (l : lex_st) : nat := match l with LRun k => S k | LClosed => 0 end.
Definition hp_m (h : helper_st) : nat := match h with HRun j => S j | _ => 0 end.
Definition ps_m (p : par_st) : nat := match p with PStr => 3 | PRun => 2 | PDrain => 1 | PDone => 0 end.
Definition m1 (s : pstate) : nat := lex_m (lx s).
Definition m2 (s : pstate) : nat := hp_m (hp s) + ps_m (ps s).
