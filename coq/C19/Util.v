(* C19/Util.v — general lemmas used by the C19 proofs *)
From Coq Require Import List NArith ZArith Bool Arith Lia ZifyBool ZifyNat ZifyN.
From C19 Require Import Model Wf.
Import ListNotations.
Local Open Scope N_scope.
Ltac Zify.zify_post_hook ::= Z.div_mod_to_equations.

Lemma list_eqb_spec : forall a b, list_eqb a b = true <-> a = b.
Proof.
  induction a as [|x a IH]; destruct b as [|y b]; cbn; split; intros H; try congruence; try discriminate.
  - apply andb_true_iff in H. destruct H as [H1 H2]. apply N.eqb_eq in H1. apply IH in H2. congruence.
  - inversion H; subst. rewrite N.eqb_refl. cbn. apply IH. reflexivity.
Qed.

Lemma list_eqb_refl : forall a, list_eqb a a = true.
Proof. intros. apply list_eqb_spec. reflexivity. Qed.

Lemma list_eqb_neq : forall a b, a <> b -> list_eqb a b = false.
Proof.
  intros a b H. destruct (list_eqb a b) eqn:E; auto. apply list_eqb_spec in E. contradiction.
Qed.

(* strictly ascending lists *)
Fixpoint ascending (l : list N) : Prop :=
  match l with
  | [] => True
  | x :: r => match r with [] => True | y :: _ => x < y end /\ ascending r
  end.

Lemma ascendingb_spec : forall l, ascendingb l = true <-> ascending l.
Proof.
  induction l as [|x r IH]; cbn; [tauto|].
  rewrite andb_true_iff, IH. destruct r; [tauto|]. rewrite N.ltb_lt. tauto.
Qed.

Lemma ascending_tail : forall x l, ascending (x :: l) -> ascending l.
Proof. intros x l H. destruct H; auto. Qed.

Lemma ascending_lt_all : forall l x, ascending (x :: l) -> Forall (fun y => x < y) l.
Proof.
  induction l as [|y r IH]; intros x H; constructor.
  - destruct H as [H _]. exact H.
  - destruct H as [H1 H2]. assert (A : ascending (x :: r)).
    { destruct r as [|z r]; cbn; auto. destruct H2 as [H2 H3]. split; [lia|exact H3]. }
    specialize (IH x A). eapply Forall_impl; [|exact IH]. auto.
Qed.

Lemma insert_sorted_lt_all : forall l x, Forall (fun y => x < y) l -> insert_sorted x l = x :: l.
Proof.
  destruct l as [|y r]; intros x H; cbn; auto.
  inversion H; subst. assert (E : (x <=? y) = true) by (apply N.leb_le; lia). rewrite E. reflexivity.
Qed.

Lemma isort_ascending : forall l, ascending l -> isort l = l.
Proof.
  induction l as [|x r IH]; intros H; cbn; auto.
  unfold isort in *. cbn. rewrite IH by (eapply ascending_tail; eauto).
  apply insert_sorted_lt_all. apply ascending_lt_all. exact H.
Qed.

Lemma uniq_ascending : forall l, ascending l -> uniq l = l.
Proof.
  induction l as [|x r IH]; intros H; cbn; auto.
  destruct r as [|y r']; auto.
  destruct H as [H1 H2]. assert (E : (x =? y) = false) by (apply N.eqb_neq; lia).
  rewrite E. f_equal. apply IH. exact H2.
Qed.

Lemma sort_uniq_ascending : forall l, ascending l -> uniq (isort l) = l.
Proof. intros. rewrite isort_ascending by auto. apply uniq_ascending; auto. Qed.

(* association lists *)
Lemma assoc_app_notin : forall {B} (l1 l2 : list (N * B)) k,
  assoc k l1 = None -> assoc k (l1 ++ l2) = assoc k l2.
Proof.
  induction l1 as [|[k' v] r IH]; intros; cbn in *; auto.
  destruct (k' =? k); [discriminate|]. apply IH; auto.
Qed.

Lemma assoc_app_in : forall {B} (l1 l2 : list (N * B)) k v,
  assoc k l1 = Some v -> assoc k (l1 ++ l2) = Some v.
Proof.
  induction l1 as [|[k' v'] r IH]; intros; cbn in *; [discriminate|].
  destruct (k' =? k); auto.
Qed.

Lemma assoc_none_lt : forall {B} (l : list (N * B)) k,
  Forall (fun p => fst p < k) l -> assoc k l = None.
Proof.
  induction l as [|[k' v] r IH]; intros k H; cbn; auto.
  inversion H; subst. cbn in *. assert (E : (k' =? k) = false) by (apply N.eqb_neq; lia).
  rewrite E. apply IH; auto.
Qed.

Lemma assoc_none_gt : forall {B} (l : list (N * B)) k,
  Forall (fun p => k < fst p) l -> assoc k l = None.
Proof.
  induction l as [|[k' v] r IH]; intros k H; cbn; auto.
  inversion H; subst. cbn in *. assert (E : (k' =? k) = false) by (apply N.eqb_neq; lia).
  rewrite E. apply IH; auto.
Qed.

(* map (lookup in l) (keys l) = values l, for ascending keys *)
Lemma map_get_combine : forall {B} (d : B) (ks : list N) (vs : list B),
  ascending ks -> length ks = length vs ->
  map (fun g => get_or0 d g (combine ks vs)) ks = vs.
Proof.
  intros B d ks. induction ks as [|k r IH]; intros vs Ha Hl; destruct vs as [|v vs]; cbn in *; try discriminate; auto.
  unfold get_or0 at 1. cbn. rewrite N.eqb_refl. f_equal.
  transitivity (map (fun g => get_or0 d g (combine r vs)) r).
  - apply map_ext_in. intros g Hg. unfold get_or0. cbn.
    assert (Hlt : k < g).
    { pose proof (ascending_lt_all _ _ Ha) as HF. rewrite Forall_forall in HF. apply HF; auto. }
    assert (E : (k =? g) = false) by (apply N.eqb_neq; lia). rewrite E. reflexivity.
  - apply IH; [eapply ascending_tail; eauto|lia].
Qed.

Lemma map_fst_combine : forall {A B} (a : list A) (b : list B),
  length a = length b -> map fst (combine a b) = a.
Proof.
  induction a; destruct b; cbn; intros; try discriminate; auto. f_equal. apply IHa. lia.
Qed.

Lemma last_opt_app : forall {A} (l : list A) x, last_opt (l ++ [x]) = Some x.
Proof. intros. unfold last_opt. rewrite rev_app_distr. reflexivity. Qed.

(* numbers *)
Lemma is_adigit_spec : forall c, is_adigit c = true <-> 48 <= c <= 57.
Proof. intros. unfold is_adigit, in_range. lia. Qed.

Definition dstep (a d : N) : N := 10 * a + (d - 48).

Lemma atoi_digits_fold : forall ds acc, forallb is_adigit ds = true ->
  atoi_digits ds acc = Some (fold_left dstep ds acc).
Proof.
  induction ds as [|d r IH]; intros acc H; cbn in *; auto.
  apply andb_true_iff in H. destruct H as [H1 H2]. rewrite H1. apply IH; auto.
Qed.

Lemma digits_aux_all : forall fuel n acc, forallb is_adigit acc = true ->
  forallb is_adigit (digits_aux fuel n acc) = true.
Proof.
  induction fuel as [|f IH]; intros n acc H; cbn [digits_aux]; auto. cbv zeta.
  assert (D : is_adigit (48 + n mod 10) = true) by (apply is_adigit_spec; lia).
  destruct (n / 10 =? 0); [cbn [forallb]; rewrite D; auto|]. apply IH. cbn [forallb]. rewrite D. auto.
Qed.

Lemma digits_aux_fold : forall fuel n acc, n < 10 ^ N.of_nat fuel ->
  fold_left dstep (digits_aux fuel n acc) 0 = fold_left dstep acc n.
Proof.
  induction fuel as [|f IH]; intros n acc H.
  - cbn in H. assert (n = 0) by lia. subst. reflexivity.
  - cbn [digits_aux]. cbv zeta. destruct (n / 10 =? 0) eqn:E.
    + apply N.eqb_eq in E. cbn [fold_left]. f_equal. unfold dstep. lia.
    + rewrite IH.
      * cbn [fold_left]. f_equal. unfold dstep. lia.
      * rewrite Nat2N.inj_succ, N.pow_succ_r' in H. lia.
Qed.

Lemma digits_aux_nonnil : forall fuel n acc, (0 < fuel)%nat -> digits_aux fuel n acc <> [].
Proof.
  induction fuel as [|f IH]; intros n acc H; [lia|]. cbn [digits_aux]. cbv zeta.
  destruct (n / 10 =? 0); [discriminate|].
  destruct f; cbn [digits_aux]; [discriminate|]. apply IH. lia.
Qed.

Lemma pos_size_nat_gt : forall p, Npos p < 2 ^ N.of_nat (Pos.size_nat p).
Proof.
  induction p as [p IH|p IH|]; cbn [Pos.size_nat].
  - rewrite Nat2N.inj_succ, N.pow_succ_r'. lia.
  - rewrite Nat2N.inj_succ, N.pow_succ_r'. lia.
  - cbn. lia.
Qed.

Lemma size_nat_pow : forall n, n < 10 ^ N.of_nat (S (N.size_nat n)).
Proof.
  intros n. apply N.lt_le_trans with (2 ^ N.of_nat (S (N.size_nat n))).
  - rewrite Nat2N.inj_succ, N.pow_succ_r'. destruct n as [|p]; cbn [N.size_nat].
    + cbn. lia.
    + pose proof (pos_size_nat_gt p). lia.
  - apply N.pow_le_mono_l. lia.
Qed.

Lemma digits_all : forall n, forallb is_adigit (digits n) = true.
Proof. intros. apply digits_aux_all. reflexivity. Qed.

Lemma digits_nonnil : forall n, digits n <> [].
Proof. intros. apply digits_aux_nonnil. lia. Qed.

Lemma digits_value : forall n, fold_left dstep (digits n) 0 = n.
Proof. intros. unfold digits. rewrite digits_aux_fold by apply size_nat_pow. reflexivity. Qed.

Lemma atoi_digits_digits : forall n, atoi_digits (digits n) 0 = Some n.
Proof. intros. rewrite atoi_digits_fold by apply digits_all. f_equal. apply digits_value. Qed.

Lemma digits_head : forall n, exists c r, digits n = c :: r /\ is_adigit c = true /\ forallb is_adigit r = true.
Proof.
  intros n. pose proof (digits_all n) as H. pose proof (digits_nonnil n) as H0.
  destruct (digits n) as [|c r]; [congruence|]. cbn in H. apply andb_true_iff in H. destruct H. eauto.
Qed.

Lemma atoi_digits_nat : forall n, atoi (digits n) = Some (Z.of_N n).
Proof.
  intros n. destruct (digits_head n) as (c & r & E & Hc & Hr).
  unfold atoi. rewrite E. apply is_adigit_spec in Hc.
  assert (E1 : (c =? 43) = false) by lia. assert (E2 : (c =? 45) = false) by lia.
  rewrite E1, E2. rewrite <- E. rewrite atoi_digits_digits. reflexivity.
Qed.

Lemma atoi_digits_signed : forall z, atoi (digits_signed z) = Some z.
Proof.
  intros z. destruct z as [|p|p]; unfold digits_signed.
  - cbn. reflexivity.
  - unfold atoi. cbn [N.eqb Pos.eqb]. destruct (digits_head (Npos p)) as (c & r & E & _ & _).
    rewrite E. cbn [is_nil]. rewrite <- E. rewrite atoi_digits_digits. reflexivity.
  - unfold atoi. cbn [N.eqb Pos.eqb]. destruct (digits_head (Npos p)) as (c & r & E & _ & _).
    rewrite E. cbn [is_nil]. rewrite <- E. rewrite atoi_digits_digits. reflexivity.
Qed.

(* ---- stable sort by key is the identity on lists already sorted by key ---- *)
From Coq Require Import Sorting.Sorted.

Definition key_le {B} (a b : N * B) : Prop := fst a <= fst b.

Lemma insert_by_key_le_all : forall {B} (x : N * B) l,
  Forall (key_le x) l -> insert_by_key x l = x :: l.
Proof.
  intros B x l H. destruct l as [|y r]; cbn; auto.
  inversion H; subst. unfold key_le in *. assert (E : (fst x <=? fst y) = true) by lia. rewrite E. reflexivity.
Qed.

Lemma stable_sort_sorted : forall {B} (l : list (N * B)),
  StronglySorted key_le l -> stable_sort l = l.
Proof.
  intros B l H. induction H as [|x l Hs IH Hx]; cbn; auto.
  unfold stable_sort in *. cbn. rewrite IH. apply insert_by_key_le_all. exact Hx.
Qed.

Lemma ascending_ss_map : forall {B} (f : N -> B) cov,
  ascending cov -> StronglySorted key_le (map (fun k => (k, f k)) cov).
Proof.
  intros B f cov. induction cov as [|x r IH]; intros H; cbn; constructor.
  - apply IH. eapply ascending_tail; eauto.
  - apply Forall_forall. intros y Hy. apply in_map_iff in Hy. destruct Hy as (k & E & Hk). subst y.
    unfold key_le. cbn. pose proof (ascending_lt_all _ _ H) as HF. rewrite Forall_forall in HF.
    specialize (HF k Hk). lia.
Qed.

Lemma ascending_ss_combine : forall {B} cov (vs : list B),
  ascending cov -> StronglySorted key_le (combine cov vs).
Proof.
  intros B cov. induction cov as [|x r IH]; intros vs H; destruct vs as [|v vs]; cbn; try constructor.
  - apply IH. eapply ascending_tail; eauto.
  - apply Forall_forall. intros [yk yv] Hy. apply in_combine_l in Hy.
    unfold key_le. cbn. pose proof (ascending_lt_all _ _ H) as HF. rewrite Forall_forall in HF.
    specialize (HF _ Hy). lia.
Qed.

Lemma ss_app : forall {B} (a b : list (N * B)),
  StronglySorted key_le a -> StronglySorted key_le b ->
  (forall x y, In x a -> In y b -> key_le x y) -> StronglySorted key_le (a ++ b).
Proof.
  intros B a b Ha Hb Hab. induction Ha as [|x l Hs IH Hx]; cbn; auto.
  constructor.
  - apply IH. intros. apply Hab; auto. right. auto.
  - apply Forall_app. split; auto. apply Forall_forall. intros y Hy. apply Hab; auto. left. auto.
Qed.

Lemma ss_groups : forall {B} cov (groups : list (list B)),
  ascending cov ->
  StronglySorted key_le (concat (map (fun p => map (fun lg => (fst p, lg)) (snd p)) (combine cov groups))).
Proof.
  intros B cov. induction cov as [|x r IH]; intros groups H; destruct groups as [|g gs]; cbn; try constructor.
  apply ss_app.
  - clear. induction g as [|a g IHg]; cbn; constructor; auto.
    apply Forall_forall. intros y Hy. apply in_map_iff in Hy. destruct Hy as (b & E & _). subst. unfold key_le. cbn. lia.
  - apply IH. eapply ascending_tail; eauto.
  - intros a b Ha Hb. apply in_map_iff in Ha. destruct Ha as (lg & E & _). subst a.
    apply in_concat in Hb. destruct Hb as (grp & Hgrp & Hb). apply in_map_iff in Hgrp.
    destruct Hgrp as ([k ls] & E & Hin). subst grp. apply in_map_iff in Hb. destruct Hb as (lg' & E & _). subst b.
    unfold key_le. cbn. apply in_combine_l in Hin.
    pose proof (ascending_lt_all _ _ H) as HF. rewrite Forall_forall in HF. specialize (HF _ Hin). lia.
Qed.

Lemma Forall_combine : forall {A B} (P : A -> Prop) (Q : B -> Prop) a b,
  Forall P a -> Forall Q b -> Forall (fun e => P (fst e) /\ Q (snd e)) (combine a b).
Proof.
  intros A B P Q a. induction a as [|x a IH]; intros b Ha Hb; destruct b as [|y b]; cbn; constructor.
  - inversion Ha; inversion Hb; subst. cbn. auto.
  - inversion Ha; inversion Hb; subst. apply IH; auto.
Qed.

Lemma forallb_Forall : forall {A} (f : A -> bool) l, forallb f l = true -> Forall (fun x => f x = true) l.
Proof. intros A f l H. rewrite forallb_forall in H. apply Forall_forall. exact H. Qed.

(* ---- grouped data (GSUB4): keys of ascending coverage with non-empty groups ---- *)
Definition groups {B} (cov : list N) (repl : list (list B)) : list (N * B) :=
  concat (map (fun p => map (fun lg => (fst p, lg)) (snd p)) (combine cov repl)).

Lemma groups_cons : forall {B} g cov (r : list B) repl,
  groups (g :: cov) (r :: repl) = map (fun lg => (g, lg)) r ++ groups cov repl.
Proof. reflexivity. Qed.

Lemma groups_keys_ge : forall {B} cov (repl : list (list B)) g,
  Forall (fun y => g < y) cov -> Forall (fun p => g < fst p) (groups cov repl).
Proof.
  intros B cov. induction cov as [|x cov IH]; intros repl g H; destruct repl as [|r repl]; try constructor.
  rewrite groups_cons. inversion H; subst. apply Forall_app. split.
  - apply Forall_forall. intros p Hp. apply in_map_iff in Hp. destruct Hp as (lg & E & _). subst. auto.
  - apply IH; auto.
Qed.

Lemma insert_sorted_le_all : forall l x, Forall (fun y => x <= y) l -> insert_sorted x l = x :: l.
Proof.
  destruct l as [|y r]; intros x H; cbn; auto.
  inversion H; subst. assert (E : (x <=? y) = true) by lia. rewrite E. reflexivity.
Qed.

Lemma isort_app_const : forall g n rest, Forall (fun y => g <= y) rest -> isort rest = rest ->
  isort (repeat g n ++ rest) = repeat g n ++ rest.
Proof.
  induction n as [|n IH]; intros rest H E; cbn [repeat app]; auto.
  unfold isort in *. cbn [fold_right]. fold (isort (repeat g n ++ rest)). unfold isort. rewrite IH by auto.
  apply insert_sorted_le_all. apply Forall_app. split; auto.
  apply Forall_forall. intros y Hy. apply repeat_spec in Hy. lia.
Qed.

Lemma uniq_repeat_app : forall g n rest, Forall (fun y => g < y) rest ->
  uniq (repeat g (S n) ++ rest) = g :: uniq rest.
Proof.
  induction n as [|n IH]; intros rest H.
  - cbn [repeat app uniq]. destruct rest as [|y r]; auto. inversion H; subst.
    assert (E : (g =? y) = false) by lia. rewrite E. reflexivity.
  - change (repeat g (S (S n)) ++ rest) with (g :: g :: (repeat g n ++ rest)).
    cbn [uniq]. rewrite N.eqb_refl.
    change (g :: repeat g n ++ rest) with (repeat g (S n) ++ rest). apply IH; auto.
Qed.

Lemma groups_keys : forall {B} cov (repl : list (list B)),
  ascending cov -> length cov = length repl -> Forall (fun r => r <> []) repl ->
  isort (map fst (groups cov repl)) = map fst (groups cov repl) /\ uniq (map fst (groups cov repl)) = cov.
Proof.
  intros B cov. induction cov as [|g cov IH]; intros repl Ha Hl Hn; destruct repl as [|r repl]; try discriminate.
  - split; reflexivity.
  - inversion Hn as [|? ? Hr Hn']; subst. cbn [length] in Hl.
    assert (Hl' : length cov = length repl) by lia.
    destruct (IH repl (ascending_tail _ _ Ha) Hl' Hn') as [I1 I2].
    rewrite groups_cons, map_app, map_map. cbn [fst].
    assert (Er : map (fun _ : B => g) r = repeat g (length r)).
    { clear. induction r; cbn; auto. f_equal; auto. }
    rewrite Er.
    pose proof (groups_keys_ge cov repl g (ascending_lt_all _ _ Ha)) as HG.
    assert (HG' : Forall (fun y => g < y) (map fst (groups cov repl))).
    { apply Forall_forall. intros y Hy. apply in_map_iff in Hy. destruct Hy as (p & E & Hp). subst.
      rewrite Forall_forall in HG. auto. }
    split.
    + apply isort_app_const; auto. eapply Forall_impl; [|exact HG']. intros a Hlt. cbn beta in Hlt. lia.
    + destruct r as [|b r]; [congruence|]. cbn [length]. rewrite uniq_repeat_app by auto. rewrite I2. reflexivity.
Qed.

Lemma ligs_of_groups : forall cov (repl : list (list (list N * N))),
  ascending cov -> length cov = length repl ->
  map (fun g => ligs_of g (groups cov repl)) cov = repl.
Proof.
  induction cov as [|g cov IH]; intros repl Ha Hl; destruct repl as [|r repl]; try discriminate; auto.
  cbn [length] in Hl. cbn [map]. rewrite groups_cons.
  pose proof (ascending_lt_all _ _ Ha) as HL.
  assert (F1 : forall (x : N) (rr : list (list N * N)), filter (fun p : N * (list N * N) => fst p =? x) (map (fun lg => (x, lg)) rr) = map (fun lg => (x, lg)) rr).
  { intros x rr. induction rr; cbn; auto. rewrite N.eqb_refl. f_equal; auto. }
  assert (F2 : forall (x y : N) (rr : list (list N * N)), x <> y -> filter (fun p : N * (list N * N) => fst p =? x) (map (fun lg => (y, lg)) rr) = []).
  { intros x y rr Hxy. induction rr; cbn; auto. assert (E : (y =? x) = false) by lia. rewrite E. auto. }
  f_equal.
  - unfold ligs_of. rewrite filter_app, F1.
    assert (E : filter (fun p : N * (list N * N) => fst p =? g) (groups cov repl) = []).
    { pose proof (groups_keys_ge cov repl g HL) as HG. clear - HG.
      induction (groups cov repl) as [|p l IHl]; cbn; auto. inversion HG; subst.
      assert (E : (fst p =? g) = false) by lia. rewrite E. auto. }
    rewrite E, app_nil_r, map_map. cbn [snd]. apply map_id.
  - assert (Hl' : length cov = length repl) by lia.
    transitivity (map (fun g0 => ligs_of g0 (groups cov repl)) cov);
      [|apply (IH repl (ascending_tail _ _ Ha) Hl')].
    apply map_ext_in. intros x Hx. unfold ligs_of. rewrite filter_app.
    rewrite F2; auto. rewrite Forall_forall in HL. specialize (HL x Hx). lia.
Qed.

(* ---- ranges (GSUB1) ---- *)
Lemma seq_up_length : forall n f, length (seq_up f n) = n.
Proof. induction n; intros; cbn; auto. Qed.

Lemma seq_up_gt : forall n f x, In x (seq_up (f + 1) n) -> f < x.
Proof.
  induction n as [|n IH]; intros f x H; cbn in H; [contradiction|].
  destruct H as [H|H]; [lia|]. apply IH in H. lia.
Qed.

Lemma seq_up_ascending : forall n f, ascending (seq_up f n).
Proof.
  induction n as [|n IH]; intros f; cbn [seq_up ascending]; auto.
  split; [|apply IH]. destruct n; cbn; auto. lia.
Qed.

Lemma nth_seq_up_combine : forall n k f t d, (k < n)%nat ->
  nth k (combine (seq_up f n) (seq_up t n)) d = (f + N.of_nat k, t + N.of_nat k).
Proof.
  induction n as [|n IH]; intros k f t d H; [lia|].
  destruct k as [|k]; cbn [seq_up combine nth].
  - f_equal; lia.
  - rewrite IH by lia. f_equal; lia.
Qed.

Lemma nth_firstn_lt : forall {A} (l : list A) k m d, (k < m)%nat -> nth k (firstn m l) d = nth k l d.
Proof.
  intros A l. induction l as [|x l IH]; intros k m d H.
  - rewrite firstn_nil. reflexivity.
  - destruct m; [lia|]. destruct k; cbn; auto. apply IH. lia.
Qed.

Lemma run_len_le : forall rest f delta, (run_len f rest delta <= length rest)%nat.
Proof.
  induction rest as [|[f' t'] r IH]; intros f delta; cbn [run_len length]; [lia|].
  destruct (_ && _); [|lia]. specialize (IH f' delta). lia.
Qed.

Lemma run_len_spec : forall rest f t,
  f < 65535 -> t < 65535 -> Forall (fun p => fst p < 65535 /\ snd p < 65535) rest ->
  let n := run_len f rest (delta16 f t) in
  firstn n rest = combine (seq_up (f + 1) n) (seq_up (t + 1) n).
Proof.
  induction rest as [|[f' t'] r IH]; intros f t Hf Ht Hr; cbn [run_len]; [reflexivity|].
  inversion Hr as [|? ? Hp Hr']; subst. cbn [fst snd] in Hp. destruct Hp as [Hf' Ht'].
  destruct ((f' =? (f + 1) mod 65536) && (t' =? (f' + delta16 f t) mod 65536)) eqn:E; [|reflexivity].
  apply andb_true_iff in E. destruct E as [E1 E2]. unfold delta16 in E2.
  assert (Ef : f' = f + 1) by lia.
  assert (Et : t' = t + 1) by lia.
  subst f' t'. cbn [firstn seq_up combine]. f_equal.
  assert (Ed : delta16 (f + 1) (t + 1) = delta16 f t) by (unfold delta16; lia).
  rewrite <- Ed. apply IH; auto.
Qed.

Lemma firstn_run : forall rest f t,
  f < 65535 -> t < 65535 -> Forall (fun p => fst p < 65535 /\ snd p < 65535) rest ->
  let n := S (run_len f rest (delta16 f t)) in
  firstn n ((f, t) :: rest) = combine (seq_up f n) (seq_up t n).
Proof.
  intros rest f t Hf Ht Hr. cbn [firstn seq_up combine]. f_equal. apply run_len_spec; auto.
Qed.

Lemma add_pairs_asc : forall fr to res,
  length fr = length to -> ascending fr ->
  (forall k, In k fr -> Forall (fun p => fst p < k) res) ->
  add_pairs res fr to = Some (res ++ combine fr to).
Proof.
  induction fr as [|f fr IH]; intros to res Hl Ha Hk; destruct to as [|t to]; try discriminate.
  - cbn. rewrite app_nil_r. reflexivity.
  - cbn [add_pairs combine]. unfold has_key. rewrite assoc_none_lt by (apply Hk; left; auto).
    rewrite IH.
    + rewrite <- app_assoc. reflexivity.
    + cbn in Hl. lia.
    + eapply ascending_tail; eauto.
    + intros k Hin. apply Forall_app. split; [apply Hk; right; auto|].
      constructor; [|constructor]. cbn. pose proof (ascending_lt_all _ _ Ha) as HL.
      rewrite Forall_forall in HL. auto.
Qed.

Lemma ascending_app_r : forall a b, ascending (a ++ b) -> ascending b.
Proof. induction a as [|x a IH]; intros b H; cbn in *; auto. apply IH. apply H. Qed.

Lemma ascending_app_lt : forall a b, ascending (a ++ b) ->
  forall x y, In x a -> In y b -> x < y.
Proof.
  induction a as [|z a IH]; intros b H x y Hx Hy; [contradiction|].
  destruct Hx as [E|Hx].
  - subst. pose proof (ascending_lt_all _ _ H) as HL. rewrite Forall_forall in HL.
    apply HL. apply in_or_app. right. auto.
  - apply (IH b); auto. cbn in H. apply H.
Qed.

(* ---- contextual lookups (GSUB5): grouped rules ---- *)
Lemma flat_rules_groups : forall {B} cov (rules : list (list B)), flat_rules (combine cov rules) = groups cov rules.
Proof. reflexivity. Qed.

Lemma vals_of_groups : forall {B} cov (repl : list (list B)),
  ascending cov -> length cov = length repl ->
  map (fun g => vals_of g (groups cov repl)) cov = repl.
Proof.
  intros B. induction cov as [|g cov IH]; intros repl Ha Hl; destruct repl as [|r repl]; try discriminate; auto.
  cbn [length] in Hl. cbn [map]. rewrite groups_cons.
  pose proof (ascending_lt_all _ _ Ha) as HL.
  assert (F1 : forall (x : N) (rr : list B), filter (fun p : N * B => fst p =? x) (map (fun lg => (x, lg)) rr) = map (fun lg => (x, lg)) rr).
  { intros x rr. induction rr; cbn; auto. rewrite N.eqb_refl. f_equal; auto. }
  assert (F2 : forall (x y : N) (rr : list B), x <> y -> filter (fun p : N * B => fst p =? x) (map (fun lg => (y, lg)) rr) = []).
  { intros x y rr Hxy. induction rr; cbn; auto. assert (E : (y =? x) = false) by lia. rewrite E. auto. }
  f_equal.
  - unfold vals_of. rewrite filter_app, F1.
    assert (E : filter (fun p : N * B => fst p =? g) (groups cov repl) = []).
    { pose proof (groups_keys_ge cov repl g HL) as HG. clear - HG.
      induction (groups cov repl) as [|p l IHl]; cbn; auto. inversion HG; subst.
      assert (E : (fst p =? g) = false) by lia. rewrite E. auto. }
    rewrite E, app_nil_r, map_map. cbn [snd]. apply map_id.
  - assert (Hl' : length cov = length repl) by lia.
    transitivity (map (fun g0 => vals_of g0 (groups cov repl)) cov);
      [|apply (IH repl (ascending_tail _ _ Ha) Hl')].
    apply map_ext_in. intros x Hx. unfold vals_of. rewrite filter_app.
    rewrite F2; auto. rewrite Forall_forall in HL. specialize (HL x Hx). lia.
Qed.

(* rules indexed by class: index_from i rules, flattened and regrouped *)
Lemma flat_index_keys_ge : forall {B} (rules : list (list B)) i,
  Forall (fun p => i <= fst p) (flat_rules (index_from i rules)).
Proof.
  intros B rules. induction rules as [|rs r IH]; intros i; [constructor|].
  cbn [index_from]. unfold flat_rules in *. cbn [map concat fst snd]. apply Forall_app. split.
  - apply Forall_forall. intros p Hp. apply in_map_iff in Hp. destruct Hp as (x & E & _). subst. cbn. lia.
  - eapply Forall_impl; [|apply (IH (i + 1))]. intros p Hp. cbn in Hp. lia.
Qed.

Lemma vals_of_index : forall {B} (rules : list (list B)) i,
  map (fun c => vals_of (i + N.of_nat c) (flat_rules (index_from i rules))) (seq 0 (length rules)) = rules.
Proof.
  intros B rules. induction rules as [|rs r IH]; intros i; [reflexivity|].
  cbn [length seq map index_from]. unfold flat_rules in *. cbn [map concat fst snd].
  assert (F1 : forall (x : N) (rr : list B), filter (fun p : N * B => fst p =? x) (map (fun lg => (x, lg)) rr) = map (fun lg => (x, lg)) rr).
  { intros x rr. induction rr; cbn; auto. rewrite N.eqb_refl. f_equal; auto. }
  assert (F2 : forall (x y : N) (rr : list B), x <> y -> filter (fun p : N * B => fst p =? x) (map (fun lg => (y, lg)) rr) = []).
  { intros x y rr Hxy. induction rr; cbn; auto. assert (E : (y =? x) = false) by lia. rewrite E. auto. }
  f_equal.
  - unfold vals_of. rewrite N.add_0_r. rewrite filter_app, F1.
    assert (E : filter (fun p : N * B => fst p =? i) (concat (map (fun p => map (fun x => (fst p, x)) (snd p)) (index_from (i + 1) r))) = []).
    { pose proof (flat_index_keys_ge r (i + 1)) as HG. unfold flat_rules in HG.
      induction (concat _) as [|p l IHl]; cbn; auto. inversion HG; subst.
      assert (E : (fst p =? i) = false) by lia. rewrite E. auto. }
    rewrite E, app_nil_r, map_map. cbn [snd]. apply map_id.
  - rewrite <- seq_shift, map_map.
    transitivity (map (fun c => vals_of (i + 1 + N.of_nat c)
                     (concat (map (fun p => map (fun x => (fst p, x)) (snd p)) (index_from (i + 1) r)))) (seq 0 (length r)));
      [|apply (IH (i + 1))].
    apply map_ext. intros c. unfold vals_of. rewrite filter_app. rewrite F2 by lia. cbn [app].
    replace (i + N.of_nat (S c)) with (i + 1 + N.of_nat c) by lia. reflexivity.
Qed.

(* class names "c<i>" *)
Lemma digits_inj : forall a b, digits a = digits b -> a = b.
Proof.
  intros a b H. pose proof (atoi_digits_digits a) as Ha. rewrite H in Ha.
  rewrite atoi_digits_digits in Ha. congruence.
Qed.

Lemma atoi_digits_z : forall z, atoi (digits_z z) = Some z.
Proof.
  intros z. destruct z as [|p|p]; unfold digits_z.
  - apply atoi_digits_nat.
  - apply (atoi_digits_nat (Npos p)).
  - unfold atoi. cbn [N.eqb Pos.eqb]. destruct (digits_head (Npos p)) as (c & r & E & _ & _).
    rewrite E. cbn [is_nil]. rewrite <- E. rewrite atoi_digits_digits. reflexivity.
Qed.
