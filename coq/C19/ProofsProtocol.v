(* C19/ProofsProtocol.v — theorems about the goroutine protocol of Parse *)
From Coq Require Import List Arith Bool Lia Wf_nat.
From C19 Require Import Protocol.
Import ListNotations.

(* every step decreases the lexicographic measure *)
Lemma step_measure : forall wh s s', step wh s s' ->
  (m1 s' < m1 s)%nat \/ (m1 s' = m1 s /\ m2 s' < m2 s)%nat.
Proof.
  intros wh s s' H. destruct H; unfold m1, m2; cbn;
    repeat match goal with x : lex_st |- _ => destruct x | x : helper_st |- _ => destruct x
                      | x : par_st |- _ => destruct x end; cbn; lia.
Qed.

(* under every interleaving the system stops: there is no infinite execution *)
Theorem no_infinite_run : forall wh s, Acc (fun s' s => step wh s s') s.
Proof.
  intros wh.
  assert (H : forall a b s, m1 s = a -> m2 s = b -> Acc (fun s' s => step wh s s') s).
  { induction a as [a IHa] using lt_wf_ind. induction b as [b IHb] using lt_wf_ind.
    intros s E1 E2. constructor. intros s' Hs. apply step_measure in Hs.
    destruct Hs as [Hs|[Hs1 Hs2]].
    - apply (IHa (m1 s') ltac:(lia) (m2 s')); reflexivity.
    - apply (IHb (m2 s')); [lia|lia|reflexivity]. }
  intros s. eapply H; reflexivity.
Qed.

Lemma pinv_step : forall wh s s', step wh s s' -> pinv s -> pinv s'.
Proof.
  intros wh s s' H [I1 I2]. destruct H; unfold pinv in *; cbn in *; split; intros X;
    try discriminate; auto; try (apply I1; auto; fail); try (apply I2; auto; fail); try congruence.
Qed.

Lemma pinv_reach : forall wh s s', reach wh s s' -> pinv s -> pinv s'.
Proof. intros wh s s' H. induction H; auto. intros. apply IHreach. eapply pinv_step; eauto. Qed.

Lemma pinv_init : forall n, pinv (init n).
Proof. intros n. split; intros X; discriminate X. Qed.

Lemma pinv_drain : forall l h, pinv (mkP l h PDrain).
Proof. intros. split; intros X; discriminate X. Qed.

(* where the system can stop: the lexer has closed its channel and ended and
   Parse has returned *)
Lemma stuck_is_final : forall wh s, pinv s -> stuck wh s -> lx s = LClosed /\ ps s = PDone.
Proof.
  intros wh [l h p] [I1 I2] S. unfold stuck in S. cbn in *.
  destruct p.
  - exfalso. apply (S (mkP l h PDrain)). constructor.
  - exfalso. apply (S (mkP l h PDrain)). constructor.
  - destruct l as [[|k]|].
    + exfalso. apply (S (mkP LClosed h PDrain)). constructor.
    + exfalso. apply (S (mkP (LRun k) h PDrain)). constructor.
    + exfalso. apply (S (mkP LClosed h PDone)). constructor.
  - destruct (I2 eq_refl) as [E|E]; subst; auto.
    exfalso. apply (S (mkP LClosed h PDone)). constructor.
Qed.

(* P1 drain_terminates: from every abort point (any number of items still to
   be sent, any helper state) and under every interleaving, the run is finite
   and can only end with the lexer goroutine finished and Parse returned: no
   sender is left blocked on the item channel *)
Theorem drain_terminates_gen : forall wh l h,
  Acc (fun s' s => step wh s s') (mkP l h PDrain) /\
  (forall s', reach wh (mkP l h PDrain) s' -> stuck wh s' -> lx s' = LClosed /\ ps s' = PDone).
Proof.
  intros wh l h. split; [apply no_infinite_run|].
  intros s' R S. apply (stuck_is_final wh); auto. eapply pinv_reach; eauto. apply pinv_drain.
Qed.

(* the same for whole executions of Parse, aborted or not *)
Theorem parse_run_ends_gen : forall wh n s',
  reach wh (init n) s' -> stuck wh s' -> lx s' = LClosed /\ ps s' = PDone.
Proof.
  intros wh n s' R S. apply (stuck_is_final wh); auto. eapply pinv_reach; eauto. apply pinv_init.
Qed.

(* P1 helper_leak_refuted (code as found): a string item "ab" whose first
   rune is not in the cmap.  The run below ends with the helper goroutine
   blocked for ever on its second send. *)
Theorem helper_leak_refuted_gen :
  exists s', reach true (init 1) s' /\ stuck true s' /\ hp s' = HRun 1.
Proof.
  exists (mkP LClosed (HRun 1) PDone). split; [|split; [|reflexivity]].
  - unfold init.
    eapply r_step. { apply (s_string true 1 HNone 2); [reflexivity|discriminate|intros; discriminate]. }
    eapply r_step. { apply s_rune. }
    eapply r_step. { apply s_abort_str. }
    eapply r_step. { apply s_drain. }
    eapply r_step. { apply s_lclose. }
    eapply r_step. { apply s_drained. }
    apply r_refl.
  - intros s' H. inversion H.
Qed.

(* the repaired code has no helper goroutine at all: nothing is left running *)
Lemma no_helper_step : forall s s', step false s s' -> hp s = HNone -> hp s' = HNone.
Proof. intros s s' H E. destruct H; cbn in *; auto; try discriminate. Qed.

Theorem no_goroutine_left_gen : forall n s',
  reach false (init n) s' -> stuck false s' ->
  lx s' = LClosed /\ hp s' = HNone /\ ps s' = PDone.
Proof.
  intros n s' R S. destruct (parse_run_ends_gen false n s' R S) as [A B]. repeat split; auto.
  assert (G : forall s s'', reach false s s'' -> hp s = HNone -> hp s'' = HNone).
  { intros s s'' Hr. induction Hr; auto. intros. apply IHHr. eapply no_helper_step; eauto. }
  apply (G (init n)); auto.
Qed.
