From Coq Require Import Extraction ExtrOcamlBasic.
From Common Require Import Conv.
From Gen Require Import C19.
From C19 Require Import Model.
Extraction "c19_model.ml" conv_anchor ityp_code M_lex M_parse M_parse_tokens M_explain_gsub M_explain_gpos M_parse_nested M_explain_nested.
